# Raised InconsistentGradingsError on /repo before 79421ab (fixes/C12-4.diff); must print "second write ok" since.
"""write(); move vertices; write()  -- the second write raises although the same geometry written by a new mesh is fine.
Blocks whose counts are propagated keep the chops (with the cell count frozen) and the wire gradings copied in the
first run; the chopped neighbour recomputes its count from the new edge lengths."""
import sys
sys.path.insert(0, sys.argv[1] if len(sys.argv) > 1 else '/repo/src')
import classy_blocks as cb

def build(y1):
    A = cb.Box([0, 0, 0], [1, y1, 1])
    B = cb.Box([1, 0, 0], [2, y1, 1])
    A.chop(0, count=4); A.chop(2, count=4)
    A.chop(1, start_size=0.1)          # count follows the length of the edges
    B.chop(0, count=4)                 # y and z of B come from A
    m = cb.Mesh(); m.add(A); m.add(B)
    return m

m = build(1.0)
m.write('/tmp/c12p/m1.txt')
for v in m.vertices:
    if v.position[1] > 0.5:
        v.move_to([v.position[0], 1.5, v.position[2]])
try:
    m.write('/tmp/c12p/m2.txt')
    print('second write ok')
except Exception as e:
    print('second write raises', type(e).__name__, e)
build(1.5).write('/tmp/c12p/m3.txt')
print('a new mesh on the moved geometry writes fine')
