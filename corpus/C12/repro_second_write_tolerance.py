# Printed DIFFERENT on /repo before 79421ab (fixes/C12-4.diff); must print "same same" since.
import sys
sys.path.insert(0, '/repo/src')
import classy_blocks as cb

def build(order, eA=2.0, eB=2.0 + 1e-8):
    A = cb.Box([0, 1, 0], [1, 2, 1])
    C = cb.Box([2, 1, 0], [3, 2, 1])
    P = cb.Box([1, 1, 0], [2, 2, 1])
    B = cb.Box([1, 0, 0], [2, 1, 1])
    for o in (A, C, P, B):
        o.chop(0, count=3); o.chop(1, count=3)
    A.chop(2, count=10, total_expansion=eA)
    C.chop(2, count=10, total_expansion=eA)
    B.chop(2, count=10, total_expansion=eB)
    m = cb.Mesh()
    d = {'A': A, 'P': P, 'B': B, 'C': C}
    for k in order:
        m.add(d[k])
    return m

def blocks_section(path):
    t = open(path).read()
    i = t.index('blocks'); j = t.index(');', i)
    return t[i:j]

for order in ['ACPB']:
    m = build(order)
    m.write('/tmp/c12p/a.txt'); f1 = blocks_section('/tmp/c12p/a.txt')
    m.write('/tmp/c12p/b.txt'); f2 = blocks_section('/tmp/c12p/b.txt')
    m.write('/tmp/c12p/c.txt'); f3 = blocks_section('/tmp/c12p/c.txt')
    print(order, 'same' if f1 == f2 else 'DIFFERENT', 'same' if f2 == f3 else 'DIFFERENT(2,3)')
    if f1 != f2:
        print(f1); print(f2)
