#!/bin/bash
# Build the Gen-independent part of the Coq development (full .vo build) and run the hygiene gate.
set -e
cd "$(dirname "$0")"
exec /venv/bin/python harness/setup_build.py "$@"
