#!/bin/bash
# Runs the baseline suite of a repo checkout (default /repo) in parallel and prints every failure
# other than the one that already fails in the baseline (BASELINE.json always_fail), plus the totals.
R=${1:-/repo}
cd "$R" && PYTHONPATH=$R/src /venv/bin/python -m pytest -p no:cacheprovider -n 12 --timeout=900 -o addopts="" 2>&1 | grep -aE "^(FAILED|ERROR)| passed" | grep -v "SplineInterpolatedCurveTests::test_length"
exit 0
