"""setup_cmd: full .vo build of the Gen-independent Coq development + hygiene gate."""
import glob
import os
import re
import subprocess
import sys

VERIF = os.path.dirname(os.path.dirname(os.path.abspath(__file__)))
COQ = os.path.join(VERIF, "coq")
FORBIDDEN = r"\b(Admitted|admit|Axiom|Axioms|Parameter|Parameters|Conjecture|Admit Obligations)\b|Unset Guard|bypass_check|type-in-type|impredicative-set|Unset Universe Checking|Unset Positivity"


def gate():
    bad = []
    for p in glob.glob(os.path.join(COQ, "**", "*.v"), recursive=True):
        if os.sep + "Gen" + os.sep in p:
            continue
        txt = open(p).read()
        # strip comments
        txt2 = re.sub(r"\(\*.*?\*\)", "", txt, flags=re.S)
        for i, line in enumerate(txt2.splitlines(), 1):
            if re.search(FORBIDDEN, line):
                bad.append("%s:%d: %s" % (os.path.relpath(p, VERIF), i, line.strip()))
            if re.match(r"^\s*(Variable|Variables|Hypothesis|Hypotheses|Context)\b", line):
                # allowed only inside a Section: checked coarsely by counting Section/End before it
                pre = "\n".join(txt2.splitlines()[: i - 1])
                opened = len(re.findall(r"^\s*Section\s", pre, flags=re.M))
                closed = len(re.findall(r"^\s*End\s", pre, flags=re.M)) - len(re.findall(r"^\s*Module\s", pre, flags=re.M))
                if opened - max(closed, 0) <= 0:
                    bad.append("%s:%d: %s (outside a Section)" % (os.path.relpath(p, VERIF), i, line.strip()))
    return bad


def main():
    import fcntl
    os.makedirs(os.path.join(VERIF, ".work"), exist_ok=True)
    lock = open(os.path.join(VERIF, ".work", ".coq.lock"), "w")
    fcntl.flock(lock, fcntl.LOCK_EX)
    files = []
    for d in ("Base", "Model", "Proofs"):
        files += sorted(glob.glob(os.path.join(COQ, d, "**", "*.v"), recursive=True))
    with open(os.path.join(COQ, "_CoqProject"), "w") as f:
        f.write("-Q . CB\n-arg -w -arg -notation-overridden,-deprecated-hint-without-locality,-deprecated-instance-without-locality\n")
        for p in files:
            f.write(os.path.relpath(p, COQ) + "\n")
    r = subprocess.run(["coq_makefile", "-f", "_CoqProject", "-o", "Makefile"], cwd=COQ)
    if r.returncode:
        sys.exit(r.returncode)
    r = subprocess.run(["timeout", "7000", "make", "-C", COQ, "-j16", "-k"])
    if r.returncode:
        # A file that no registered check needs must not take the registered checks down with it.
        print("SETUP: some Coq files failed to build (see above)")
        missing = []
        try:
            import importlib
            import json
            sys.path.insert(0, os.path.dirname(os.path.abspath(__file__)))
            os.environ.setdefault("PYTHONPATH", "/repo/src")
            sys.path.insert(0, "/repo/src")
            man = json.load(open(os.path.join(VERIF, "MANIFEST.json")))
            for c in man["checks"]:
                mod = importlib.import_module("props." + c["property_id"])
                for rel in mod.PROP.prebuilt:
                    if not os.path.exists(os.path.join(COQ, rel[:-2] + ".vo")):
                        missing.append("%s needs %s" % (c["property_id"], rel))
        except Exception as e:
            missing.append("could not determine the needs of the registered checks: %r" % (e,))
        if missing:
            print("SETUP FAILED:\n" + "\n".join(missing))
            sys.exit(r.returncode)
        print("SETUP: every file needed by a registered check is built; continuing")
    if "--no-gate" not in sys.argv:
        bad = gate()
        if bad:
            print("HYGIENE GATE FAILED:\n" + "\n".join(bad))
            sys.exit(2)
        print("hygiene gate: clean")


if __name__ == "__main__":
    main()
