#!/bin/bash
# development helper: seedrun.sh <worktree> <patch.diff> <ID>...   runs ./check <ID> against a scratch worktree with the patch applied
WT=$1; P=$2; shift 2
git -C $WT checkout -q -- src && git -C $WT apply $P || { echo "patch failed"; exit 2; }
for id in "$@"; do
  VERIF_REPO=$WT timeout 1800 ./check $id --tier quick 2>&1 | grep -aE "VIOLATION|KNOWN|BROKEN|obligations [0-9]" | cut -c1-400
done
git -C $WT checkout -q -- src
