"""Regenerates MANIFEST.json from the registry below (kept valid at all times)."""
import json
import os

VERIF = os.path.dirname(os.path.dirname(os.path.abspath(__file__)))
BASE_NOTE = ("Trusted: Coq 8.16.1 kernel + vm_compute; the harness generators that tabulate the real functions of /repo/src into "
             "coq/Gen on every run; the correspondence harness (sampled); CPython/numpy semantics. Axioms per theorem are listed "
             "in the evidence file (Print Assumptions).")

CHECKS = {
    "C01": dict(
        text="Theorems for ALL assemblies (any number of blocks, any vertex identification, numbering and insertion order) and ALL iteration "
             "orders of the neighbour/coincident containers, proved by induction over the executable model Model/Propagate.v of "
             "grade_blocks / propagate_gradings / check_consistency: coincidence is complete and symmetric; whenever writing succeeds the "
             "four parallel wires of each block carry the written count and coincident wires of different blocks carry equal counts; two "
             "chopped directions of one family with different counts are never written and (every family chopped) give exactly the "
             "inconsistent-gradings error. The model is tied to the code on every run by an in-Coq (vm_compute) correspondence on random "
             "lattice assemblies with random renumbering, insertion order, chops and injected iteration schedules (outcome kind, per-block "
             "counts parsed from the written file, per-wire counts).",
        design="5/C01, Appendix A, G",
        technique="Coq: induction over the propagation model for all assemblies and schedules; in-Coq differential correspondence",
        note=BASE_NOTE + " C01 theorems are closed under the global context (no axioms). Chop.calculate is abstracted to the count it returns "
             "(C03 covers it); hand model validated on sampled inputs only."),
    "C02": dict(
        text="Theorems for ALL assemblies and ALL valid iteration orders (schedule oracles) over Model/Propagate.v: the propagation loop "
             "never exhausts its fuel (termination, lexicographic measure); the outcome is the undefined-gradings error exactly when some "
             "family of block directions holds no chop; if every family holds a chop writing succeeds unless two chops conflict and every "
             "direction then carries its family's count; the complete outcome (kind, block counts, wire counts) is independent of the "
             "iteration order; the insertion order the repaired code uses is a valid oracle. AXIS_PAIRS is tabulated from the working tree "
             "on every run and proved to be the 12 positively directed edges of the reference hexahedron Base/Hex.v. Correspondence as C01 "
             "plus a call-count watchdog (livelock detection) and adversarial schedules.",
        design="5/C02, Appendix A, G",
        technique="Coq: termination measure + invariants by induction, oracle-independence theorem; finite table check by vm_compute; in-Coq correspondence",
        note=BASE_NOTE + " No axioms. Run-to-run determinism of CPython itself is outside the model (the code now iterates insertion-ordered "
             "containers; the theorem covers every order for counts)."),
    "C10": dict(
        text="Finite theorems (whole domain: 3 quads x shifts -9..9 x 4 nearest corners; 6 sides x 4 flag combinations; 64 corner pairs; "
             "8 corners; 12 edge slots) proved by vm_compute over tables regenerated from the working tree against the independent "
             "reference hexahedron Base/Hex.v, lifted to forall with forallb_forall; normal flip/shift invariance by ring over R; "
             "frame theorem for arbitrary call sequences by induction over the spec-level state machine Model/OpAddr.v, which is tied to "
             "the code by an in-Coq (vm_compute) correspondence on random call sequences.",
        design="5/C10",
        technique="Coq: finite tabulation + vm_compute lifted to forall; induction over call sequences; ring",
        note=BASE_NOTE + " Real-number axioms only under C10_invert_normal."),
}

NOT_YET = "not built yet (work in progress; see DESIGN.md section 8)"


def main():
    props = [json.loads(l) for l in open(os.path.join(VERIF, "properties.jsonl"))]
    checks = []
    na = []
    for p in props:
        pid = p["id"]
        if pid in CHECKS:
            c = CHECKS[pid]
            checks.append(dict(
                property_id=pid,
                quick_cmd="./check %s --tier quick" % pid,
                thorough_cmd="./check %s --tier thorough" % pid,
                evidence_file="/verif/evidence/%s.json" % pid,
                replay_cmd_template="./check %s --replay {path}" % pid,
                engine="coq-proof",
                level_claimed=dict(category="proof", text=c["text"], design_ref=c["design"]),
                level_note=c["note"],
                technique=c["technique"],
            ))
        else:
            na.append(dict(property_id=pid, reason=NOT_YET))
    m = {
        "version": 1,
        "setup_cmd": "./setup.sh",
        "hooks": {
            "guard": "CLASSY_BLOCKS_VERIF",
            "enable": "no source hooks: instrumentation is applied by the harness at run time (attribute replacement in its own process); the harness exports CLASSY_BLOCKS_VERIF=1",
            "baseline_off_cmd": "cd /repo && /venv/bin/python -m pytest -ra -q -p no:cacheprovider --timeout=900 --continue-on-collection-errors",
            "source_commits": [],
            "add_only": True,
        },
        "engines": [{"name": "coq-proof", "path": "/verif/check", "serves_properties": sorted(CHECKS),
                     "kind_free_text": "Coq 8.16.1 theorems over tables regenerated from /repo and hand models; in-Coq correspondence; Python oracle search for replays"}],
        "checks": checks,
        "notes": "See DESIGN.md. fix: commits in /repo are listed in known_findings.json (status fixed).",
        "not_applicable": na,
    }
    with open(os.path.join(VERIF, "MANIFEST.json"), "w") as f:
        json.dump(m, f, indent=1)


if __name__ == "__main__":
    main()
