"""Regenerates MANIFEST.json from the registry below (kept valid at all times)."""
import json
import os

VERIF = os.path.dirname(os.path.dirname(os.path.abspath(__file__)))
BASE_NOTE = ("Trusted: Coq 8.16.1 kernel + vm_compute; the harness generators that tabulate the real functions of /repo/src into "
             "coq/Gen on every run; the correspondence harness (sampled); CPython/numpy semantics. Axioms per theorem are listed "
             "in the evidence file (Print Assumptions).")

CHECKS = json.load(open(os.path.join(VERIF, "harness", "checks.json")))  # registry: one entry per claimed property

NOT_YET = "not built yet (work in progress; see DESIGN.md section 8)"


def main():
    props = [json.loads(l) for l in open(os.path.join(VERIF, "properties.jsonl"))]
    checks = []
    na = []
    for p in props:
        pid = p["id"]
        if pid in CHECKS:
            c = CHECKS[pid]
            checks.append(dict(
                property_id=pid,
                quick_cmd="./check %s --tier quick" % pid,
                thorough_cmd="./check %s --tier thorough" % pid,
                evidence_file="/verif/evidence/%s.json" % pid,
                replay_cmd_template="./check %s --replay {path}" % pid,
                engine="coq-proof",
                level_claimed=dict(category="proof", text=c["text"], design_ref=c["design"]),
                level_note=c["note"],
                technique=c["technique"],
            ))
        else:
            na.append(dict(property_id=pid, reason=NOT_YET))
    m = {
        "version": 1,
        "setup_cmd": "./setup.sh",
        "hooks": {
            "guard": "CLASSY_BLOCKS_VERIF",
            "enable": "no source hooks: instrumentation is applied by the harness at run time (attribute replacement in its own process); the harness exports CLASSY_BLOCKS_VERIF=1",
            "baseline_off_cmd": "cd /repo && /venv/bin/python -m pytest -ra -q -p no:cacheprovider --timeout=900 --continue-on-collection-errors",
            "source_commits": [],
            "add_only": True,
        },
        "engines": [{"name": "coq-proof", "path": "/verif/check", "serves_properties": sorted(CHECKS),
                     "kind_free_text": "Coq 8.16.1 theorems over tables regenerated from /repo and hand models; in-Coq correspondence; Python oracle search for replays"}],
        "checks": checks,
        "notes": "See DESIGN.md. fix: commits in /repo are listed in known_findings.json (status fixed).",
        "not_applicable": na,
    }
    with open(os.path.join(VERIF, "MANIFEST.json"), "w") as f:
        json.dump(m, f, indent=1)


if __name__ == "__main__":
    main()
