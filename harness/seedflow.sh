#!/bin/bash
# development helper: seedflow.sh <ID> <X> [extra check IDs...]
#   confirms the seeded change /tmp/seed_out/<ID>/<X> in the scratch worktree /tmp/wt_seed_<ID>
#   (demo passes without, fails with; whole suite green with), stores it under /verif/seeded/<ID>-<X>/,
#   then runs ./check <ID> (and extra IDs) against the patched worktree and records what was reported.
ID=$1; X=$2; shift 2; EXTRA="$@"
WT=/tmp/wt_seed_$ID; D=/tmp/seed_out/$ID/$X; NAME=$ID-$X
OUT=/verif/seeded/$NAME; mkdir -p $OUT /verif/.work/seedlogs
L=/verif/.work/seedlogs/$NAME
git -C $WT checkout -q -- . ; git -C $WT clean -fdq
( cd $D && PYTHONPATH=$WT/src timeout 900 /venv/bin/python demo.py > $L.demo_clean.txt 2>&1 ); RC0=$?
git -C $WT apply $D/patch.diff || { echo "$NAME: patch does not apply"; exit 2; }
( cd $D && PYTHONPATH=$WT/src timeout 900 /venv/bin/python demo.py > $L.demo_patched.txt 2>&1 ); RC1=$?
( cd $WT && PYTHONPATH=$WT/src timeout 2400 /venv/bin/python -m pytest -p no:cacheprovider -n 6 -q -o addopts="" > $L.suite.txt 2>&1 )
SUITE=$(tail -1 $L.suite.txt)
FAILS=$(grep -a "^FAILED" $L.suite.txt | grep -v "SplineInterpolatedCurveTests::test_length" | head -3)
DET=""
for id in $ID $EXTRA; do
  VERIF_REPO=$WT timeout 2400 /verif/check $id --tier quick > $L.check_$id.txt 2>&1; RC=$?
  V=$(grep -ac "^VIOLATION" $L.check_$id.txt)
  NF=$(grep -a "^VIOLATION" $L.check_$id.txt | grep -ac "no-failing-input-found")
  DET="$DET $id:rc=$RC:violations=$V:nofailinginput=$NF"
done
git -C $WT checkout -q -- . ; git -C $WT clean -fdq
cp $D/patch.diff $D/demo.py $OUT/
/venv/bin/python - "$D/meta.json" "$OUT/meta.json" "$RC0" "$RC1" "$SUITE" "$FAILS" "$(git -C $WT rev-parse --short HEAD)" "$DET" <<'PY'
import json,sys
m=json.load(open(sys.argv[1]))
m["confirmed"]=dict(demo_exit_unchanged=int(sys.argv[3]), demo_exit_patched=int(sys.argv[4]), suite_with_patch=sys.argv[5], other_failures=sys.argv[6], base_commit=sys.argv[7],
  ran="git apply patch.diff in a scratch worktree of /repo; PYTHONPATH=<wt>/src /venv/bin/python demo.py (before/after); pytest -n 6 -q (whole suite) with the patch; VERIF_REPO=<wt> ./check <ID> --tier quick with the patch")
m["check_result_first_run"]=sys.argv[8].strip()
json.dump(m, open(sys.argv[2],"w"), indent=1)
PY
echo "$NAME: demo clean rc=$RC0 patched rc=$RC1 | suite: $SUITE | other failures: [$FAILS] | checks:$DET"
