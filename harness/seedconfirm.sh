#!/bin/bash
# development helper: seedconfirm.sh <worktree> <seed_out/X dir> <name>
# confirms a seeded change (demo passes without, fails with; suite green with) and stores it under /verif/seeded/<name>/
WT=$1; D=$2; NAME=$3
OUT=/verif/seeded/$NAME; mkdir -p $OUT
git -C $WT checkout -q -- src
( cd $D && PYTHONPATH=$WT/src timeout 600 /venv/bin/python demo.py > /tmp/seed_demo_clean.txt 2>&1 ); RC0=$?
git -C $WT apply $D/patch.diff || { echo "$NAME: patch does not apply"; exit 2; }
( cd $D && PYTHONPATH=$WT/src timeout 600 /venv/bin/python demo.py > /tmp/seed_demo_patched.txt 2>&1 ); RC1=$?
SUITE=$(cd $WT && PYTHONPATH=$WT/src timeout 1500 /venv/bin/python -m pytest -p no:cacheprovider -n 8 -q -o addopts="" 2>&1 | tail -1)
FAILS=$(cd $WT && PYTHONPATH=$WT/src timeout 1500 /venv/bin/python -m pytest -p no:cacheprovider -n 8 -q -o addopts="" 2>&1 | grep -a "^FAILED" | grep -v "SplineInterpolatedCurveTests::test_length" | head -3)
git -C $WT checkout -q -- src
cp $D/patch.diff $D/demo.py $OUT/
/venv/bin/python - "$D/meta.json" "$OUT/meta.json" "$RC0" "$RC1" "$SUITE" "$FAILS" "$(git -C $WT rev-parse --short HEAD)" <<'PY'
import json,sys
m=json.load(open(sys.argv[1]))
m["confirmed"]=dict(demo_exit_unchanged=int(sys.argv[3]), demo_exit_patched=int(sys.argv[4]), suite_with_patch=sys.argv[5], other_failures=sys.argv[6], base_commit=sys.argv[7],
  ran="git apply patch.diff in a scratch worktree; PYTHONPATH=<wt>/src /venv/bin/python demo.py (before/after); pytest -n 8 -q (whole suite) with the patch")
json.dump(m, open(sys.argv[2],"w"), indent=1)
PY
echo "$NAME: demo clean rc=$RC0 patched rc=$RC1 suite: $SUITE other failures: [$FAILS]"
