"""Development command (never used by registered checks): record the normalised-AST fingerprints of the anchored source
files of /repo as they are now.   /venv/bin/python harness/fingerprints.py --update
Run it after the hand models have been re-validated against a changed /repo (e.g. after a fix: commit)."""
import json
import os
import sys

sys.path.insert(0, os.path.dirname(os.path.abspath(__file__)))
import core  # noqa: E402


def main():
    files = set()
    with open(os.path.join(core.VERIF, "properties.jsonl")) as f:
        for l in f:
            files |= set((json.loads(l).get("anchors") or {}).get("files") or [])
    import importlib
    for pid in json.load(open(os.path.join(core.VERIF, "harness", "checks.json"))):
        files |= set(importlib.import_module("props." + pid).PROP.extra_sources)
    cur = {r: core.source_fingerprint(r) for r in sorted(files)}
    if "--update" in sys.argv:
        with open(core.FINGERPRINTS, "w") as f:
            json.dump(cur, f, indent=1, sort_keys=True)
        print("recorded %d fingerprints" % len(cur))
    else:
        known = json.load(open(core.FINGERPRINTS)) if os.path.exists(core.FINGERPRINTS) else {}
        for r in sorted(cur):
            if known.get(r) != cur[r]:
                print("changed:", r)


if __name__ == "__main__":
    main()
