"""Shared machinery of the checks: environment, Coq runner, evidence, findings, reporting.

Every check is `./check <ID> [--tier quick|thorough] [--replay path]`.  A property module
(harness/props/<ID>.py) defines a subclass of `Prop`; `run_check` drives the stages S0..S5 of
DESIGN.md section 2.3.
"""
import fcntl
import hashlib
import json
import os
import random
import re
import subprocess
import sys
import time
import traceback

VERIF = os.path.dirname(os.path.dirname(os.path.abspath(__file__)))
COQ = os.path.join(VERIF, "coq")
WORK = os.path.join(VERIF, ".work")
REPO = os.environ.get("VERIF_REPO", "/repo")  # VERIF_REPO: development only (scratch worktrees)
PY = "/venv/bin/python"
LOGICAL = "CB"

TRUSTED_COMMON = [
    "Coq 8.16.1 kernel and its vm_compute machine (native_compute not used)",
    "no extraction: models are evaluated inside Coq only (no Extract Constant / Extract Inductive)",
    "harness: generators that tabulate the real functions of /repo/src into coq/Gen, case generators, "
    "canonicalisation, float->dyadic literal conversion (float.hex)",
    "CPython/numpy semantics of the code that is tabulated or compared (modelled, not verified)",
]


def setup_env():
    """S0: make the working tree of /repo authoritative and the run reproducible."""
    os.environ["PYTHONPATH"] = os.path.join(REPO, "src")
    os.environ.setdefault("PYTHONHASHSEED", "0")
    os.environ["CLASSY_BLOCKS_VERIF"] = "1"
    os.environ["PYTHONDONTWRITEBYTECODE"] = "1"
    os.environ["OMP_NUM_THREADS"] = "1"
    src = os.path.join(REPO, "src")
    if src not in sys.path:
        sys.path.insert(0, src)


class GenError(Exception):
    """A tabulator failed closed."""


class Ctx:
    def __init__(self, pid, tier, seed):
        self.pid = pid
        self.tier = tier
        self.seed = seed
        self.rng = random.Random(seed * 1000003 + int(hashlib.sha1(pid.encode()).hexdigest()[:6], 16))
        self.work = os.path.join(WORK, pid)
        os.makedirs(self.work, exist_ok=True)
        self.t0 = time.time()
        self.log_lines = []
        self.checker_cmds = []
        self.prebuilt = []

    @property
    def quick(self):
        return self.tier == "quick"

    def n(self, quick, thorough):
        return quick if self.quick else thorough

    def log(self, *a):
        s = " ".join(str(x) for x in a)
        self.log_lines.append(s)
        print(s, flush=True)

    def gen_dir(self):
        d = os.path.join(COQ, "Gen", self.pid)
        os.makedirs(d, exist_ok=True)
        return d

    def write_gen(self, name, text):
        """Write coq/Gen/<ID>/<name>.v only if changed (keeps .vo fresh when nothing changed)."""
        p = os.path.join(self.gen_dir(), name + ".v")
        old = None
        if os.path.exists(p):
            with open(p) as f:
                old = f.read()
        if old != text:
            with open(p, "w") as f:
                f.write(text)
            for ext in (".vo", ".glob", ".vok", ".vos"):
                q = os.path.join(self.gen_dir(), name + ext)
                if os.path.exists(q):
                    os.remove(q)
        return p


# ----------------------------------------------------------------------------------------------
# Coq runner


def _lock(name=""):
    """Global lock (name == "") for the shared prebuilt libraries; one lock per property for its own
    Gen-dependent and property files, so that checks of different properties compile concurrently."""
    os.makedirs(WORK, exist_ok=True)
    f = open(os.path.join(WORK, ".coq%s.lock" % (("." + name) if name else "")), "w")
    fcntl.flock(f, fcntl.LOCK_EX)
    return f


def ensure_prebuilt(files):
    """Compile (in the given dependency order) the Gen-independent files a property needs, if their
    .vo is missing or stale.  setup.sh builds all of them with make; this is a no-op afterwards."""
    lock = _lock()
    try:
        rebuilt = False
        newest = 0.0  # newest .vo among the earlier files of the list (possible dependencies)
        for rel in files:
            v = os.path.join(COQ, rel)
            vo = v[:-2] + ".vo"
            stale = (rebuilt or not os.path.exists(vo) or os.path.getmtime(vo) < os.path.getmtime(v)
                     or os.path.getmtime(vo) < newest)
            if stale:
                rc, so, se, cmd = coqc(rel, timeout=3000)
                if rc != 0:
                    return False, "prebuilt file %s does not compile:\n%s" % (rel, se[-3000:])
                rebuilt = True
            newest = max(newest, os.path.getmtime(vo))
        return True, ""
    finally:
        lock.close()


def coqc(relpath, timeout=900, extra_Q=None, cwd=COQ):
    cmd = ["coqc", "-q", "-Q", COQ, LOGICAL]
    if extra_Q:
        for d, l in extra_Q:
            cmd += ["-Q", d, l]
    cmd.append(relpath)
    try:
        r = subprocess.run(["timeout", str(timeout)] + cmd, cwd=cwd, capture_output=True, text=True)
        return r.returncode, r.stdout, r.stderr, " ".join(cmd)
    except Exception as e:  # pragma: no cover
        return 99, "", repr(e), " ".join(cmd)


_THM_RE = re.compile(r"^\s*(Theorem|Lemma|Corollary|Example|Fact|Remark|Proposition)\s+([A-Za-z_][A-Za-z0-9_']*)")


def theorems_in(path):
    out = []
    with open(path) as f:
        for i, line in enumerate(f, 1):
            m = _THM_RE.match(line)
            if m:
                out.append((m.group(2), i, m.group(1)))
    return out


def locate_error(stderr, default_file):
    """Map Coq's `File "...", line N` to the enclosing theorem."""
    m = re.search(r'File "([^"]+)", line (\d+)', stderr)
    if not m:
        return default_file, None, None
    fn, ln = m.group(1), int(m.group(2))
    p = fn if os.path.isabs(fn) else os.path.normpath(os.path.join(COQ, fn))
    name = None
    try:
        for (n, l, _k) in theorems_in(p):
            if l <= ln:
                name = n
    except OSError:
        pass
    return os.path.relpath(p, COQ), ln, name


def parse_assumptions(stdout, prop_path):
    """Pair the outputs of `Print Assumptions x.` (in order) with the names in the file."""
    names = []
    with open(prop_path) as f:
        for line in f:
            m = re.match(r"\s*Print Assumptions\s+([A-Za-z_][A-Za-z0-9_'.]*)\s*\.", line)
            if m:
                names.append(m.group(1))
    blocks = []
    cur = None
    for line in stdout.splitlines():
        if line.startswith("Closed under the global context"):
            blocks.append(["closed"])
            cur = None
        elif line.startswith("Axioms:"):
            cur = []
            blocks.append(cur)
        elif cur is not None:
            m = re.match(r"^([A-Za-z_][A-Za-z0-9_'.]*)(\s|$)", line)
            if m:
                cur.append(m.group(1))
    res = {}
    for i, n in enumerate(names):
        res[n] = blocks[i] if i < len(blocks) else ["?"]
    return res


class ProofResult:
    def __init__(self):
        self.ok = True
        self.obligations = []  # theorem names in property files
        self.discharged = []
        self.assumptions = {}
        self.broken = None  # dict(file,line,theorem,message)
        self.cmds = []
        self.wall = 0.0
        self.coqchk = {}  # thorough tier: property file -> coqchk context summary


def build_obligations(ctx, files, prop_files, timeout=1500):
    """S2: compile, in the given order, every file that depends on the regenerated tables plus the
    property files.  All of it is a full coqc (.vo) compilation."""
    t0 = time.time()
    res = ProofResult()
    ok, msg = ensure_prebuilt(list(ctx.prebuilt))
    if not ok:
        res.ok = False
        res.broken = dict(file="(prebuilt libraries)", line=None, theorem=None, message=msg)
        return res
    for pf in prop_files:
        for (n, _l, k) in theorems_in(os.path.join(COQ, pf)):
            if k in ("Theorem",):
                res.obligations.append(n)
    lock = _lock(ctx.pid)
    try:
        for rel in files + prop_files:
            rc, so, se, cmd = coqc(rel, timeout=timeout)
            res.cmds.append(cmd)
            if rc != 0:
                res.ok = False
                f, ln, thm = locate_error(se, rel)
                if rc == 124:
                    se = "TIMEOUT after %ds\n" % timeout + se
                res.broken = dict(file=f, line=ln, theorem=thm, message=se[-3000:])
                break
            if rel in prop_files:
                res.assumptions.update(parse_assumptions(so, os.path.join(COQ, rel)))
                for (n, _l, k) in theorems_in(os.path.join(COQ, rel)):
                    if k == "Theorem":
                        res.discharged.append(n)
    finally:
        lock.close()
    if res.ok and ctx.tier == "thorough":
        # independent re-check of the property's .vo files and everything they depend on
        for pf in prop_files:
            mod = LOGICAL + "." + pf[:-2].replace("/", ".")
            cmd = ["coqchk", "-o", "-silent", "-Q", COQ, LOGICAL, mod]
            try:
                r = subprocess.run(["timeout", "3000"] + cmd, cwd=COQ, capture_output=True, text=True)
                rc, out = r.returncode, (r.stdout + r.stderr)
            except Exception as e:  # pragma: no cover
                rc, out = 99, repr(e)
            res.cmds.append(" ".join(cmd))
            summary = out[out.find("CONTEXT SUMMARY"):] if "CONTEXT SUMMARY" in out else out[-1500:]
            res.coqchk[pf] = dict(rc=rc, summary=summary[-4000:])
            if rc in (124, 137, -9):
                # the independent re-check ran out of time or memory on this machine (it needs up to 4 GB and minutes even when
                # idle): recorded in the evidence, not a statement about the proofs - coqc's kernel has accepted every file above
                res.coqchk[pf]["note"] = "coqchk did not finish within its limits (rc %s); not counted as a broken obligation" % rc
                continue
            if rc != 0:
                res.ok = False
                res.broken = dict(file=pf, line=None, theorem=None, message="coqchk failed (rc %s):\n%s" % (rc, out[-2000:]))
                break
    res.wall = time.time() - t0
    return res


def run_cases_file(ctx, name, text, timeout=900):
    """Compile one generated correspondence file in .work/<ID>/ and return (rc, stdout, stderr)."""
    p = os.path.join(ctx.work, name + ".v")
    with open(p, "w") as f:
        f.write(text)
    rc, so, se, cmd = coqc(p, timeout=timeout, cwd=ctx.work)
    return rc, so, se, cmd


def run_cases_parallel(ctx, shards, timeout=900, jobs=16):
    """shards: list of (name, text).  Returns list of (name, rc, stdout, stderr)."""
    from concurrent.futures import ThreadPoolExecutor

    def one(s):
        rc, so, se, cmd = run_cases_file(ctx, s[0], s[1], timeout)
        return (s[0], rc, so, se)

    with ThreadPoolExecutor(max_workers=jobs) as ex:
        out = list(ex.map(one, shards))
    if shards:
        ctx.checker_cmds.append("coqc -q -Q %s %s .work/%s/<%d generated case files>" % (COQ, LOGICAL, ctx.pid, len(shards)))
    return out


# ----------------------------------------------------------------------------------------------
# Coq literal helpers


def coq_z(i):
    i = int(i)
    return "(%d)%%Z" % i if i < 0 else "%d%%Z" % i


def coq_nat(i):
    return "%d" % int(i)


def coq_list(items, sep="; "):
    return "[" + sep.join(items) + "]"


def float_to_q(x):
    """Exact rational value of a binary64 as a Coq Q literal (num # den)."""
    from fractions import Fraction

    fr = Fraction(float(x))
    n, d = fr.numerator, fr.denominator
    return "(%s # %d)" % (("(%d)" % n) if n < 0 else str(n), d)


def float_to_R(x):
    """Exact real value of a binary64 as an R expression `IZR m * powerRZ 2 e` (via helper `dy`)."""
    import math

    x = float(x)
    if x == 0.0:
        return "(dy 0 0)"
    m, e = math.frexp(x)
    mi = int(m * (1 << 53))
    ee = e - 53
    while mi % 2 == 0:
        mi //= 2
        ee += 1
    return "(dy (%d) (%d))" % (mi, ee)


# ----------------------------------------------------------------------------------------------
# findings / replays / evidence


def load_findings():
    # VERIF_FINDINGS: development only (lets a property author test a proposed entry privately)
    p = os.environ.get("VERIF_FINDINGS") or os.path.join(VERIF, "known_findings.json")
    if not os.path.exists(p):
        return []
    with open(p) as f:
        return json.load(f)


def save_replay(ctx, obj, tag="fail"):
    os.makedirs(os.path.join(VERIF, "replays"), exist_ok=True)
    s = json.dumps(obj, sort_keys=True, default=str)
    h = hashlib.sha1(s.encode()).hexdigest()[:10]
    p = os.path.join(VERIF, "replays", "%s-%s-%s.json" % (ctx.pid, tag, h))
    with open(p, "w") as f:
        json.dump(obj, f, indent=1, sort_keys=True, default=str)
    return p


class CorrResult:
    def __init__(self):
        self.evaluations = 0
        self.distinct = set()
        self.mismatches = []  # list of case descriptions (dict)
        self.samples = []
        self.rule = ""
        self.traces = 0
        self.boundary = 0
        self.distribution = {}
        self.oracle_failures = []  # replay objects: the direct oracle failed on the implementation
        self.notes = []
        self.error = None  # harness-level failure (fail closed)

    def count(self, key, k=1):
        self.distribution[key] = self.distribution.get(key, 0) + k


# ----------------------------------------------------------------------------------------------
# source fingerprints (DESIGN 2.9): which anchored source files differ from the tree the hand models were written
# against.  A changed fingerprint fails nothing - the behavioural tie decides - but the run then repeats its
# correspondence stage with further seeds, so that rewritten code is compared harder exactly when it matters.

FINGERPRINTS = os.path.join(VERIF, "harness", "fingerprints.json")


def anchor_files(pid):
    files = []
    with open(os.path.join(VERIF, "properties.jsonl")) as f:
        for l in f:
            p = json.loads(l)
            if p["id"] == pid:
                files = list((p.get("anchors") or {}).get("files") or [])
    return files


def source_fingerprint(rel):
    """sha1 of the normalised AST (insensitive to comments and layout) of a file of the working tree"""
    import ast
    path = os.path.join(REPO, rel)
    try:
        with open(path) as f:
            return hashlib.sha1(ast.dump(ast.parse(f.read())).encode()).hexdigest()
    except (OSError, SyntaxError) as e:
        return "unreadable:" + type(e).__name__


def changed_sources(pid, extra=()):
    try:
        with open(FINGERPRINTS) as f:
            known = json.load(f)
    except (OSError, ValueError):
        known = {}
    files = sorted(set(anchor_files(pid)) | set(extra))
    return files, [r for r in files if known.get(r) != source_fingerprint(r)]


def merge_corr(a, b):
    """accumulate a further correspondence round b into a"""
    a.evaluations += b.evaluations
    a.distinct |= set(b.distinct)
    a.mismatches += b.mismatches
    a.oracle_failures += b.oracle_failures
    a.traces += b.traces
    a.boundary += b.boundary
    for k, v in b.distribution.items():
        a.distribution[k] = a.distribution.get(k, 0) + v
    a.notes += [n for n in b.notes if n not in a.notes]
    a.samples = a.samples or b.samples
    a.rule = a.rule or b.rule
    a.error = a.error or b.error
    return a


class Prop:
    pid = "C00"
    title = ""
    prebuilt = []  # Gen-independent files (dependency order) this property needs, e.g. "Base/Hex.v"
    gen_dependent_files = []  # compiled by the check before the property files, in order
    property_files = []
    trusted = []
    partial = []  # names of *_partial theorems with what is missing
    level = "proof"
    extra_sources = []  # further files of /repo (relative paths) whose change should intensify the correspondence

    def generate(self, ctx):
        """S1. Raise GenError to fail closed."""

    def correspond(self, ctx):
        return CorrResult()

    def search(self, ctx, broken_desc, corr):
        """S4. Return a list of replay objects, each a concrete failing input for the implementation."""
        return []

    def signature(self, replay):
        return replay.get("signature", "")

    def replay(self, ctx, obj):
        print("replay not implemented for", self.pid)
        return 0


def run_check(prop, tier, seed):
    setup_env()
    try:  # the library draws PlaneClamp's auxiliary direction from numpy's global generator: make runs repeatable
        import numpy
        numpy.random.seed(seed)
    except Exception:  # noqa: BLE001
        pass
    ctx = Ctx(prop.pid, tier, seed)
    ctx.prebuilt = list(prop.prebuilt)
    findings = [f for f in load_findings() if f["property"] == prop.pid]
    open_sigs = {f["signature"]: f for f in findings if f.get("status") == "open"}
    broken = []  # descriptions of broken obligations / correspondences

    # S1
    gen_err = None
    try:
        prop.generate(ctx)
    except GenError as e:
        gen_err = "generator failed closed: %s" % e
    except Exception as e:
        gen_err = "generator raised %s: %s\n%s" % (type(e).__name__, e, traceback.format_exc()[-1500:])
    if gen_err:
        ctx.log("S1 BROKEN:", gen_err)
        broken.append(dict(kind="generator", what=gen_err))

    # S2
    proof = ProofResult()
    if not gen_err:
        proof = build_obligations(ctx, list(prop.gen_dependent_files), list(prop.property_files))
        if not proof.ok:
            b = proof.broken
            ctx.log("S2 BROKEN: %s line %s theorem %s\n%s" % (b["file"], b["line"], b["theorem"], b["message"]))
            broken.append(dict(kind="proof", file=b["file"], line=b["line"], theorem=b["theorem"],
                               message=b["message"][-1200:]))
        else:
            ctx.log("S2 ok: %d/%d obligations discharged in %.1fs" % (len(proof.discharged), len(proof.obligations), proof.wall))
    else:
        for pf in prop.property_files:
            proof.obligations += [n for (n, _l, k) in theorems_in(os.path.join(COQ, pf)) if k == "Theorem"]
        proof.ok = False

    # S3 (repeated with further seeds when anchored sources differ from the fingerprinted tree)
    fp_files, fp_changed = changed_sources(prop.pid, prop.extra_sources)
    rounds = 3 if fp_changed else 1
    if fp_changed:
        ctx.log("source fingerprints changed (%s): %d correspondence rounds" % (", ".join(fp_changed), rounds))
    corr = None
    for rnd in range(rounds):
        if rnd:
            ctx.rng = random.Random((seed + 7919 * rnd) * 1000003 + int(hashlib.sha1(prop.pid.encode()).hexdigest()[:6], 16))
        try:
            c = prop.correspond(ctx)
        except Exception as e:
            c = CorrResult()
            c.error = "correspondence harness raised %s: %s\n%s" % (type(e).__name__, e, traceback.format_exc()[-2500:])
        corr = c if corr is None else merge_corr(corr, c)
        if corr.error:
            break
    if corr.error:
        ctx.log("S3 BROKEN:", corr.error)
        broken.append(dict(kind="correspondence-harness", what=corr.error[-1500:]))
    if corr.mismatches:
        ctx.log("S3 BROKEN: %d correspondence mismatches, first: %s" % (len(corr.mismatches), json.dumps(corr.mismatches[0], default=str)[:600]))
        broken.append(dict(kind="correspondence", n=len(corr.mismatches), first=corr.mismatches[:3]))
    if not corr.error and not corr.mismatches:
        ctx.log("S3 ok: %d evaluations, %d distinct non-trivial" % (corr.evaluations, len(corr.distinct)))

    # S4
    fails = list(corr.oracle_failures)
    if broken:
        try:
            fails += prop.search(ctx, broken, corr)
        except Exception as e:
            ctx.log("S4 search raised %s: %s" % (type(e).__name__, e))
            ctx.log(traceback.format_exc()[-1500:])

    # S5
    viol_lines = []
    known_lines = []
    seen = set()
    for rp in fails:
        sig = prop.signature(rp)
        rp["signature"] = sig
        rp.setdefault("property", prop.pid)
        if sig in open_sigs:
            if sig not in seen:
                known_lines.append("KNOWN-FINDING: property=%s %s" % (prop.pid, open_sigs[sig]["what"]))
                seen.add(sig)
            continue
        key = sig or json.dumps(rp, sort_keys=True, default=str)[:300]
        if key in seen:
            continue
        seen.add(key)
        rp["broken_obligations"] = broken
        path = save_replay(ctx, rp)
        viol_lines.append("VIOLATION property=%s replay=%s" % (prop.pid, path))
    # broken obligations that no concrete input explains
    unexplained = broken and not viol_lines
    if unexplained:
        # if every broken item is explained by known findings only, still an unexplained break remains
        rp = dict(property=prop.pid, kind="no-failing-input-found", broken_obligations=broken,
                  note="a proof obligation or the correspondence no longer checks; the search found no failing input")
        path = save_replay(ctx, rp, tag="broken")
        viol_lines.append("VIOLATION property=%s replay=%s no-failing-input-found" % (prop.pid, path))

    wall = time.time() - ctx.t0
    trusted = TRUSTED_COMMON + list(prop.trusted)
    axioms = sorted({a for v in proof.assumptions.values() for a in v if a not in ("closed",)})
    trusted.append("axioms reported by Print Assumptions for this property's theorems: " + (", ".join(axioms) if axioms else "none (closed under the global context)"))
    ev = dict(
        property_id=prop.pid,
        tier=tier,
        seed=seed,
        level=prop.level,
        coverage=dict(
            obligations=max(1, len(proof.obligations)),
            discharged=len(proof.discharged),
            obligation_names=proof.obligations,
            checker_cmd="; ".join(dict.fromkeys(proof.cmds + ctx.checker_cmds)) or "coqc (not reached)",
            trusted_base=trusted,
            print_assumptions=proof.assumptions,
            coqchk=proof.coqchk,
            evaluations=corr.evaluations,
            distinct_nontrivial=len(corr.distinct),
            rule=corr.rule,
            samples=corr.samples[:6],
            traces_validated_against_impl=corr.traces,
            boundary_cases=corr.boundary,
            input_distribution=corr.distribution,
            correspondence_mismatches=len(corr.mismatches),
            partial=list(prop.partial),
            broken_obligations=broken,
            known_findings_reported=known_lines,
            notes=corr.notes,
            source_fingerprints=dict(files=fp_files, changed=fp_changed, correspondence_rounds=rounds),
        ),
        assumptions=trusted,
        wall_s=round(wall, 2),
        violations=len(viol_lines),
    )
    # development runs against a scratch worktree (VERIF_REPO) never touch the committed evidence
    evdir = os.path.join(WORK, "dev_evidence") if os.environ.get("VERIF_REPO") else os.path.join(VERIF, "evidence")
    os.makedirs(evdir, exist_ok=True)
    with open(os.path.join(evdir, prop.pid + ".json"), "w") as f:
        json.dump(ev, f, indent=1, default=str)
    for l in known_lines:
        print(l)
    for l in viol_lines:
        print(l)
    print("%s %s: obligations %d/%d, correspondence %d evals (%d mismatches), %d violation(s), %.1fs" % (
        prop.pid, tier, len(proof.discharged), len(proof.obligations), corr.evaluations, len(corr.mismatches), len(viol_lines), wall))
    return 1 if viol_lines else 0
