"""C03 - Cell count and expansion ratio obey the geometric-progression law.

Tie (F): the relation table (output, input_1, input_2) in the iteration order of
ChopRelation.get_possible_combinations() and constants.TOL are tabulated into coq/Gen/C03/RelTable.v on every
run; Properties/C03.v proves against it that the closure loop of Chop.calculate IS one of ten three-step plans.
Tie (N): every relation (12) and every plan (10 pairs), Chop.invert and Grading.inverted are run on generated
inputs (six decades of length, counts 1..200, ratios in [0.5, 2] incl. 1 +- k*1e-8, sizes that make the real
solution an exact integer); the outputs are turned into exact dyadic literals and the model of
Model/C03_Relations.v is evaluated on the same inputs INSIDE Coq, one goal per relation call, closed by the
`interval` tactic (closed forms: 1e-9 relative; integer counts: exactly, unless the real solution is within the
conditioning of binary64 of an integer - boundary rule of DESIGN 2.4; brentq outputs: residual of the defining
equation <= 1e-6).
Tie (N, source): harness/props/C03_translate.py translates relations.py of the working tree (python ast -> Gallina,
fail closed: any syntax node outside its fragment is a GenError) into coq/Gen/C03/Source.v on every run, and
Proofs/C03_SourceEq.v - compiled on every run - proves that every translated function equals the model's function for
ALL arguments (the rejected ones included).  The sampled correspondence above therefore no longer validates the hand
model against the code (that is a theorem now); it validates the translator's reading of python/numpy float semantics.
Tie (N, source, chop.py): harness/props/C03_translate_chop.py translates the bodies of Chop.__post_init__, Chop.invert and
Chop.copy_preserving (state passing over the record of the seven dataclass fields, fail closed) into
coq/Gen/C03/ChopSource.v on every run; Proofs/C03_ChopSourceEq.v - compiled on every run - proves them equal, for all
field values, to the record functions of Model/C03_Chop.v, and those to post_init / invert of Model/C03_Relations.v.
Direct oracle (independent of Coq): from (count, total_expansion) rebuild blockMesh's progression and test the
law of the property statement; also used as the search engine.
"""
import hashlib
import json
import math
import warnings
from decimal import Decimal, getcontext

import core
from core import GenError, CorrResult, Prop
from props import C03_translate
from props import C03_translate_chop

getcontext().prec = 60

FIELDS = ["count", "total_expansion", "c2c_expansion", "start_size", "end_size"]
COQF = {"count": "FCount", "total_expansion": "FTotal", "c2c_expansion": "FC2c", "start_size": "FStart",
        "end_size": "FEnd"}
SHORT = {"count": "n", "total_expansion": "E", "c2c_expansion": "r", "start_size": "s", "end_size": "e"}

TEN_PAIRS = [("count", "c2c_expansion"), ("count", "total_expansion"), ("count", "start_size"),
             ("count", "end_size"), ("start_size", "c2c_expansion"), ("end_size", "c2c_expansion"),
             ("total_expansion", "c2c_expansion"), ("total_expansion", "start_size"),
             ("total_expansion", "end_size"), ("start_size", "end_size")]

TWELVE = [("c2c_expansion", "count", "end_size"), ("c2c_expansion", "count", "start_size"),
          ("c2c_expansion", "count", "total_expansion"), ("count", "end_size", "c2c_expansion"),
          ("count", "start_size", "c2c_expansion"), ("count", "total_expansion", "c2c_expansion"),
          ("count", "total_expansion", "start_size"), ("end_size", "start_size", "total_expansion"),
          ("start_size", "count", "c2c_expansion"), ("start_size", "end_size", "total_expansion"),
          ("total_expansion", "count", "c2c_expansion"), ("total_expansion", "start_size", "end_size")]

TOL_CLOSED = 1e-9   # closed-form float arithmetic (DESIGN 2.4)
TOL_ROOT = 1e-6     # downstream of brentq
ORACLE_CLOSED = 1e-8
ORACLE_ROOT = 1e-6


# ------------------------------------------------------------------------------------------------
# the implementation


def _mods():
    from classy_blocks.grading import relations as rel
    from classy_blocks.grading.chop import Chop, ChopRelation
    from classy_blocks.grading.grading import Grading
    from classy_blocks.util import constants
    return rel, Chop, ChopRelation, Grading, constants


def impl_table():
    _rel, _Chop, ChopRelation, _G, constants = _mods()
    combos = ChopRelation.get_possible_combinations()
    out = []
    for c in combos:
        t = (c.output, c.input_1, c.input_2)
        for f in t:
            if f not in COQF:
                raise GenError("relation %r mentions an unknown quantity %r" % (t, f))
        if not callable(c.function):
            raise GenError("relation %r has no callable" % (t,))
        out.append(t)
    tol = float(constants.TOL)
    if not (0 < tol < 1e-3):
        raise GenError("constants.TOL = %r is not a small positive number" % (tol,))
    return out, tol


def impl_functions():
    _rel, _Chop, ChopRelation, _G, _c = _mods()
    return {(c.output, c.input_1, c.input_2): c.function for c in ChopRelation.get_possible_combinations()}


def call_relation(fn, L, a, b):
    """-> ('ok', value) | ('err', exception class name)"""
    with warnings.catch_warnings():
        warnings.simplefilter("ignore")
        try:
            v = fn(L, a, b)
        except Exception as e:  # any exception class is "rejected"
            return ("err", type(e).__name__)
    return ("ok", v)


def run_chop(L, kw, length_ratio=1.0, via_grading=True):
    """-> dict(status, n, E, results) ; the observation points of the property: the return value of
    Chop.calculate(length) and Grading.specification after add_chop."""
    _rel, Chop, _CR, Grading, _c = _mods()
    with warnings.catch_warnings():
        warnings.simplefilter("ignore")
        try:
            chop = Chop(length_ratio=length_ratio, **kw)
            # half of the chops (chosen by the input, so that replays agree) have been calculated before, on ANOTHER length:
            # what calculate(L) returns is a function of the chop's parameters and of L
            if int(hashlib.sha1(json.dumps([L, kw, length_ratio], sort_keys=True, default=str).encode()).hexdigest()[:4], 16) % 2 == 1:
                for other in (2.75 * L * length_ratio, 0.4 * L * length_ratio):
                    try:
                        chop.calculate(other)
                    except Exception:  # noqa: BLE001
                        pass
            if via_grading:
                g = Grading(L)
                g.add_chop(chop)
                if len(g.specification) != 1 or len(g.specification[0]) != 3:
                    raise GenError("Grading.specification has an unexpected shape: %r" % (g.specification,))
                lr, n, E = g.specification[0]
                if lr != length_ratio:
                    return dict(status="ok", n=n, E=E, results=dict(chop.results), bad="length ratio changed")
            else:
                n, E = chop.calculate(L * length_ratio)
            res0 = dict(chop.results)
            # a copy made by copy_preserving() is a chop of its own: reversing IT leaves the chop it was made from alone
            try:
                cp = chop.copy_preserving(False)
                cp.invert()
                n2, E2 = chop.calculate(L * length_ratio)
            except Exception as e:  # noqa: BLE001
                return dict(status="ok", n=n, E=E, results=res0, bad="copy_preserving().invert() raised %s: %s" % (type(e).__name__, str(e)[:100]))
            if n2 != n or E2 != E:
                return dict(status="ok", n=n, E=E, results=res0,
                            bad="after reversing a copy made by copy_preserving() the chop itself returns (%r, %r) instead of (%r, %r)" % (n2, E2, n, E))
            return dict(status="ok", n=n, E=E, results=res0)
        except GenError:
            raise
        except Exception as e:
            return dict(status="err", err=type(e).__name__, msg=str(e)[:200])


def run_inverted(L, kw):
    """Chop(**kw).invert() then calculate -> (fields after invert, outcome)"""
    _rel, Chop, _CR, _G, _c = _mods()
    with warnings.catch_warnings():
        warnings.simplefilter("ignore")
        try:
            chop = Chop(**kw)
            # half of the chops (chosen by the input, so that replays agree) have already been calculated on this very
            # length before they are reversed: what a chop returns depends on its fields as they are now
            if int(hashlib.sha1(json.dumps([L, kw], sort_keys=True, default=str).encode()).hexdigest()[:4], 16) % 2 == 0:
                try:
                    chop.calculate(L)
                except Exception:  # noqa: BLE001
                    pass
            chop.invert()
            fields = {f: getattr(chop, f) for f in FIELDS}
        except Exception as e:
            return None, dict(status="err", err=type(e).__name__, msg="invert: " + str(e)[:200])
        try:
            n, E = chop.calculate(L)
            return fields, dict(status="ok", n=n, E=E, results=dict(chop.results))
        except Exception as e:
            return fields, dict(status="err", err=type(e).__name__, msg=str(e)[:200])


# ------------------------------------------------------------------------------------------------
# float helpers (harness side: generators, hints, the direct oracle)


def gs(r, n):
    """sum_{i<n} r^i, stable near r = 1"""
    if n <= 0:
        return 0.0
    d = r - 1.0
    if d == 0.0:
        return float(n)
    return math.expm1(n * math.log1p(d)) / d


def realise(L, n, E):
    """blockMesh's progression: (cell-to-cell ratio, first cell, last cell)"""
    r = 1.0 if n <= 1 else E ** (1.0 / (n - 1))
    first = L / gs(r, n)
    last = first * (r ** (n - 1))
    return r, first, last


def G_real(x, E):
    """(1 - E^(x/(x-1))) / (1 - E^(1/(x-1))), the real-exponent cell sum; x != 1, E != 1"""
    return (1 - E ** (x / (x - 1))) / (1 - E ** (1 / (x - 1)))


def root_G(E, target):
    """own bisection for G(x, E) = target, x > 1 (target > 1) - an untrusted hint, checked by Coq"""
    if not (target > 1) or E <= 0 or E == 1:
        return None
    lo, hi = 1.0 + 1e-9, 2.0
    try:
        while G_real(hi, E) < target:
            hi *= 2
            if hi > 1e9:
                return None
        for _ in range(200):
            mid = 0.5 * (lo + hi)
            if G_real(mid, E) < target:
                lo = mid
            else:
                hi = mid
            if hi - lo <= 1e-15 * hi:
                break
    except (OverflowError, ZeroDivisionError, ValueError):
        return None
    return 0.5 * (lo + hi)


def D(x):
    return Decimal(float(x)) if not isinstance(x, int) else Decimal(x)


def ref_x(key, L, a, b, tol):
    """exact-arithmetic value (Decimal, 60 digits) of the real number the count relations round, or None"""
    try:
        L_, a_, b_ = D(L), D(a), D(b)
        one = Decimal(1)
        if key == ("count", "start_size", "c2c_expansion"):
            s, r = a_, b_
            if abs(r - one) > D(tol):
                arg = one - L_ / s * (one - r)
                if arg <= 0 or r <= 0:
                    return None
                return arg.ln() / r.ln()
            return L_ / s
        if key == ("count", "end_size", "c2c_expansion"):
            e, r = a_, b_
            if abs(r - one) > D(tol):
                arg = one / (one + L_ / e * (one - r) / r)
                if arg <= 0 or r <= 0:
                    return None
                return arg.ln() / r.ln()
            return L_ / e
        if key == ("count", "total_expansion", "c2c_expansion"):
            E, r = a_, b_
            if E <= 0 or r <= 0 or r == 1:
                return None
            return E.ln() / r.ln()
    except Exception:
        return None
    return None


def eps_x(key, L, a, b, x):
    """how far from an integer the real solution must be for binary64 to round it reliably (boundary rule)"""
    x = abs(float(x))
    cond = 1.0
    try:
        if key[2] == "c2c_expansion" and key[1] in ("start_size", "end_size"):
            d = abs(b - 1.0)
            if d > 0:
                cond = max(1.0, 4e-7 / min(1.0, (L / a) * d))
        if key == ("count", "total_expansion", "c2c_expansion"):
            d = abs(math.log(b))
            if d > 0:
                cond = max(1.0, 4e-7 / min(1.0, d))
    except Exception:
        pass
    return 1e-9 * max(1.0, x) * cond


# ------------------------------------------------------------------------------------------------
# Coq text


def R(x):
    return core.float_to_R(x)


def Z(n):
    return core.coq_z(n)


def is_int(v):
    return isinstance(v, int) and not isinstance(v, bool)


def is_real(v):
    try:
        import numpy as np
        if isinstance(v, (np.floating, np.integer)):
            v = v.item()
    except Exception:
        pass
    return isinstance(v, (int, float)) and not isinstance(v, bool) and math.isfinite(v)


class Goals:
    """collects numbered goals; every goal prints OK <k> or MISMATCH <k>"""

    def __init__(self):
        self.items = []  # (id, text)
        self.info = {}  # id -> description dict

    def add(self, stmt, tac, info):
        k = len(self.items)
        txt = "Goal %s.\nProof. first [ %s; idtac \"OK %d\" | idtac \"MISMATCH %d\" ]. Abort.\n" % (stmt, tac, k, k)
        self.items.append((k, txt))
        self.info[k] = info
        return k


HEADER = """From Coq Require Import Reals ZArith List Bool Lra Lia.
From Flocq Require Import Core.Raux.
From Interval Require Import Tactic.
From CB Require Import Base.Vec3 Model.C03_Relations Proofs.C03_GeomSeries Proofs.C03_Relations Proofs.C03_Corr.
From CB Require Import Gen.C03.RelTable.
Import ListNotations.
Open Scope R_scope.
Set Warnings "-all".
"""


def relation_goals(goals, key, L, a, b, out, tol_tau, info, res=None):
    """Emit the goals that tie ONE relation call of the implementation to the model.  `out` as call_relation.
    Returns True when the case fell under the boundary rule."""
    boundary = False
    Ls = R(L)

    def add(stmt, tac, what):
        d = dict(info)
        d["goal"] = what
        goals.add(stmt, tac, d)

    real_models = {
        ("start_size", "count", "c2c_expansion"): lambda: "start_count_c2c TOL %s %s %s" % (Ls, Z(a), R(b)),
        ("start_size", "end_size", "total_expansion"): lambda: "start_end_total %s %s %s" % (Ls, R(a), R(b)),
        ("end_size", "start_size", "total_expansion"): lambda: "end_start_total %s %s %s" % (Ls, R(a), R(b)),
        ("c2c_expansion", "count", "total_expansion"): lambda: "c2c_count_total %s %s %s" % (Ls, Z(a), R(b)),
        ("total_expansion", "count", "c2c_expansion"): lambda: "total_count_c2c %s %s %s" % (Ls, Z(a), R(b)),
        ("total_expansion", "start_size", "end_size"): lambda: "total_start_end %s %s %s" % (Ls, R(a), R(b)),
    }
    count_models = {
        ("count", "start_size", "c2c_expansion"): ("count_start_c2c", "x_start_c2c"),
        ("count", "end_size", "c2c_expansion"): ("count_end_c2c", "x_end_c2c"),
        ("count", "total_expansion", "c2c_expansion"): ("count_total_c2c", "x_total_c2c"),
    }
    int_first = key[1] == "count"
    if int_first and not is_int(a):
        raise GenError("count handed to %r is not an int: %r" % (key, a))

    if key in real_models:
        m = real_models[key]()
        if out[0] == "err":
            add("%s = None" % m, "c_none", "model rejects too")
        else:
            v = out[1]
            if not is_real(v):
                add("False", "fail", "implementation returned a non-finite / non-real value %r" % (v,))
            else:
                v = float(v)
                tol = TOL_CLOSED
                if key == ("start_size", "count", "c2c_expansion") and b != 1.0:
                    # 1 - r^n loses digits next to the band |r-1| <= TOL: conditioning of binary64, not a defect
                    tol *= 1 + min(100.0, 2e-7 / abs(b - 1.0))
                add("agreesR (%s) %s %s" % (m, R(v), R(tol * abs(v))), "c_real", "closed form within 1e-9")
        return boundary

    if key in count_models:
        cm, xm = count_models[key]
        if out[0] == "err":
            add("%s TOL %s %s %s = None" % (cm, Ls, R(a), R(b)), "c_none", "model rejects too")
            return boundary
        n = out[1]
        if not is_int(n):
            add("False", "fail", "count is not an int: %r" % (n,))
            return boundary
        x = ref_x(key, L, a, b, tol_tau)
        exact = True
        if x is not None and x >= 0:
            n_model = int(x) + 1
            near = abs(x - x.to_integral_value())
            if n_model != n or near < Decimal("1e-22") * max(Decimal(1), x):
                # (an exactly integral real solution cannot be decided by interval arithmetic either)
                eps = eps_x(key, L, a, b, x)
                if abs(float(x - Decimal(int(round(float(x)))))) <= eps and abs(n - 1 - round(float(x))) <= 1:
                    exact = False
                    boundary = True
                    add("int_plus1_is (%s TOL %s %s %s) %s %s" % (xm, Ls, R(a), R(b), Z(n), R(eps)), "c_count_bnd",
                        "count = int(x)+1 up to the boundary rule (x within %.1e of an integer)" % eps)
        if exact:
            if x is not None and x < 0:
                # int() truncates towards zero: model pyint = Ztrunc; no interval proof scheme for x < 0: compare directly
                add("%s TOL %s %s %s = Some %s" % (cm, Ls, R(a), R(b), Z(n)), "c_count", "count = int(x)+1 (x<0)")
            else:
                add("%s TOL %s %s %s = Some %s" % (cm, Ls, R(a), R(b), Z(n)), "c_count", "count = int(x)+1 exactly")
        return boundary

    if key == ("count", "total_expansion", "start_size"):
        E, s = a, b
        if out[0] == "err":
            add("count_total_start TOL onone %s %s %s = None" % (Ls, R(E), R(s)), "c_none",
                "model rejects too (or scipy raised)")
            return boundary
        n = out[1]
        if not is_int(n):
            add("False", "fail", "count is not an int: %r" % (n,))
            return boundary
        if abs(E - 1) < tol_tau:
            dmin = s if E > 1 else s * E
            x = D(L) / (D(s) if E > 1 else D(s) * D(E))
            n_model = int(x.to_integral_value(rounding="ROUND_CEILING"))
            near = abs(x - x.to_integral_value())
            if (n_model != n or (near != 0 and near < Decimal("1e-22") * max(Decimal(1), x))) and \
                    abs(float(x) - round(float(x))) <= 1e-9 * max(1.0, float(x)):
                boundary = True
                add("ceil_is (%s / d_min %s %s) %s %s" % (Ls, R(E), R(s), Z(n), R(1e-9 * max(1.0, float(x)))),
                    "c_ceil_bnd", "uniform branch: count = ceil(L/d_min) up to the boundary rule")
            else:
                add("count_total_start TOL onone %s %s %s = Some %s" % (Ls, R(E), R(s), Z(n)), "c_ceil",
                    "uniform branch: count = ceil(L/d_min), L/d_min = %.17g" % (L / dmin))
            return boundary
        # root branch: hint = own root of G(x, E) = L/s; Coq checks the residual and the rounding
        target = L / s
        x = root_G(E, target)
        if x is None:
            # L/s <= 1: every root lies in (0,1) and the count is 1 (Galt_lt_1); compare by the bracket G(2) = 1 + E
            if target <= 1 and n == 1:
                add("%s / %s <= 1" % (Ls, R(s)), "itvp", "single cell: L <= start_size")
            else:
                add("False", "fail", "no real solution found for G(x,E)=L/s although the implementation returned %r" % (n,))
            return boundary
        eps = 1e-9 * max(1.0, x)
        n_model = int(x) + 1
        add("Rabs (Gcode %s %s - %s / %s) <= %s * (%s / %s)" % (R(x), R(E), Ls, R(s), R(TOL_CLOSED * 100), Ls, R(s)),
            "c_resid", "hint x solves the defining equation G(x,E) = L/s")
        if n_model != n and abs(x - round(x)) <= eps:
            boundary = True
            add("int_plus1_is (Some %s) %s %s" % (R(x), Z(n), R(eps)), "c_count_bnd",
                "count = int(root)+1 up to the boundary rule")
        else:
            add("count_total_start TOL (orc %s) %s %s %s = Some %s" % (R(x), Ls, R(E), R(s), Z(n)), "c_count",
                "count = int(root)+1 exactly, root = %.17g" % x)
        return boundary

    if key in (("c2c_expansion", "count", "start_size"), ("c2c_expansion", "count", "end_size")):
        n, sz = a, b
        fn = "c2c_count_start" if key[2] == "start_size" else "c2c_count_end"
        if out[0] == "err":
            add("%s TOL onone %s %s %s = None" % (fn, Ls, Z(n), R(sz)), "c_none", "model rejects too (or no sign change)")
            return boundary
        v = out[1]
        if not is_real(v):
            add("False", "fail", "ratio is not a finite real: %r" % (v,))
            return boundary
        v = float(v)
        add("agreesR (%s TOL (orc %s) %s %s %s) %s %s" % (fn, R(v), Ls, Z(n), R(sz), R(v), R(1e-12)), "c_real",
            "validation / shortcut structure")
        shortcut = (n == 1 and key[2] == "start_size") or abs(n * sz - L) / L < tol_tau
        if not shortcut and n >= 1:
            if v == 1.0:
                add("False", "fail", "ratio 1 returned outside the shortcut")
            elif key[2] == "start_size":
                add("0 < %s /\\ Rabs (%s * gsum %s (Z.to_nat %s) - %s) <= %s * %s" % (R(v), R(sz), R(v), Z(n), Ls, R(TOL_ROOT), Ls),
                    "split; [itvp | c_resid]", "brentq root solves s*gsum r n = L")
            else:
                add("0 < %s /\\ Rabs (%s * gsum %s (Z.to_nat %s) - %s * powerRZ %s %s) <= %s * (%s * powerRZ %s %s)" % (
                    R(v), R(sz), R(v), Z(n), Ls, R(v), Z(n - 1), R(TOL_ROOT), Ls, R(v), Z(n - 1)),
                    "split; [itvp | c_resid]", "brentq root solves e*gsum r n = L*r^(n-1)")
        return boundary

    raise GenError("no model for relation %r" % (key,))


def plan_for(table, given):
    """the symbolic closure of Chop.calculate over the tabulated table (Coq re-derives it with plan_of)"""
    known = set(given)
    fired = []
    for _ in range(12):
        if set(FIELDS) <= known:
            return fired
        for t in table:
            o, i1, i2 = t
            if o in known:
                continue
            if i1 in known and i2 in known:
                known.add(o)
                fired.append(t)
    return None


def coq_rel(t):
    return "(%s, %s, %s)" % (COQF[t[0]], COQF[t[1]], COQF[t[2]])


def coq_data(fields):
    def o(f):
        v = fields.get(f)
        if v is None:
            return "None"
        return "(Some %s)" % (Z(v) if f == "count" else R(v))
    return "(mk_data %s %s %s %s %s)" % tuple(o(f) for f in FIELDS)


# ------------------------------------------------------------------------------------------------
# generators


def draw_L(rng):
    k = rng.random()
    if k < 0.2:
        return float(rng.choice([1.0, 1.05, 0.001, 1000.0, 2.5, 0.3, 37.0]))
    return 10 ** rng.uniform(-3, 3)


def draw_n(rng, lo=1):
    k = rng.random()
    if k < 0.6:
        return max(lo, rng.choice([1, 2, 2, 3, 4, 5, 7, 10, 10, 20, 50, 100, 200]))
    return rng.randint(lo, 200)


BAND_K = [-100, -20, -11, -10, -9, -5, -1, 0, 0, 0, 1, 5, 9, 10, 11, 20, 100]


def draw_r(rng, n, band=0.3):
    """ratio in [0.5, 2] with total expansion kept within [1e-4, 1e4]; `band`: share of 1 + k*1e-8"""
    if rng.random() < band:
        return 1.0 + rng.choice(BAND_K) * 1e-8
    m = min(math.log(2.0), math.log(1e4) / max(1, n - 1))
    return math.exp(rng.uniform(-1, 1) * m)


def draw_frac(rng):
    """fractional part of the real solution: exact-integer neighbourhoods are targeted"""
    k = rng.random()
    if k < 0.2:
        return 0.0
    if k < 0.3:
        return rng.choice([1e-13, 1e-11, 3e-10])
    if k < 0.4:
        return 1.0 - rng.choice([1e-13, 1e-11, 3e-10])
    return rng.uniform(0.02, 0.98)


def size_from_x_start(L, r, x):
    if r == 1.0:
        return L / x
    return L * (1 - r) / (1 - r ** x)


def size_from_x_end(L, r, x):
    if r == 1.0:
        return L / x
    return L * (1 - r) / (r * (r ** (-x) - 1))


def gen_relation_inputs(rng, key, tau):
    """one in-domain input (L, a, b, tag) for a relation"""
    L = draw_L(rng)
    n = draw_n(rng)
    if key == ("start_size", "count", "c2c_expansion"):
        return L, n, draw_r(rng, n), "in"
    if key == ("total_expansion", "count", "c2c_expansion"):
        return L, n, draw_r(rng, n), "in"
    if key == ("c2c_expansion", "count", "total_expansion"):
        n = max(n, 2)
        r = draw_r(rng, n)
        return L, n, r ** (n - 1) if rng.random() < 0.7 else rng.choice([1.0, 2.0, 0.5, 10.0, 1 + 1e-8]), "in"
    if key == ("start_size", "end_size", "total_expansion"):
        r = draw_r(rng, n)
        return L, L / n * rng.uniform(0.5, 1.5), r ** (n - 1), "in"
    if key == ("end_size", "start_size", "total_expansion"):
        r = draw_r(rng, n)
        return L, L / n * rng.uniform(0.5, 1.5), r ** (n - 1), "in"
    if key == ("total_expansion", "start_size", "end_size"):
        s = L * 10 ** rng.uniform(-4, 0)
        return L, s, s * rng.choice([1.0, 1.0 + 1e-8, rng.uniform(0.5, 2), 10 ** rng.uniform(-2, 2)]), "in"
    if key in (("count", "start_size", "c2c_expansion"), ("count", "end_size", "c2c_expansion")):
        r = draw_r(rng, n)
        x = max(0.3, n - 1 + draw_frac(rng))
        inband = abs(r - 1) <= tau
        rr = 1.0 if inband else r
        sz = size_from_x_start(L, rr, x) if key[1] == "start_size" else size_from_x_end(L, rr, x)
        return L, sz, r, "in"
    if key == ("count", "total_expansion", "c2c_expansion"):
        r = draw_r(rng, n, band=0.0)
        if abs(r - 1) <= tau * 1.5:
            r = 1.1
        if rng.random() < 0.1:
            return L, 1.0, r, "in"  # E = 1: a single cell
        x = max(0.0, n - 1 + draw_frac(rng))
        return L, r ** x, r, "in"
    if key == ("count", "total_expansion", "start_size"):
        if rng.random() < 0.35:
            E = 1.0 + rng.choice([-9, -5, -1, 0, 0, 0, 0, 1, 5, 9]) * 1e-8  # the near-uniform branch
            x = max(0.3, n - 1 + draw_frac(rng))
            dmin = L / x
            s = dmin if E > 1 else dmin / E
            return L, E, s, "in"
        n = max(n, 2)
        r = draw_r(rng, n, band=0.0)
        E = r ** (n - 1)
        if abs(E - 1) < 3e-7:
            E = rng.choice([1.0 + 2e-7, 1.0 - 2e-7, 1.5])
        x = n - 1 + draw_frac(rng)
        if x <= 1.05:
            x = 1.5
        s = L / G_real(x, E)
        return L, E, s, "in"
    if key in (("c2c_expansion", "count", "start_size"), ("c2c_expansion", "count", "end_size")):
        k = rng.random()
        if k < 0.3:
            d = rng.choice([0.0, 5e-8, -5e-8, 0.9e-7, -0.9e-7, 1.1e-7, -1.1e-7, 2e-7, -2e-7, 1e-6, -1e-6,
                            1e-4, -1e-4, 3e-3, -3e-3])
            return L, n, L / n * (1 + d), "in"
        n = max(n, 2)
        r = draw_r(rng, n, band=0.0)
        if abs(r ** (n - 1) - 1) < 3e-7:
            r = 1.05
        s = L / gs(r, n)
        return L, n, (s if key[2] == "start_size" else s * r ** (n - 1)), "in"
    raise GenError("no generator for %r" % (key,))


def gen_malformed(rng, key):
    """inputs outside the stated domains on which the model's verdict does not depend on float noise"""
    L, a, b, _t = gen_relation_inputs(rng, key, 1e-7)
    k = rng.random()
    names = key[1:]
    if k < 0.3:
        return rng.choice([0.0, -1.0, -L]), a, b, "L<=0"
    if "count" in names and k < 0.6:
        return L, rng.choice([0, -1, -5]), b, "count<1"
    if k < 0.8:
        if key == ("count", "start_size", "c2c_expansion"):
            return L, rng.choice([0.0, -a]), b, "size<=0"
        if key == ("count", "total_expansion", "start_size"):
            return L, a, rng.choice([0.0, -b]), "size<=0"
        if key == ("c2c_expansion", "count", "start_size"):
            return L, max(a, 2), rng.choice([0.0, -b, L, 2 * L]), "size outside (0,L)"
        if key == ("c2c_expansion", "count", "end_size"):
            return L, max(a, 2), rng.choice([0.0, -b]), "size<=0"
        if key == ("total_expansion", "start_size", "end_size"):
            return (L, rng.choice([0.0, -a]), b, "size<=0") if rng.random() < 0.5 else (L, a, rng.choice([0.0, -b]), "size<=0")
    if key == ("count", "start_size", "c2c_expansion"):
        r = rng.uniform(0.5, 0.95)
        return L, L * (1 - r) * rng.uniform(0.2, 0.95), r, "s/(1-r)<=L"  # the series never reaches L
    if key == ("count", "end_size", "c2c_expansion"):
        r = rng.uniform(1.05, 2.0)
        return L, L * (r - 1) / r * rng.uniform(0.2, 0.95), r, "e r/(r-1)<=L"
    if key == ("count", "total_expansion", "c2c_expansion"):
        return L, a, 1.0 + rng.choice([0, 1, -1, 5, -9]) * 1e-8, "c2c=1"
    if key == ("c2c_expansion", "count", "total_expansion"):
        return L, 1, b, "count<=1"
    if key in (("start_size", "end_size", "total_expansion"), ("count", "total_expansion", "start_size")):
        return (L, a, 0.0, "E=0") if key[0] == "start_size" else (L, 0.0, b, "E=0")
    return -L, a, b, "L<=0"


def gen_pair_inputs(rng, pair, tau):
    """chop keyword arguments for one of the ten pairs, drawn through the generator of the relation that the
    pair fires first (so that band and integer neighbourhoods are hit)"""
    f, g = pair
    first = {
        ("count", "c2c_expansion"): ("start_size", "count", "c2c_expansion"),
        ("count", "total_expansion"): ("c2c_expansion", "count", "total_expansion"),
        ("count", "start_size"): ("c2c_expansion", "count", "start_size"),
        ("count", "end_size"): ("c2c_expansion", "count", "end_size"),
        ("start_size", "c2c_expansion"): ("count", "start_size", "c2c_expansion"),
        ("end_size", "c2c_expansion"): ("count", "end_size", "c2c_expansion"),
        ("total_expansion", "c2c_expansion"): ("count", "total_expansion", "c2c_expansion"),
        ("total_expansion", "start_size"): ("count", "total_expansion", "start_size"),
    }
    if pair in first:
        key = first[pair]
        L, a, b, _t = gen_relation_inputs(rng, key, tau)
        return L, {key[1]: a, key[2]: b}
    L, E, s, _t = gen_relation_inputs(rng, ("count", "total_expansion", "start_size"), tau)
    if pair == ("total_expansion", "end_size"):
        return L, {"total_expansion": E, "end_size": s * E}
    return L, {"start_size": s, "end_size": s * E}


# ------------------------------------------------------------------------------------------------
# the direct oracle: the law of the property statement on the implementation's observable output


def hint_x(L, kw, tau):
    """float value of the real number that the count is rounded from (None when a count is given)"""
    try:
        if "count" in kw:
            return None
        if "start_size" in kw and "c2c_expansion" in kw:
            x = ref_x(("count", "start_size", "c2c_expansion"), L, kw["start_size"], kw["c2c_expansion"], tau)
            return None if x is None else float(x)
        if "end_size" in kw and "c2c_expansion" in kw:
            x = ref_x(("count", "end_size", "c2c_expansion"), L, kw["end_size"], kw["c2c_expansion"], tau)
            return None if x is None else float(x)
        if "total_expansion" in kw and "c2c_expansion" in kw:
            x = ref_x(("count", "total_expansion", "c2c_expansion"), L, kw["total_expansion"], kw["c2c_expansion"], tau)
            return None if x is None else float(x)
        if "start_size" in kw and "end_size" in kw:
            E, s = kw["end_size"] / kw["start_size"], kw["start_size"]
        elif "start_size" in kw:
            E, s = kw["total_expansion"], kw["start_size"]
        else:
            E, s = kw["total_expansion"], kw["end_size"] / kw["total_expansion"]
        if abs(E - 1) < tau:
            return L / (s if E > 1 else s * E)
        return root_G(E, L / s)
    except Exception:
        return None


def effective_kw(kw):
    """Chop.__post_init__ as the documentation states it: a single parameter means c2c_expansion = 1"""
    kw = dict(kw)
    if len(kw) < 2 and "c2c_expansion" not in kw:
        kw["c2c_expansion"] = 1.0
    return kw


def oracle_chop(L, kw, ob, tau=1e-7):
    """None, or (code, text) describing how (n, E) = Chop.calculate(L) breaks the geometric-progression law.
    Only called with ob['status'] == 'ok'."""
    kw = effective_kw(kw)
    n, E = ob["n"], ob["E"]
    if not is_int(n) or n < 1:
        return ("count-not-int>=1", "count %r is not an integer >= 1" % (n,))
    if not is_real(E) or not (E > 0):
        return ("expansion-not-finite-positive", "total expansion %r is not finite and positive" % (E,))
    E = float(E)
    r_real, first, last = realise(L, n, E)
    names = set(kw)
    if "count" in names:
        want = max(int(kw["count"]), 1)
        if n != want:
            return ("count-not-reproduced", "count %d given, %d returned" % (want, n))
        if "c2c_expansion" in names and n >= 2:
            r = kw["c2c_expansion"]
            if abs(r_real - r) > ORACLE_CLOSED * r:
                return ("ratio-not-reproduced", "c2c %r given, blockMesh realises %r" % (r, r_real))
        if "total_expansion" in names:
            if abs(E - kw["total_expansion"]) > 1e-12 * abs(E):
                return ("total-not-reproduced", "total expansion %r given, %r returned" % (kw["total_expansion"], E))
        if "start_size" in names:
            s = kw["start_size"]
            if abs(first - s) > ORACLE_ROOT * s:
                return ("size-not-reproduced", "start size %r given with count %d, first cell is %r" % (s, n, first))
        if "end_size" in names:
            e = kw["end_size"]
            if abs(last - e) > ORACLE_ROOT * e:
                return ("size-not-reproduced", "end size %r given with count %d, last cell is %r" % (e, n, last))
        return None
    # no count: rounding to the next whole cell
    if "c2c_expansion" in names:
        r = kw["c2c_expansion"]
        inband = (r != 1.0 and abs(r - 1) <= tau)
        tol = ORACLE_CLOSED * max(1, n) + (2 * n * tau if inband else 0)
        if "total_expansion" in names:
            if abs(E - kw["total_expansion"]) > 1e-12 * abs(E):
                return ("total-not-reproduced", "total expansion %r given, %r returned" % (kw["total_expansion"], E))
            if r > 0 and r != 1:
                x = math.log(E) / math.log(r)
                if x <= -1 - 1e-9:
                    return ("unrealisable-accepted", "total expansion %r and cell-to-cell ratio %r lie on opposite sides of 1 "
                            "(log E / log r = %.4g): no cell count realises both, yet (%d, %r) is returned" % (E, r, x, n, E))
                if x >= 0:
                    lo, hi = (n - 1) * math.log(r), n * math.log(r)
                    le = math.log(E)
                    if r > 1 and not (lo - tol <= le < hi + tol):
                        return ("count-not-rounded-up", "r^(n-1) <= E < r^n fails: n=%d r=%r E=%r" % (n, r, E))
                    if r < 1 and not (hi - tol < le <= lo + tol):
                        return ("count-not-rounded-up", "r^n < E <= r^(n-1) fails: n=%d r=%r E=%r" % (n, r, E))
            return None
        if n >= 2 and abs(r_real - r) > ORACLE_CLOSED * r:
            return ("ratio-not-reproduced", "c2c %r given, blockMesh realises %r" % (r, r_real))
        if "start_size" in names:
            s = kw["start_size"]
            if first > s * (1 + tol):
                return ("coarser-than-requested", "first cell %r coarser than the start size %r (n=%d)" % (first, s, n))
            if n >= 2 and L / gs(r, n - 1) < s * (1 - tol):
                return ("more-cells-than-needed", "%d cells of ratio %r already give a first cell %r <= %r" % (n - 1, r, L / gs(r, n - 1), s))
        if "end_size" in names:
            e = kw["end_size"]
            if last > e * (1 + tol):
                return ("coarser-than-requested", "last cell %r coarser than the end size %r (n=%d)" % (last, e, n))
            if n >= 2:
                last1 = L / gs(1 / r, n - 1)
                if last1 < e * (1 - tol):
                    return ("more-cells-than-needed", "%d cells of ratio %r already give a last cell %r <= %r" % (n - 1, r, last1, e))
        return None
    # sizes / total expansion without count and ratio: the count comes from the brentq root
    if "start_size" in names and "end_size" in names:
        s, e = kw["start_size"], kw["end_size"]
        Egiven = e / s
    elif "start_size" in names:
        s, Egiven = kw["start_size"], kw["total_expansion"]
        e = None
    else:
        e, Egiven = kw["end_size"], kw["total_expansion"]
        s = None
    if abs(E - Egiven) > 1e-12 * abs(E):
        return ("total-not-reproduced", "total expansion %r requested, %r returned" % (Egiven, E))
    inband = (E != 1.0 and abs(E - 1) < tau)
    tol = ORACLE_ROOT + (2 * n * tau if inband else 0)
    if s is not None and first > s * (1 + tol):
        return ("coarser-than-requested", "first cell %r coarser than the start size %r (n=%d)" % (first, s, n))
    if e is not None and last > e * (1 + tol):
        return ("coarser-than-requested", "last cell %r coarser than the end size %r (n=%d)" % (last, e, n))
    if n >= 2:
        _r1, first1, last1 = realise(L, n - 1, E)
        if s is not None and s <= L and first1 < s * (1 - tol):
            return ("more-cells-than-needed", "%d cells already give a first cell %r <= %r" % (n - 1, first1, s))
        if s is None and e <= L and last1 < e * (1 - tol):
            return ("more-cells-than-needed", "%d cells already give a last cell %r <= %r" % (n - 1, last1, e))
    return None


def oracle_results(L, kw, ob, tau=1e-7):
    """the resolved values (Chop.results) describe one progression: secondary oracle for quantities that do
    not reach (count, total_expansion)"""
    res = ob.get("results") or {}
    try:
        n, E, r, s, e = (res[f] for f in FIELDS)
    except KeyError as ex:
        return ("results-incomplete", "Chop.results lacks %s" % ex)
    if not is_int(n) or n < 1 or not all(is_real(v) and v > 0 for v in (E, r, s, e)):
        return ("results-not-positive", "resolved values are not positive finite numbers: %r" % ({f: res[f] for f in FIELDS},))
    if n != ob["n"] or float(E) != float(ob["E"]):
        return ("results-differ-from-return", "results (%r, %r) differ from the returned (%r, %r)" % (n, E, ob["n"], ob["E"]))
    E, r, s, e = float(E), float(r), float(s), float(e)
    names = set(effective_kw(kw))
    tol = ORACLE_ROOT
    if (r != 1.0 and abs(r - 1) <= 1.5 * tau) or abs(n * s - L) < 1.5 * tau * L or abs(n * e - L) < 1.5 * tau * L:
        tol += 2 * n * tau  # ratios within TOL of 1 are treated as 1 by the code: the law holds up to n*TOL
    if "end_size" not in names and abs(e - s * E) > tol * e:
        return ("results-inconsistent", "end_size %r != start_size*total_expansion %r" % (e, s * E))
    if "start_size" not in names and not ({"total_expansion", "end_size"} <= names):
        if abs(s * gs(r, n) - L) > tol * L:
            return ("results-inconsistent", "start_size %r * gsum(c2c %r, %d) = %r != length %r" % (s, r, n, s * gs(r, n), L))
    if "total_expansion" not in names and not ({"start_size", "end_size"} <= names):
        if abs(E - r ** (n - 1)) > tol * E:
            return ("results-inconsistent", "total_expansion %r != c2c^(n-1) %r" % (E, r ** (n - 1)))
    if "c2c_expansion" not in names:
        if "count" in names and "total_expansion" in names:
            bad = abs(r ** (n - 1) - E) > tol * E
        elif "count" in names and "start_size" in names:
            bad = n >= 2 and abs(s * gs(r, n) - L) > tol * L
        else:  # anchored at the end size
            bad = n >= 2 and abs(e * gs(1 / r, n) - L) > tol * L
        if bad:
            return ("results-inconsistent", "c2c_expansion %r does not solve its defining equation (n=%d, s=%r, e=%r, E=%r)" % (r, n, s, e, E))
    return None


def oracle_invert(L, kw, ob, tau=1e-7):
    """Reversing a chop yields the same count and the reciprocal expansion."""
    fields, ob2 = run_inverted(L, kw)
    if ob2["status"] != "ok":
        return ("inverted-rejected", "the chop is accepted (%r, %r) but its inverse raises %s" % (ob["n"], ob["E"], ob2.get("err")))
    n, E, n2, E2 = ob["n"], float(ob["E"]), ob2["n"], ob2["E"]
    if not is_int(n2) or not is_real(E2) or not E2 > 0:
        return ("inverted-not-positive", "inverse returns (%r, %r)" % (n2, E2))
    if n2 != n:
        x = hint_x(L, kw, tau)
        slack = 1e-9
        for k in ("c2c_expansion", "total_expansion"):
            if k in kw and abs(kw[k] - 1) < 3 * tau:
                slack = 4 * max(n, n2) * tau
        if x is not None and abs(n2 - n) == 1 and abs(x - round(x)) <= max(slack, 1e-9 * 40) * max(1.0, abs(x)):
            return None  # boundary rule: the real solution is an integer to within rounding
        return ("inverted-count-differs", "count %d, inverse chop %d" % (n, n2))
    if abs(E2 * E - 1) > ORACLE_ROOT:
        return ("inverted-expansion-not-reciprocal", "expansion %r, inverse chop %r (product %r)" % (E, E2, E * E2))
    return None


def oracle_grading_inverted(L, chops):
    """Grading.inverted: sections reversed, same counts, reciprocal expansions, an involution"""
    _rel, Chop, _CR, Grading, _c = _mods()
    with warnings.catch_warnings():
        warnings.simplefilter("ignore")
        g = Grading(L)
        # the reversal is a function of the sections the grading has when it is asked for: in half of the cases (chosen
        # by the input, so that replays agree) it has been looked at before, while the grading was still growing
        import hashlib
        peek = int(hashlib.sha1(json.dumps([L, [[lr, sorted(kw.items())] for lr, kw in chops]]).encode()).hexdigest()[:4], 16) % 2 == 1
        prev = None
        for lr, kw in chops:
            # equal parts described by ONE Chop object added once per part (what a loop over a list holding it does)
            ch = prev[1] if (prev is not None and prev[0] == (lr, sorted(kw.items()))) else Chop(length_ratio=lr, **kw)
            prev = ((lr, sorted(kw.items())), ch)
            g.add_chop(ch)
            if peek:
                _ = g.inverted.specification
        spec = [list(x) for x in g.specification]
        if len(spec) != len(chops):
            return spec, [], ("section-dropped", "%d chops added, the grading has %d sections" % (len(chops), len(spec)))
        inv = g.inverted
        ispec = [list(x) for x in inv.specification]
        back = [list(x) for x in inv.inverted.specification]
    if [list(x) for x in g.specification] != spec:
        return spec, ispec, ("inverted-mutates", "Grading.inverted changed the grading itself")
    if len(ispec) != len(spec):
        return spec, ispec, ("inverted-length", "inverted grading has %d sections instead of %d" % (len(ispec), len(spec)))
    for a, b in zip(reversed(spec), ispec):
        if a[0] != b[0] or a[1] != b[1] or not is_real(b[2]) or abs(a[2] * b[2] - 1) > 1e-12:
            return spec, ispec, ("inverted-section", "section %r inverted to %r" % (a, b))
    for a, b in zip(spec, back):
        if a[0] != b[0] or a[1] != b[1] or abs(a[2] - b[2]) > 1e-12 * abs(a[2]):
            return spec, ispec, ("inverted-not-involutive", "inverting twice gives %r for %r" % (b, a))
    return spec, ispec, None


def check_chop(L, kw, tau=1e-7, invert=True, expect_ok=False):
    """run one chop through the implementation and all direct oracles -> (observation, failure dict or None)"""
    ob = run_chop(L, kw)
    if ob["status"] != "ok":
        if expect_ok:
            return ob, dict(kind="chop", length=L, chop=kw, code="realisable-rejected",
                            why="realisable parameters rejected with %s: %s" % (ob.get("err"), ob.get("msg")))
        return ob, None
    if ob.get("bad"):
        return ob, dict(kind="chop", length=L, chop=kw, code="spec", why=ob["bad"])
    bad = oracle_chop(L, kw, ob, tau) or oracle_results(L, kw, ob, tau)
    if bad is None and invert:
        bad = oracle_invert(L, kw, ob, tau)
    if bad:
        return ob, dict(kind="chop", length=L, chop=kw, code=bad[0], why=bad[1], count=ob["n"],
                        total_expansion=float(ob["E"]) if is_real(ob["E"]) else repr(ob["E"]))
    return ob, None


CORPUS = [
    # reconnaissance: near-uniform branch of count <- (total, start) rounded down
    (1.05, {"start_size": 0.1, "end_size": 0.1}),
    (1.05, {"start_size": 0.1, "total_expansion": 1.0}),
    (1.05, {"end_size": 0.1, "total_expansion": 1.0}),
    (0.95, {"start_size": 1.0, "end_size": 1.0}),
    # a single cell with a size request
    (1.0, {"count": 1, "start_size": 0.3}),
    # pinned by the suite
    (1.0, {"start_size": 0.1, "end_size": 0.1}),
    (1.0, {"count": 10, "start_size": 0.05}),
    (1.0, {"count": 10, "total_expansion": 4.0}),
    (1.0, {"start_size": 0.1, "c2c_expansion": 1.1}),
    (1.0, {"end_size": 0.1, "c2c_expansion": 1 / 1.1}),
    (2.0, {"count": 10}),
    (2.0, {"start_size": 0.1}),
    (2.0, {"end_size": 0.1}),
]


def canon(L, kw):
    return json.dumps([L, sorted(kw.items())])


# ------------------------------------------------------------------------------------------------


class C03(Prop):
    pid = "C03"
    title = "Cell count and expansion ratio obey the geometric-progression law"
    prebuilt = ["Base/Vec3.v", "Model/C03_Relations.v", "Model/C03_Chop.v", "Proofs/C03_GeomSeries.v", "Proofs/C03_Relations.v",
                "Proofs/C03_Plans.v", "Proofs/C03_Invert.v", "Proofs/C03_InvertPlans.v", "Proofs/C03_Corr.v"]
    gen_dependent_files = ["Gen/C03/RelTable.v", "Gen/C03/Source.v", "Proofs/C03_SourceEq.v",
                           "Gen/C03/ChopSource.v", "Proofs/C03_ChopSourceEq.v"]
    property_files = ["Properties/C03.v"]
    trusted = [
        "tabulation: ChopRelation.get_possible_combinations() (names and iteration order) and constants.TOL",
        "scipy.optimize.brentq is an oracle record in the model; brentq_sound (the returned value solves the "
        "defining equation) is a hypothesis of the theorems and a residual goal (<= 1e-6) of every correspondence case",
        "the C03 AST translator harness/props/C03_translate.py (relations.py -> Gen/C03/Source.v; Proofs/C03_SourceEq.v "
        "proves source = model for all arguments on every run).  Its fragment: " + C03_translate.FRAGMENT + ".  Its "
        "reading of python/numpy: floats are reals; the parameter `count` is an integer; a / b raises when b = 0; "
        "np.log(x) with x <= 0 (nan / -inf) ends in an exception (checked: such values only reach int() / np.isnan); "
        "int() truncates; x ** y with a real exponent is exp(y ln x), exact for x > 0 only (the property quantifies over "
        "positive ratios); _validate_count is read through its condition string and probed against that reading on a "
        "grid; the functions ChopRelation calls are checked to be the parsed ones (file, name, line)",
        "the C03 chop translator harness/props/C03_translate_chop.py (chop.py: Chop.__post_init__, Chop.invert, "
        "Chop.copy_preserving -> Gen/C03/ChopSource.v; Proofs/C03_ChopSourceEq.v proves source = Model/C03_Chop.v for all "
        "field values on every run).  Its fragment: " + C03_translate_chop.FRAGMENT + ".  Its reading: the methods are "
        "state-passing functions over the record of the seven declared dataclass fields (declaration and run-time fields "
        "checked against the record); Optional numbers are option R, count is the python number as passed and int() "
        "truncates; dataclasses.asdict + Chop(**args) is a field-wise copy followed by the translated __post_init__; "
        "self.results is a parameter with all keys present; aliasing (a copy sharing state with the original) is not "
        "expressible and stays with the sampled oracle",
        "the sampled real-valued correspondence (generated inputs incl. branch and integer neighbourhoods, each case "
        "decided inside Coq by the interval tactic on exact dyadic literals) validates this reading of binary64 / numpy "
        "semantics - no longer the hand model, which is proved equal to the translated source",
        "harness-side hints (Decimal evaluation of the real solution, own bisection for G(x,E)=L/s) only select "
        "which goal is stated; every stated goal is checked by Coq",
    ]
    partial = [
        "C03_invert_partial: proved = reversed cell sequence; for the five closed-form pairs the inverted chop is "
        "accepted and returns (n, 1/E) (ratios 1 or outside the tolerance band together with their reciprocal); for all "
        "ten pairs and every sound brentq oracle the FULL statement (inverted chop returns the same count and the "
        "reciprocal expansion) under two explicit hypotheses: inv_ok (given ratios/sizes positive; tolerance band "
        "entered on both sides or on neither: band_ok for c2c, band_sym for the total expansion) and "
        "calculate (invert d) <> None. Remaining = acceptance of the inverted chop for the five pairs that go through "
        "brentq (needs scipy to converge on the mirrored input; false for count=1 with a size - known finding) and "
        "ratios inside the tolerance band on one side only (law holds up to n*TOL); both validated by the inversion "
        "correspondence and the direct oracle",
        "C03_size_rounded: ratios with 0 < |r-1| <= TOL are treated as 1 by the code; the law then holds up to n*TOL "
        "(validated, not proved)",
    ]

    # ---- S1
    def generate(self, ctx):
        table, tol = impl_table()
        if len(set(table)) != len(table):
            raise GenError("duplicate relation in the table")
        o = ["(* GENERATED by harness/props/C03.py from the working tree of /repo -- do not edit *)",
             "From Coq Require Import Reals ZArith List.", "From CB Require Import Base.Vec3 Model.C03_Relations.",
             "Import ListNotations.", "Definition rel_table : list rel :="]
        rows = [coq_rel(t) for t in table]
        lines = []
        for i in range(0, len(rows), 4):
            lines.append("; ".join(rows[i:i + 4]))
        o.append("  [" + ";\n   ".join(lines) + "].")
        o.append("Definition TOL : R := %s." % R(tol))
        ctx.write_gen("RelTable", "\n".join(o) + "\n")
        self._table, self._tol = table, tol
        # the source itself: relations.py -> Gallina (fail closed), proved equal to the model by Proofs/C03_SourceEq.v
        text, translated, tr = C03_translate.translate()
        rel = _mods()[0]
        C03_translate.tie_to_runtime(tr, impl_functions(), rel)
        if sorted(k for (_n, _c, _b, k) in translated) != sorted(table):
            raise GenError("the translated get_* functions %r are not the relations of the table %r" % (
                sorted(k for (_n, _c, _b, k) in translated), sorted(table)))
        ctx.write_gen("Source", text)
        # the field logic of chop.py: __post_init__, invert, copy_preserving -> Gallina, proved equal to Model/C03_Chop.v
        ctext, ctranslated, ctr = C03_translate_chop.translate()
        import classy_blocks.grading.chop as chop_mod
        C03_translate_chop.tie_to_runtime(ctr, chop_mod.Chop)
        ctx.write_gen("ChopSource", ctext)
        ctx.log("S1: chop.py translated: %s" % ", ".join("Chop.%s (line %d)" % (n, ln) for (n, _c, ln) in ctranslated))
        ctx.log("S1: relations.py translated: %d relations (%d with brentq), %d helpers" % (
            len(translated), sum(1 for t in translated if t[2]), len(tr.helpers)))

    # ---- S3
    def correspond(self, ctx):
        res = CorrResult()
        res.rule = ("[the model is proved equal to the translated source (Proofs/C03_SourceEq.v); these samples validate the "
                    "translator's reading of float/numpy semantics] "
                    "per relation call: implementation output (exact dyadic literal) vs Model/C03_Relations.v evaluated in "
                    "Coq by interval (closed forms 1e-9 rel; counts exact, or within the binary64 conditioning of an "
                    "integer = boundary; brentq outputs by the residual of the defining equation, 1e-6; raise <-> None); "
                    "plans: the three relation calls the tabulated closure makes, on the implementation's own "
                    "Chop.results; inversion: Chop.invert fields, then the plan of the inverted chop; Grading.inverted. "
                    "non-trivial = implementation accepted the input; distinct by (relation|pair, inputs)")
        try:
            table, tau = impl_table()
        except GenError as e:
            res.error = "cannot read the relation table: %s" % e
            return res
        fns = impl_functions()
        rng = ctx.rng
        goals = Goals()
        self._cases = []

        n_rel = ctx.n(16, 300)
        n_mal = ctx.n(3, 30)
        n_plan = ctx.n(10, 200)
        n_inv = ctx.n(4, 60)
        n_grad = ctx.n(4, 100)

        # (0) the corpus through every direct oracle, first (its replays are the simplest)
        for (L, kw) in CORPUS:
            _ob, bad = check_chop(L, dict(kw), tau, invert=True)
            res.evaluations += 1
            if bad:
                res.oracle_failures.append(bad)

        # (1) the twelve relations, in-domain and malformed
        for key in table:
            if key not in TWELVE:
                res.mismatches.append(dict(kind="table", relation=list(key), why="relation unknown to the model"))
                continue
            for i in range(n_rel + n_mal):
                mal = i >= n_rel
                L, a, b, tag = gen_malformed(rng, key) if mal else gen_relation_inputs(rng, key, tau)
                out = call_relation(fns[key], L, a, b)
                res.evaluations += 1
                res.count("relation:%s<-%s,%s" % tuple(SHORT[f] for f in key))
                res.count("outcome:" + out[0])
                res.count("stream:" + ("malformed" if mal else "in-domain"))
                info = dict(kind="relation", relation=list(key), length=L, a=a, b=b, tag=tag,
                            out=(out[1] if out[0] == "err" else (out[1] if is_int(out[1]) else (float(out[1]) if is_real(out[1]) else repr(out[1])))),
                            status=out[0])
                if out[0] == "ok":
                    res.distinct.add(json.dumps(["rel", list(key), L, a, b]))
                if relation_goals(goals, key, L, a, b, out, tau, info):
                    res.boundary += 1
                if len(res.samples) < 3 and out[0] == "ok" and i % 7 == 3:
                    res.samples.append(info)
                # self-check through the chop that fires this relation first
                if not mal:
                    kw = {key[1]: a, key[2]: b}
                    _ob, bad = check_chop(L, kw, tau, invert=False)
                    if bad:
                        res.oracle_failures.append(bad)

        # (2) corpus + the ten plans
        plan_cases = [(L, dict(kw), 1.0) for (L, kw) in CORPUS]
        for pair in TEN_PAIRS:
            for i in range(n_plan):
                L, kw = gen_pair_inputs(rng, pair, tau)
                lr = rng.choice([1.0, 1.0, 0.5, 0.25, 0.3])
                plan_cases.append((L / lr if lr != 1.0 else L, kw, lr))
        seen_plans = {}
        for (L0, kw, lr) in plan_cases:
            ob = run_chop(L0, kw, lr)
            L = L0 * lr
            res.evaluations += 1
            res.traces += 1
            pair = tuple(sorted(kw, key=FIELDS.index))
            res.count("plan:" + "+".join(SHORT[f] for f in pair))
            res.count("outcome:" + ob["status"])
            if ob["status"] == "ok":
                res.distinct.add(json.dumps(["plan", L, sorted(kw.items())]))
                if ob.get("bad"):
                    res.oracle_failures.append(dict(kind="chop", length=L0, chop=kw, code="spec", why=ob["bad"]))
                bad = oracle_chop(L, kw, ob, tau) or oracle_results(L, kw, ob, tau)
                if bad:
                    res.oracle_failures.append(dict(kind="chop", length=L, chop=kw, code=bad[0], why=bad[1], count=ob["n"],
                                                    total_expansion=float(ob["E"]) if is_real(ob["E"]) else repr(ob["E"])))
            given = dict(kw)
            if len(given) < 2 and "c2c_expansion" not in given:
                given["c2c_expansion"] = 1  # Chop.__post_init__
            if "count" in given:
                given["count"] = max(int(given["count"]), 1)
            gl = tuple(sorted(given, key=FIELDS.index))
            plan = plan_for(table, gl)
            if plan is None:
                continue
            if gl not in seen_plans:
                seen_plans[gl] = plan
                goals.add("plan_of rel_table [%s] = Some [%s]" % ("; ".join(COQF[f] for f in gl), "; ".join(coq_rel(t) for t in plan)),
                          "vm_compute; reflexivity", dict(kind="plan-shape", given=list(gl), plan=[list(t) for t in plan]))
            info0 = dict(kind="plan", length=L, chop=kw, length_ratio=lr, status=ob["status"])
            if ob["status"] == "ok":
                vals = dict(given)
                results = ob["results"]
                info0["count"] = ob["n"]
                info0["total_expansion"] = float(ob["E"]) if is_real(ob["E"]) else repr(ob["E"])
                for t in plan:
                    a, b = vals.get(t[1], results.get(t[1])), vals.get(t[2], results.get(t[2]))
                    o = results.get(t[0])
                    if a is None or b is None or o is None:
                        goals.add("False", "fail", dict(info0, goal="Chop.results lacks a value for %r" % (t,)))
                        break
                    info = dict(info0, step=list(t), a=a, b=b, out=o if is_int(o) else (float(o) if is_real(o) else repr(o)))
                    if relation_goals(goals, t, L, a, b, ("ok", o), tau, info):
                        res.boundary += 1
                    vals[t[0]] = o
                if len(res.samples) < 6 and len(kw) == 2:
                    res.samples.append(dict(length=L, chop=kw, returned=[ob["n"], info0["total_expansion"]]))
            else:
                # the implementation raised: walk the plan with the implementation's own functions until one raises
                vals = dict(given)
                reproduced = False
                for t in plan:
                    out = call_relation(fns[t], L, vals[t[1]], vals[t[2]])
                    info = dict(info0, step=list(t), a=vals[t[1]], b=vals[t[2]], out=out[1] if out[0] == "err" else repr(out[1]))
                    if relation_goals(goals, t, L, vals[t[1]], vals[t[2]], out, tau, info):
                        res.boundary += 1
                    if out[0] == "err":
                        reproduced = True
                        break
                    vals[t[0]] = out[1]
                if not reproduced:
                    goals.add("False", "fail", dict(info0, goal="Chop.calculate raised %s but no relation of its plan does" % ob.get("err")))

        # (2b) contradictory requests (oracle only): total expansion and cell-to-cell ratio on opposite sides of 1, more than
        # one cell apart - no count realises both, the chop must be refused, directly and through a Grading
        for i in range(ctx.n(24, 400)):
            c = rng.choice([1.05, 1.1, 1.15, 1.3, 0.9, 0.8])
            kw = {"total_expansion": c ** (-rng.uniform(1.2, 9.0)), "c2c_expansion": c}
            L = draw_L(rng)
            ob = run_chop(L, kw, rng.choice([1.0, 0.5]), via_grading=(i % 2 == 0))
            res.evaluations += 1
            res.count("contradictory total/c2c")
            res.distinct.add(json.dumps(["contra", L, sorted(kw.items())]))
            if ob["status"] == "ok":
                bad = oracle_chop(L, kw, ob, tau) or ("unrealisable-accepted", "accepted")
                res.oracle_failures.append(dict(kind="chop", length=L, chop=kw, code=bad[0], why=bad[1], count=ob["n"],
                                                total_expansion=float(ob["E"]) if is_real(ob["E"]) else repr(ob["E"])))

        # (2c) counts given as non-integer numbers (count = length / size is the usual script): the documented
        # normalisation is truncation, and the returned pair obeys the law for the truncated count (oracle only)
        for i in range(ctx.n(40, 600)):
            L = draw_L(rng)
            n = rng.choice([1, 2, 2, 3, 7, 10, 40, 199]) + rng.choice([0.0, 0.25, 0.5, 0.9, 0.99])
            other = rng.choice(["c2c_expansion", "total_expansion", "start_size", "end_size", None])
            kw = {"count": n}
            if other == "c2c_expansion":
                kw[other] = draw_r(rng, int(n))
            elif other == "total_expansion":
                kw[other] = rng.choice([0.2, 0.5, 2.0, 5.0, 1.0])
            elif other is not None:
                kw[other] = L / max(int(n), 1) * rng.choice([0.3, 0.6, 1.0, 1.7])
            res.evaluations += 1
            res.count("fractional count")
            res.distinct.add(json.dumps(["frac", L, sorted(kw.items())]))
            ob, bad = check_chop(L, kw, tau)
            if bad:
                res.oracle_failures.append(bad)

        # (3) inversion of chops
        for pair in TEN_PAIRS:
            for i in range(n_inv):
                L, kw = gen_pair_inputs(rng, pair, tau)
                ob = run_chop(L, kw, 1.0, via_grading=False)
                res.evaluations += 1
                res.count("invert:" + "+".join(SHORT[f] for f in pair))
                if ob["status"] != "ok":
                    continue
                fields, ob2 = run_inverted(L, kw)
                bad = oracle_invert(L, kw, ob, tau)
                if bad:
                    res.oracle_failures.append(dict(kind="chop", length=L, chop=kw, code=bad[0], why=bad[1], count=ob["n"],
                                                    total_expansion=float(ob["E"])))
                if fields is None:
                    continue
                res.distinct.add(json.dumps(["inv", L, sorted(kw.items())]))
                goals.add("data_agrees (invert %s) %s %s" % (coq_data(kw), coq_data(fields), R(1e-12)), "c_data",
                          dict(kind="invert-fields", length=L, chop=kw, after={f: fields[f] for f in FIELDS}))
                if ob2["status"] == "ok":
                    kw2 = {f: v for f, v in fields.items() if v is not None}
                    gl = tuple(sorted(kw2, key=FIELDS.index))
                    plan = plan_for(table, gl)
                    if plan is None:
                        continue
                    if gl not in seen_plans:
                        seen_plans[gl] = plan
                        goals.add("plan_of rel_table [%s] = Some [%s]" % ("; ".join(COQF[f] for f in gl), "; ".join(coq_rel(t) for t in plan)),
                                  "vm_compute; reflexivity", dict(kind="plan-shape", given=list(gl), plan=[list(t) for t in plan]))
                    vals = dict(kw2)
                    for t in plan:
                        a, b = vals.get(t[1], ob2["results"].get(t[1])), vals.get(t[2], ob2["results"].get(t[2]))
                        o = ob2["results"].get(t[0])
                        info = dict(kind="plan", inverted_from=kw, length=L, chop=kw2, step=list(t), a=a, b=b,
                                    out=o if is_int(o) else (float(o) if is_real(o) else repr(o)), status="ok")
                        if relation_goals(goals, t, L, a, b, ("ok", o), tau, info):
                            res.boundary += 1
                        vals[t[0]] = o

        # (4) Grading.inverted on multi-section gradings
        for i in range(n_grad):
            L = draw_L(rng)
            k = rng.choice([1, 2, 2, 3])
            lrs = [1.0 / k] * k if rng.random() < 0.5 else [x / sum(range(1, k + 1)) for x in range(1, k + 1)]
            chops = []
            uniform = rng.random() < 0.2   # every section uniform (expansion exactly 1): inversion changes the ORDER only
            same = len(set(lrs)) == 1 and k > 1 and rng.random() < 0.4   # equal parts, one and the same chop for each
            for lr in lrs:
                if same and chops:
                    chops.append((lr, dict(chops[0][1])))
                    continue
                n = draw_n(rng)
                if uniform or rng.random() < 0.25:
                    chops.append((lr, {"count": n}))
                else:
                    chops.append((lr, {"count": n, "c2c_expansion": draw_r(rng, n, band=0.1)}))
            try:
                spec, ispec, bad = oracle_grading_inverted(L, chops)
            except Exception as e:
                res.mismatches.append(dict(kind="grading-inverted", length=L, chops=chops, why="raised %s: %s" % (type(e).__name__, e)))
                continue
            res.evaluations += 1
            res.count("grading.inverted:%d sections" % k)
            res.distinct.add(json.dumps(["ginv", L, chops]))
            if bad:
                res.oracle_failures.append(dict(kind="grading-inverted", length=L, chops=[[lr, kw] for lr, kw in chops], code=bad[0], why=bad[1]))
            ok_shape = all(len(x) == 3 and is_real(x[0]) and is_int(x[1]) and is_real(x[2]) for x in spec + ispec)
            if not ok_shape:
                goals.add("False", "fail", dict(kind="grading-inverted", length=L, spec=repr(spec), inverted=repr(ispec)))
                continue

            def cs(sp):
                return "[" + "; ".join("(%s, %s, %s)" % (R(x[0]), Z(x[1]), R(x[2])) for x in sp) + "]"
            goals.add("spec_agrees (inverted %s) %s %s" % (cs(spec), cs(ispec), R(1e-12)), "c_data",
                      dict(kind="grading-inverted", length=L, spec=spec, inverted=ispec))

        # run the goals, 16 shards
        self._goals = goals
        import time
        t_gen = time.time()
        ctx.log("S3: %d implementation runs, %d goals generated in %.1fs" % (res.evaluations, len(goals.items), t_gen - ctx.t0))
        nshard = 12 if ctx.quick else 16
        per = (len(goals.items) + nshard - 1) // nshard
        shards = []
        order = list(goals.items)
        rng.shuffle(order)  # spread the expensive goals
        for k in range(nshard):
            chunk = order[k * per:(k + 1) * per]
            if chunk:
                shards.append(("cases_%d" % k, HEADER + "\n".join(t for (_i, t) in chunk)))
        ok_ids, bad_ids = set(), set()
        import re
        for (name, rc, so, se) in core.run_cases_parallel(ctx, shards, timeout=(600 if ctx.quick else 1700)):
            if rc != 0:
                res.error = "case file %s failed to compile (rc %s): %s" % (name, rc, se[-800:])
                return res
            ok_ids.update(int(x) for x in re.findall(r"^OK (\d+)\s*$", so, flags=re.M))
            bad_ids.update(int(x) for x in re.findall(r"^MISMATCH (\d+)\s*$", so, flags=re.M))
        ctx.log("S3: Coq evaluated the model on all cases in %.1fs" % (time.time() - t_gen))
        silent = [k for (k, _t) in goals.items if k not in ok_ids and k not in bad_ids]
        if silent:
            res.error = "%d goals printed no verdict (first id %d)" % (len(silent), silent[0])
            return res
        for k in sorted(bad_ids):
            res.mismatches.append(goals.info[k])
        try:
            import os
            with open(os.path.join(ctx.work, "mismatches.json"), "w") as f:
                json.dump([dict(goals.info[k], goal_id=k) for k in sorted(bad_ids)], f, indent=1, default=str)
        except Exception:
            pass
        res.count("coq goals", len(goals.items))
        res.notes.append("%d Coq goals in %d files; %d boundary cases" % (len(goals.items), len(shards), res.boundary))
        return res

    # ---- S4
    def search(self, ctx, broken, corr):
        fails = []
        seen = set()
        try:
            _t, tau = impl_table()
        except Exception:
            tau = 1e-7

        def consider(L, kw, expect_ok=False):
            try:
                _ob, bad = check_chop(L, kw, tau, invert=True, expect_ok=expect_ok)
            except GenError:
                return
            if bad:
                sig = self.signature(bad)
                if sig not in seen:
                    seen.add(sig)
                    fails.append(bad)

        for (L, kw) in CORPUS:
            consider(L, dict(kw))
        # the disagreeing correspondence cases, as chops
        for m in corr.mismatches[:40]:
            try:
                if m.get("kind") == "relation" or (m.get("kind") == "plan" and m.get("step")):
                    key = m.get("relation") or m.get("step")
                    consider(m["length"], {key[1]: m["a"], key[2]: m["b"]}, expect_ok=(m.get("tag") == "in" and m.get("status") == "err"))
                if m.get("kind") == "plan":
                    consider(m["length"], dict(m["chop"]))
            except Exception as e:
                ctx.log("search: mismatch case not replayable: %s" % e)
        # seeded random search over the whole quantifier
        rng = ctx.rng
        n = ctx.n(3000, 40000)
        for i in range(n):
            pair = TEN_PAIRS[i % 10]
            try:
                L, kw = gen_pair_inputs(rng, pair, tau)
            except Exception:
                continue
            consider(L, kw)
            if len(fails) >= 6:
                break
        fails.sort(key=lambda f: len(json.dumps(f)))
        return fails

    def signature(self, rp):
        if rp.get("sig"):
            return rp["sig"]
        kw = rp.get("chop") or {}
        code = rp.get("code", "")
        names = "+".join(SHORT[f] for f in sorted(kw, key=FIELDS.index)) if all(f in FIELDS for f in kw) else "?"
        if rp.get("kind") == "chop":
            E = None
            if "total_expansion" in kw:
                E = kw["total_expansion"]
            elif "start_size" in kw and "end_size" in kw and kw["start_size"]:
                E = kw["end_size"] / kw["start_size"]
            if code == "coarser-than-requested" and "count" not in kw and "c2c_expansion" not in kw and E is not None and abs(E - 1) < 1e-7:
                return "C03:uniform-branch:coarser-than-requested"
            if kw.get("count") is not None and max(int(kw["count"]), 1) == 1 and ("start_size" in kw or "end_size" in kw) and \
                    code in ("size-not-reproduced", "inverted-rejected", "results-inconsistent"):
                return "C03:count=1:size-request"
        return "C03:%s:%s:%s" % (rp.get("kind", "?"), names, code)

    def replay(self, ctx, obj):
        if obj.get("kind") == "chop":
            L, kw = obj["length"], obj["chop"]
            ob = run_chop(L, kw)
            print("implementation: Chop(%s).calculate(%r) ->" % (", ".join("%s=%r" % kv for kv in kw.items()), L),
                  (ob["n"], ob["E"]) if ob["status"] == "ok" else "raises %s" % ob.get("err"))
            if ob["status"] == "ok":
                r, first, last = realise(L, ob["n"], float(ob["E"]))
                print("blockMesh progression: ratio %r first %r last %r" % (r, first, last))
                bad = oracle_chop(L, kw, ob) or oracle_results(L, kw, ob) or oracle_invert(L, kw, ob)
                print("oracle:", bad[1] if bad else "ok")
                return 1 if bad else 0
            print("oracle: rejected")
            return 0
        if obj.get("kind") == "grading-inverted":
            spec, ispec, bad = oracle_grading_inverted(obj["length"], [(lr, kw) for lr, kw in obj["chops"]])
            print("implementation:", spec, "->", ispec)
            print("oracle:", bad[1] if bad else "ok")
            return 1 if bad else 0
        print("nothing to replay for kind", obj.get("kind"))
        return 0


PROP = C03()
