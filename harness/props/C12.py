"""C12 - assemble / clear / backport / delete / write round-trips preserve the model.

Tie (U): random histories over the public Mesh API on small random models are run on the real code;
every file written and every set of operation points after a backport is parsed and compared, inside
Coq, with the state machine of Model/C12_MeshLife.v (`run fixed tables (init store) history`); its Mesh.grade is the
propagation model of C01/C02 preceded by the reset of every wire manager (Model/C12_Regrade.v, fixes/C12-4.diff), so
meshes whose counts and gradings are propagated from neighbouring blocks are inside the comparison, second writes included.
Tie (F): the constant tables the model takes as parameters (face corners per orient, wire corner pairs
per axis, the default patch type) are tabulated from the working tree into coq/Gen/C12/Tables.v.

Direct oracle (independent of the Coq model): the property itself, stated with the implementation as
its own reference on the simplest possible history - after every write the parsed file must equal the
file of a freshly built equivalent mesh (one assemble, one write); after every backport every
operation must have the points of the vertices of its block and all other operations their old points; and the round
trip itself: at every clear / backport of a mesh not touched since its assembly, the file written after
`prefix; clear|backport` must list the same patches IN THE SAME ORDER with the same types and settings (for clear: the
same faces and the same file) as the file written after `prefix` alone (both prefixes replayed on new meshes).
"""
import json
import math
import os
import re
import warnings

import core
from core import GenError, CorrResult, Prop

NAMES = ["pa", "pb", "pc", "pd"]
KINDS = ["patch", "wall", "empty", "symmetry", "cyclic"]
SETTINGS = ["inGroups (g1)", "neighbourPatch pb", "transform none"]
ORIENTS = ["bottom", "top", "left", "right", "front", "back"]
XYZ = [(0, 0, 0), (1, 0, 0), (1, 1, 0), (0, 1, 0), (0, 0, 1), (1, 0, 1), (1, 1, 1), (0, 1, 1)]
SPACING = 8
ERR = {"RuntimeError": "E_runtime", "UndefinedGradingsError": "E_undefined",
       "InconsistentGradingsError": "E_inconsistent", "IndexError": "E_index"}


def _cb():
    import classy_blocks as cb  # noqa
    return cb


def slot_of(orient):
    """index of an orient in Operation.patch_names / the model's o_pat"""
    cb = _cb()
    if orient == "bottom":
        return 0
    if orient == "top":
        return 1
    return 2 + cb.Loft.get_index_from_side(orient)


# ------------------------------------------------------------------------------------------------
# model descriptions (JSON) and their construction on the public API


def build_op(d):
    """d: dict(pts=[8x3], patches={orient: name}, chops=[[kwargs...] x3], extras=[...]); arc points are absolute
    (backport moves the corners of an operation, not the points its curved edges pass through)"""
    cb = _cb()
    from classy_blocks.construct.edges import Arc
    op = cb.Loft(cb.Face([list(p) for p in d["pts"][:4]]), cb.Face([list(p) for p in d["pts"][4:]]))
    for orient, name in sorted(d.get("patches", {}).items()):
        op.set_patch(orient, name)
    for axis in range(3):
        for kw in d["chops"][axis]:
            op.chop(axis, **kw)
    for ex in d.get("extras", []):
        if ex[0] == "side_arc":
            op.add_side_edge(ex[1], Arc(list(ex[2])))
        elif ex[0] == "face_arc":
            (op.top_face if ex[1] else op.bottom_face).add_edge(ex[2], Arc(list(ex[3])))
        elif ex[0] == "project_side":
            op.project_side(ex[1], ex[2], edges=ex[3], points=ex[4])
        elif ex[0] == "cell_zone":
            op.set_cell_zone(ex[1])
    return op


def gen_model(rng, rich):
    cells_pool = [[(0, 0, 0)], [(0, 0, 0), (1, 0, 0)], [(0, 0, 0), (1, 0, 0), (2, 0, 0)], [(0, 0, 0), (0, 1, 0)],
                  [(0, 0, 0), (1, 0, 0), (0, 1, 0)], [(0, 0, 0), (0, 0, 1), (1, 0, 0)], [(0, 0, 0), (2, 0, 0)],
                  [(0, 0, 0), (1, 0, 0), (1, 1, 0), (0, 1, 0)]]
    cells = list(rng.choice(cells_pool))
    rng.shuffle(cells)
    jit = {}

    def lp(p):
        if p not in jit:
            jit[p] = tuple(rng.choice([-1, 0, 0, 1]) for _ in range(3)) if rng.random() < 0.7 else (0, 0, 0)
        return [SPACING * p[i] + jit[p][i] for i in range(3)]

    counts = [rng.choice([2, 3, 4, 5]) for _ in range(3)]
    double = [rng.random() < 0.15 for _ in range(3)]
    ops = []
    for (i, j, k) in cells:
        pts = [lp((i + x, j + y, k + z)) for (x, y, z) in XYZ]
        patches = {}
        for o in ORIENTS:
            if rng.random() < 0.35:
                patches[o] = rng.choice(NAMES)
        chops = []
        for a in range(3):
            n = counts[a]
            if not rich and rng.random() < 0.04:
                n += 1  # an inconsistent count now and then
            if double[a] and n >= 4:
                chops.append([dict(length_ratio=0.5, count=n // 2), dict(length_ratio=0.5, count=n - n // 2)])
            else:
                chops.append([dict(count=n)])
        ops.append(dict(pts=pts, patches=patches, chops=chops, extras=[]))
    if rich:
        # outside the scope of the Coq model: propagated counts, size-based chops, curved edges, projections, zones
        if len(ops) > 1:
            for d in ops[1:]:
                for a in range(3):
                    if rng.random() < 0.6:
                        d["chops"][a] = []
        for a in range(3):
            if rng.random() < 0.3 and ops[0]["chops"][a]:
                ops[0]["chops"][a] = [dict(start_size=rng.choice([0.5, 1.0, 1.5]))]
            elif rng.random() < 0.3 and ops[0]["chops"][a] and len(ops[0]["chops"][a]) == 1:
                # a prescribed count and ratio whose PRESERVED quantity (a cell size) follows the edge lengths
                n0 = ops[0]["chops"][a][0].get("count", 4)
                ops[0]["chops"][a] = [dict(count=n0, preserve=rng.choice(["start_size", "end_size"]),
                                           **{rng.choice(["c2c_expansion", "total_expansion"]): rng.choice([1.2, 0.8, 2.0])})]
        for d in ops:
            if rng.random() < 0.4:
                i = rng.randrange(4)
                a, b = d["pts"][i], d["pts"][i + 4]
                d["extras"].append(["side_arc", i, [(a[j] + b[j]) / 2 + [0.5, 0.25, 0.0][j] for j in range(3)]])
            if rng.random() < 0.3:
                w, i = rng.randrange(2), rng.randrange(4)
                a, b = d["pts"][4 * w + i], d["pts"][4 * w + (i + 1) % 4]
                d["extras"].append(["face_arc", w, i, [(a[j] + b[j]) / 2 + [0.0, 0.25, 0.5][j] for j in range(3)]])
            if rng.random() < 0.3:
                d["extras"].append(["project_side", rng.choice(ORIENTS), "geo", rng.random() < 0.5, rng.random() < 0.5])
            if rng.random() < 0.2:
                d["extras"].append(["cell_zone", "zone%d" % rng.randrange(2)])
    return ops



def cube_rotations():
    """corner permutations of the reference hexahedron under its 24 proper rotations: corner i of the rotated
    operation sits where corner p[i] of the unrotated one sits"""
    import itertools
    rots = []
    for perm in itertools.permutations(range(3)):
        inv = sum(1 for i in range(3) for j in range(i + 1, 3) if perm[i] > perm[j])
        for signs in itertools.product([1, -1], repeat=3):
            if (-1) ** inv * signs[0] * signs[1] * signs[2] != 1:
                continue
            p = []
            for (x, y, z) in XYZ:
                c = [2 * x - 1, 2 * y - 1, 2 * z - 1]
                d = [signs[i] * c[perm[i]] for i in range(3)]
                p.append(XYZ.index(tuple((v + 1) // 2 for v in d)))
            rots.append(p)
    return rots


ROTATIONS = cube_rotations()
AXIS_PAIRS_REF = [[(0, 1), (3, 2), (7, 6), (4, 5)], [(0, 3), (1, 2), (5, 6), (4, 7)], [(0, 4), (1, 5), (2, 6), (3, 7)]]


def ratios_for(counts, mode):
    """length ratios of a multi-section chop; one rule per model, so that within a mesh the list of section counts
    determines the whole specification (the model carries the counts, coq_file checks the ratios)"""
    if len(counts) == 1:
        return [None]
    if mode == "half" and len(counts) == 2:
        return [0.5, 0.5]
    n = sum(counts)
    return [c / n for c in counts]


def chop_kwargs(counts, mode):
    return [dict(count=c) if r is None else dict(length_ratio=r, count=c) for c, r in zip(counts, ratios_for(counts, mode))]


def gen_prop_model(rng):
    """inside the scope of the Coq model, WITH propagation: boxes of a jittered lattice, each with its corners listed
    from a random corner in a random orientation (so that neighbours run along other local axes, often against each
    other: gradings get inverted); per family of parallel block directions usually ONE axis carries the chops
    (one or several sections), sometimes two or all (consistent, or deliberately not), sometimes none"""
    cells_pool = [[(0, 0, 0), (1, 0, 0)], [(0, 0, 0), (1, 0, 0), (2, 0, 0)], [(0, 0, 0), (0, 1, 0)],
                  [(0, 0, 0), (1, 0, 0), (0, 1, 0)], [(0, 0, 0), (0, 0, 1), (1, 0, 0)],
                  [(0, 0, 0), (1, 0, 0), (1, 1, 0), (0, 1, 0)], [(0, 1, 0), (2, 1, 0), (1, 1, 0), (1, 0, 0)],
                  [(0, 0, 0), (1, 0, 0), (1, 1, 0), (1, 1, 1)], [(0, 0, 0), (2, 0, 0)]]
    cells = list(rng.choice(cells_pool))
    if rng.random() < 0.6:
        rng.shuffle(cells)
    mode = rng.choice(["half", "prop", "prop"])
    jit = {}

    def lp(p):
        if p not in jit:
            jit[p] = tuple(rng.choice([-1, 0, 0, 1]) for _ in range(3)) if rng.random() < 0.5 else (0, 0, 0)
        return [SPACING * p[i] + jit[p][i] for i in range(3)]

    ops, lat = [], []
    for (i, j, k) in cells:
        rot = rng.choice(ROTATIONS) if rng.random() < 0.75 else list(range(8))
        corners = [(i + XYZ[rot[c]][0], j + XYZ[rot[c]][1], k + XYZ[rot[c]][2]) for c in range(8)]
        lat.append(corners)
        patches = {}
        for o in ORIENTS:
            if rng.random() < 0.2:
                patches[o] = rng.choice(NAMES)
        ops.append(dict(pts=[lp(c) for c in corners], patches=patches, chops=[[], [], []], extras=[], mode=mode))
    # families: block directions connected through shared lattice edges
    parent = {}

    def find(x):
        while parent.setdefault(x, x) != x:
            parent[x] = parent[parent[x]]
            x = parent[x]
        return x

    edge_owner = {}
    sign = {}
    for b, corners in enumerate(lat):
        for a in range(3):
            find((b, a))
            c1, c2 = AXIS_PAIRS_REF[a][0]
            d = [corners[c2][q] - corners[c1][q] for q in range(3)]
            sign[(b, a)] = sum(d)  # +1 / -1 along the global direction
            for (c1, c2) in AXIS_PAIRS_REF[a]:
                e = frozenset([corners[c1], corners[c2]])
                if e in edge_owner:
                    parent[find((b, a))] = find(edge_owner[e])
                else:
                    edge_owner[e] = (b, a)
    fams = {}
    for x in list(parent):
        fams.setdefault(find(x), []).append(x)
    for members in fams.values():
        members.sort()
        n = rng.choice([2, 3, 4, 5, 6])
        r = rng.random()
        if r < 0.55 or n < 3:
            secs = [n]
        elif r < 0.9:
            k = rng.randrange(1, n)
            secs = [k, n - k]
        else:
            k = rng.randrange(1, n - 1)
            l = rng.randrange(1, n - k)
            secs = [k, l, n - k - l]
        r = rng.random()
        if r < 0.015:
            chosen = []                      # nobody chops this direction: UndefinedGradingsError
        elif r < 0.65:
            chosen = [rng.choice(members)]
        elif r < 0.85:
            chosen = rng.sample(members, min(2, len(members)))
        else:
            chosen = list(members)
        for idx, (b, a) in enumerate(chosen):
            mine = list(secs) if sign[(b, a)] > 0 else list(reversed(secs))
            if idx > 0:
                q = rng.random()
                if q < 0.06:
                    mine[-1] += 1            # another count: InconsistentGradingsError
                elif q < 0.3 and n >= 2:
                    # same count, other sections: InconsistentGradingsError where the two blocks share a wire, else the
                    # blocks between them get different gradings on their wires (edgeGrading)
                    k = rng.randrange(1, n)
                    mine = rng.choice([[k, n - k], list(reversed(mine)), [n]])
            ops[b]["chops"][a] = chop_kwargs(mine, mode)
    return ops


# ------------------------------------------------------------------------------------------------
# parsing of the written file


def tokenize(text):
    text = re.sub(r"/\*.*?\*/", " ", text, flags=re.S)
    text = re.sub(r"//[^\n]*", " ", text)
    return re.findall(r"[(){};]|[^\s(){};]+", text)


def tree(tokens):
    """nested lists; a list starts with its opening bracket"""
    stack = [[]]
    close = {")": "(", "}": "{"}
    for t in tokens:
        if t in "({":
            stack.append([t])
        elif t in ")}":
            top = stack.pop()
            if top[0] != close[t] or not stack:
                raise ValueError("unbalanced brackets")
            stack[-1].append(top)
        else:
            stack[-1].append(t)
    if len(stack) != 1:
        raise ValueError("unbalanced brackets")
    return stack[0]


def num(t):
    try:
        return float(t)
    except (TypeError, ValueError):
        return None


def parse_file(text):
    """-> dict(settings, geometry, vertices, blocks, edges, faces, boundary{name:(props, faces)}, default, merged)"""
    tr = tree(tokenize(text))
    out = dict(settings=[], geometry=None, vertices=None, blocks=None, edges=None, faces=None, boundary=None,
               default=None, merged=None)
    i = 0
    while i < len(tr):
        key = tr[i]
        if not isinstance(key, str):
            raise ValueError("unexpected bracket at top level")
        nxt = tr[i + 1] if i + 1 < len(tr) else None
        if isinstance(nxt, list):
            i += 2
            if i < len(tr) and tr[i] == ";":
                i += 1
            if key == "FoamFile":
                continue
            if key == "geometry":
                out["geometry"] = nxt
            elif key == "defaultPatch":
                out["default"] = nxt
            elif key == "mergePatchPairs":
                out["merged"] = nxt
            elif key in ("vertices", "blocks", "edges", "faces", "boundary"):
                out[key] = nxt
            else:
                raise ValueError("unknown section " + key)
        else:
            j = i
            while tr[j] != ";":
                j += 1
            out["settings"].append(tr[i:j])
            i = j + 1
    for k in ("vertices", "blocks", "edges", "faces", "boundary", "merged"):
        if out[k] is None:
            raise ValueError("section %s missing" % k)
    # vertices: ['project'] (x y z) [(names)]
    vs = []
    body = out["vertices"][1:]
    i = 0
    while i < len(body):
        proj = False
        if body[i] == "project":
            proj = True
            i += 1
        v = body[i]
        i += 1
        labels = None
        if proj:
            labels = body[i][1:]
            i += 1
        vs.append(([float(x) for x in v[1:]], labels))
    out["vertices"] = vs
    # blocks
    bs = []
    body = out["blocks"][1:]
    i = 0
    while i < len(body):
        if body[i] != "hex":
            raise ValueError("blocks: expected hex")
        hexv = [int(x) for x in body[i + 1][1:]]
        i += 2
        zone = ""
        if isinstance(body[i], str):
            zone = body[i]
            i += 1
        counts = [int(x) for x in body[i][1:]]
        gkind = body[i + 1]
        specs = body[i + 2][1:]
        i += 3
        gr = []
        for sp in specs:
            if isinstance(sp, str):
                gr.append(float(sp))
            else:
                gr.append([[float(x) for x in sec[1:]] for sec in sp[1:]])
        bs.append(dict(hex=hexv, zone=zone, counts=counts, gkind=gkind, grading=gr))
    out["blocks"] = bs
    # boundary
    bd = {}
    order = []
    body = out["boundary"][1:]
    i = 0
    while i < len(body):
        name = body[i]
        d = body[i + 1]
        i += 2
        props, faces = [], None
        ent = d[1:]
        j = 0
        while j < len(ent):
            if ent[j] == "faces":
                faces = [[int(x) for x in q[1:]] for q in ent[j + 1][1:]]
                j += 2
                if j < len(ent) and ent[j] == ";":
                    j += 1
            else:
                k = j
                while ent[k] != ";":
                    k += 1
                props.append(ent[j:k])
                j = k + 1
        if name in bd:
            raise ValueError("patch %s written twice" % name)
        bd[name] = (props, faces)
        order.append(name)
    out["boundary"] = bd
    out["boundary_order"] = order
    out["merged"] = [m[1:] for m in out["merged"][1:]]
    if out["default"] is not None:
        ent = out["default"][1:]
        dd = {}
        j = 0
        while j < len(ent):
            dd[ent[j]] = ent[j + 1]
            j += 3
        out["default"] = dd
    return out


def close(a, b, tol=1e-9):
    """structural equality with 1e-9 relative tolerance on numbers"""
    if isinstance(a, (list, tuple)) and isinstance(b, (list, tuple)):
        return len(a) == len(b) and all(close(x, y, tol) for x, y in zip(a, b))
    if isinstance(a, dict) and isinstance(b, dict):
        return set(a) == set(b) and all(close(a[k], b[k], tol) for k in a)
    if isinstance(a, str) and isinstance(b, str):
        if a == b:
            return True
        x, y = num(a), num(b)
        return x is not None and y is not None and math.isclose(x, y, rel_tol=tol, abs_tol=tol)
    if isinstance(a, (int, float)) and isinstance(b, (int, float)):
        return math.isclose(a, b, rel_tol=tol, abs_tol=tol)
    return a == b


def files_differ(p, q):
    """first difference between two parsed files (patch order and face order within a patch not compared)"""
    for k in ("settings", "geometry", "vertices", "blocks", "edges", "faces", "default", "merged"):
        if not close(p[k], q[k]):
            return k
    if set(p["boundary"]) != set(q["boundary"]):
        return "boundary: patches %s vs %s" % (sorted(p["boundary"]), sorted(q["boundary"]))
    for n in p["boundary"]:
        (pr1, f1), (pr2, f2) = p["boundary"][n], q["boundary"][n]
        if pr1 != pr2:
            return "boundary: type/settings of %s: %s vs %s" % (n, pr1, pr2)
        if sorted(map(tuple, f1 or [])) != sorted(map(tuple, f2 or [])):
            return "boundary: faces of %s" % n
    return None


# ------------------------------------------------------------------------------------------------
# running a history on the implementation


class Impl:
    def __init__(self, ops_desc, workdir):
        cb = _cb()
        self.cb = cb
        self.mesh = cb.Mesh()
        # sides are projected to "geo" in the rich models: the user declares that surface once, on the mesh; it belongs to
        # the model like the operations do and is written by every later assembly, too
        if any(ex[0] == "project_side" for d in ops_desc for ex in d.get("extras", [])):
            self.mesh.add_geometry({"geo": ["type searchablePlane", "planeType pointAndNormal", "point (0 0 0)", "normal (0 0 1)"]})
        self.ops = [build_op(d) for d in ops_desc]
        self.path = os.path.join(workdir, "bmd_%d.txt" % os.getpid())
        self.nwrites = 0

    def points(self):
        return [[[float(x) for x in p] for p in op.point_array] for op in self.ops]

    def call(self, c):
        """returns an event (or None); raises what the implementation raises"""
        m = self.mesh
        k = c[0]
        if k == "add":
            m.add(self.ops[c[1]])
        elif k == "delete":
            m.delete(self.ops[c[1]])
        elif k == "assemble":
            m.assemble()
        elif k == "move":
            if c[1] < len(m.vertices):
                v = m.vertices[c[1]]
                v.move_to([v.position[j] + c[2][j] for j in range(3)])
        elif k == "backport":
            m.backport()
            return ("points", self.points())
        elif k == "clear":
            m.clear()
        elif k == "modify":
            m.modify_patch(c[1], c[2], None if c[3] is None else list(c[3]))
        elif k == "default":
            m.set_default_patch(c[1], c[2])
        elif k == "merge":
            m.merge_patches(c[1], c[2])
        elif k == "write":
            if os.path.exists(self.path):
                os.remove(self.path)
            m.write(self.path)
            self.nwrites += 1
            with open(self.path) as f:
                text = f.read()
            return ("file", parse_file(text))
        else:
            raise ValueError("unknown call %r" % (c,))
        return None


def run_impl(ops_desc, history, workdir):
    """-> (events, error or None)"""
    with warnings.catch_warnings():
        warnings.simplefilter("ignore")
        im = Impl(ops_desc, workdir)
        events = []
        for c in history:
            try:
                ev = im.call(c)
            except Exception as e:  # the exception class is part of the observable behaviour
                return events, type(e).__name__
            if ev is not None:
                events.append(ev)
        return events, None



def order_mismatch(ops_desc):
    """the model iterates Wire.coincident_list / Axis.neighbour_list in the insertion order of
    BlockList.update_neighbours (blocks ascending, wires by axis and position); None if the implementation does"""
    cb = _cb()
    with warnings.catch_warnings():
        warnings.simplefilter("ignore")
        mesh = cb.Mesh()
        for d in ops_desc:
            mesh.add(build_op(d))
        mesh.assemble()
        wid, aid, wires, axes = {}, {}, [], []
        for b, blk in enumerate(mesh.blocks):
            for a in range(3):
                aid[id(blk.axes[a])] = (b, a)
                axes.append((b, a))
                for k, w in enumerate(blk.axes[a].wires.wires):
                    wid[id(w)] = (b, a, k)
                    wires.append(((b, a, k), (w.vertices[0].index, w.vertices[1].index)))
        ends = dict(wires)

        def coin(u, v):
            return u[0] != v[0] and (ends[u] == ends[v] or ends[u] == ends[v][::-1])

        for b, blk in enumerate(mesh.blocks):
            for a in range(3):
                for k, w in enumerate(blk.axes[a].wires.wires):
                    got = [wid[id(c)] for c in w.coincident_list]
                    exp = [v for (v, _e) in wires if coin((b, a, k), v)]
                    if got != exp:
                        return "coincident_list of wire %r: %r, insertion order %r" % ((b, a, k), got, exp)
                got = [aid[id(x)] for x in blk.axes[a].neighbour_list]
                exp = [y for y in axes if y[0] != b and any(coin((b, a, k), (y[0], y[1], l)) for k in range(4) for l in range(4))]
                if got != exp:
                    return "neighbour_list of axis %r: %r, insertion order %r" % ((b, a), got, exp)
    return None


# ------------------------------------------------------------------------------------------------
# the direct oracle: abstract book-keeping of what the user did + a fresh mesh as the reference


class Oracle:
    def __init__(self, ops_desc, workdir):
        self.desc = [json.loads(json.dumps(d)) for d in ops_desc]  # expected state of the user's operations
        self.depot = []
        self.deleted = set()
        self.mods = []
        self.default = None
        self.merges = []
        self.snap = None  # dict(ops=[(key, desc)], nmerge=int, moves=[(i, d)])
        self.workdir = workdir

    def wellformed(self, c):
        """calls the generator never makes (the oracle has no reference for them)"""
        if c[0] == "assemble" and self.snap is not None and self.snap["ops"]:
            return False
        return True

    def _assemble(self):
        live = [k for k in self.depot if k not in self.deleted]
        self.snap = dict(ops=[(k, json.loads(json.dumps(self.desc[k]))) for k in live], nmerge=len(self.merges), moves=[])

    def assembled(self):
        return self.snap is not None and len(self.snap["ops"]) > 0

    def untouched(self):
        """depot, deleted set and merged pairs are those of the last assembly (what clear / backport re-assemble)"""
        live = [k for k in self.depot if k not in self.deleted]
        return live == [k for (k, _d) in self.snap["ops"]] and self.snap["nmerge"] == len(self.merges)

    def fresh(self):
        """a new mesh equivalent to what the history has built: the operations of the last assembly, added once,
        assembled once, vertices moved; patch types, default patch and merged pairs as set through the mesh"""
        cb = _cb()
        mesh = cb.Mesh()
        if any(ex[0] == "project_side" for d in self.desc for ex in d.get("extras", [])):
            mesh.add_geometry({"geo": ["type searchablePlane", "planeType pointAndNormal", "point (0 0 0)", "normal (0 0 1)"]})
        ops = [build_op(d) for (_k, d) in self.snap["ops"]]
        for op in ops:
            mesh.add(op)
        for (a, b) in self.merges[: self.snap["nmerge"]]:
            mesh.merge_patches(a, b)
        mesh.assemble()
        for (i, d) in self.snap["moves"]:
            if i < len(mesh.vertices):
                v = mesh.vertices[i]
                v.move_to([v.position[j] + d[j] for j in range(3)])
        for (a, b) in self.merges[self.snap["nmerge"]:]:
            mesh.merge_patches(a, b)
        for (n, k, s) in self.mods:
            mesh.modify_patch(n, k, None if s is None else list(s))
        if self.default:
            mesh.set_default_patch(*self.default)
        return mesh, ops

    def expect(self, c):
        """advance the book-keeping by one call; returns what must be observed:
        None | ('error', class) | ('file', parsed) | ('points', list)"""
        k = c[0]
        if k == "add":
            self.depot.append(c[1])
        elif k == "delete":
            self.deleted.add(c[1])
        elif k == "assemble":
            self._assemble()
        elif k == "move":
            if self.snap is not None:
                self.snap["moves"].append((c[1], c[2]))
        elif k == "clear":
            self.snap = None
        elif k == "modify":
            self.mods.append((c[1], c[2], c[3]))
        elif k == "default":
            self.default = (c[1], c[2])
        elif k == "merge":
            self.merges.append((c[1], c[2]))
        elif k == "backport":
            if not self.assembled():
                return ("error", "RuntimeError")
            mesh, _ops = self.fresh()
            for j, (key, _d) in enumerate(self.snap["ops"]):
                pos = [[float(x) for x in v.position] for v in mesh.blocks[j].vertices]
                self.desc[key]["pts"] = pos
            self._assemble()
            return ("points", [d["pts"] for d in self.desc])
        elif k == "write":
            if not self.assembled():
                self._assemble()
            if not self.assembled():
                return ("error", "RuntimeError")
            mesh, _ops = self.fresh()
            path = os.path.join(self.workdir, "ref_%d.txt" % os.getpid())
            try:
                mesh.write(path)
            except Exception as e:
                return ("error", type(e).__name__)
            with open(path) as f:
                return ("file", parse_file(f.read()))
        return None


def boundary_of(parsed):
    """'boundary' as written: [(name, properties, faces as a sorted list)] in file order"""
    return [(n, parsed["boundary"][n][0], sorted(map(tuple, parsed["boundary"][n][1] or []))) for n in parsed["boundary_order"]]


def roundtrip_failure(ops_desc, prefix, c, workdir, moved=False):
    """the law itself on the implementation: the file written after `prefix; c` (c = clear or backport, the model not
    touched since its assembly) lists the same patches in the same order with the same types and settings (and, for
    clear, the same faces) as the file written after `prefix` alone; None if it does (or if either write fails)"""
    files = []
    for h in (prefix, prefix + [c]):
        im = Impl(ops_desc, workdir)
        try:
            for x in h:
                im.call(x)
            files.append(im.call(["write"])[1])
        except Exception:
            return None
    a, b = boundary_of(files[0]), boundary_of(files[1])
    if [x[0] for x in a] != [x[0] for x in b]:
        return ("order", "after %s the patches are written as %s, without it as %s" % (c[0], [x[0] for x in b], [x[0] for x in a]))
    if [x[1] for x in a] != [x[1] for x in b]:
        return ("properties", "after %s the patch types/settings are %s, without it %s" % (c[0], [x[:2] for x in b], [x[:2] for x in a]))
    if c[0] == "clear" and a != b:
        return ("faces", "after clear the faces of the patches differ")
    if c[0] == "clear" and not moved and files_differ(files[0], files[1]):
        return ("file", "after clear the written file differs in " + files_differ(files[0], files[1]))
    return None


def oracle_history(ops_desc, history, workdir):
    """None if the implementation satisfies the property on this history, else a description of the failure"""
    with warnings.catch_warnings():
        warnings.simplefilter("ignore")
        im = Impl(ops_desc, workdir)
        orc = Oracle(ops_desc, workdir)
        nwrite = 0
        moved = False  # vertices moved since the last write of this assembly
        for step, c in enumerate(history):
            if not orc.wellformed(c):
                return dict(illformed=True, step=step)
            if c[0] in ("clear", "backport") and orc.assembled() and orc.untouched():
                rt = roundtrip_failure(ops_desc, history[:step], c, workdir, moved=bool(orc.snap["moves"]))
                if rt:
                    return dict(step=step, call=c, why="round trip: " + rt[1], sig="C12:%s:roundtrip:boundary-%s" % (c[0], rt[0]))
            try:
                got = im.call(c)
                err = None
            except Exception as e:
                got, err = None, type(e).__name__
            exp = orc.expect(c)
            if c[0] in ("assemble", "clear", "backport"):
                nwrite = 0  # writes since the lists were last rebuilt
                moved = False
            if c[0] == "write":
                nwrite += 1
            rep = ":repeated-write" if nwrite > 1 else ""
            if rep and moved:
                rep += ":after-move"
            if c[0] == "move":
                moved = True
            elif c[0] == "write":
                moved = False
            where = dict(step=step, call=c, nth_write_since_assembly=nwrite)
            if exp is not None and exp[0] == "error":
                if err == exp[1]:
                    return None  # both fail alike; the history ends here
                return dict(where, why="%s expected (the fresh mesh / the documented guard raises it), got %s" % (exp[1], err or "no error"),
                            sig="C12:%s:error-expected" % c[0])
            if err is not None:
                return dict(where, why="%s raised %s; the freshly built equivalent mesh does not" % (c[0], err),
                            sig="C12:%s:raises-%s%s" % (c[0], err, rep))
            if exp is None:
                continue
            if exp[0] == "file":
                diff = files_differ(got[1], exp[1])
                if diff:
                    tol = ""
                    if diff == "blocks" and close(got[1]["blocks"], exp[1]["blocks"], 2e-7):
                        tol = ":within-tolerance"  # equal up to constants.TOL (Grading.__eq__), not equal
                    return dict(where, why="written file differs from the file of a freshly built equivalent mesh in: " + diff
                                + (" (numbers equal up to 2e-7 relative)" if tol else ""),
                                sig="C12:write:differs:" + diff.split(":")[0] + (":" + diff.split(":")[1].strip().split(" ")[0] if ":" in diff else "") + tol + rep)
            elif exp[0] == "points":
                for j, (a, b) in enumerate(zip(got[1], exp[1])):
                    if not close(a, b):
                        return dict(where, why="after backport operation %d has points %s, expected %s" % (j, a, b),
                                    sig="C12:backport:points")
        return None


# ------------------------------------------------------------------------------------------------
# generation of histories (dynamic: follows the state of the implementation)


def gen_history(rng, ops_desc, nmax, workdir, add_all=False, again=0.0, calm=False, life=0.0):
    """returns (history, events, error); again: probability of one more write at the very end (write; write);
    calm: deletions and patch merges (both take chopped blocks / shared vertices away) are drawn four times less often;
    life: probability of a tail `[assemble]; modify_patch (patches the assembly created, new names, repeated) x 1..3;
    [write]; clear | backport; [modify]; write` - modifications that FOLLOW the assembly, then a round trip"""
    with warnings.catch_warnings():
        warnings.simplefilter("ignore")
        im = Impl(ops_desc, workdir)
        n = len(ops_desc)
        added, deleted = [], set()
        moved = {}
        hist, events = [], []
        length = rng.randint(3, nmax)
        if add_all:
            # the whole model first (the usual script), so that deletions and moves meet a populated mesh
            order = list(range(n))
            rng.shuffle(order)
            for k in order:
                hist.append(["add", k])
                im.call(hist[-1])
                added.append(k)
            length += n
        # most histories start by adding something
        while len(hist) < length:
            assembled = len(im.mesh.vertices) > 0
            r = rng.random()
            c = None
            if not added or r < 0.14:
                rest = [k for k in range(n) if k not in added]
                if rest:
                    c = ["add", rng.choice(rest) if rng.random() < 0.3 else rest[0]]
                    added.append(c[1])
            elif r < 0.22:
                cand = [k for k in range(n) if k not in deleted]
                if cand and len(deleted) < n - 1:
                    c = ["delete", rng.choice(cand)]
                    deleted.add(c[1])
            elif r < 0.34:
                if not assembled:
                    c = ["assemble"]
            elif r < 0.50:
                if assembled:
                    i = rng.randrange(len(im.mesh.vertices))
                    if moved.get(i, 0) < 2:
                        d = [rng.choice([-1, 0, 1]) for _ in range(3)]
                        if any(d):
                            moved[i] = moved.get(i, 0) + 1
                            c = ["move", i, d]
            elif r < 0.62:
                if assembled or rng.random() < 0.05:
                    c = ["backport"]
                    moved = {}
            elif r < 0.70:
                c = ["clear"]
                moved = {}
            elif r < 0.80:
                # type changes, settings-only changes (the type given is the one the patch has, the default
                # "patch" included), repeated changes of one patch, names no operation uses; before and after assemble
                prev = [x for x in hist if x[0] == "modify"]
                if prev and rng.random() < 0.35:
                    name = rng.choice(prev)[1]
                else:
                    name = rng.choice(NAMES + ["px"])
                last = [x for x in prev if x[1] == name]
                q = rng.random()
                if q < 0.35:
                    kind = last[-1][2] if last else "patch"  # no type change
                elif q < 0.5:
                    kind = "patch"
                else:
                    kind = rng.choice(KINDS[1:])
                c = ["modify", name, kind,
                     rng.choice([None, [], [rng.choice(SETTINGS)], [rng.choice(SETTINGS)], [SETTINGS[0], SETTINGS[2]]])]
            elif r < 0.84:
                c = ["default", rng.choice(NAMES + ["dflt"]), rng.choice(KINDS)]
            elif r < 0.87:
                a, b = rng.sample(NAMES, 2)
                c = ["merge", a, b]
            else:
                c = ["write"]
            if c is None:
                continue
            if calm and c[0] in ("delete", "merge") and rng.random() < 0.75:
                if c[0] == "delete":
                    deleted.discard(c[1])
                continue
            hist.append(c)
            try:
                ev = im.call(c)
            except Exception as e:
                return hist, events, type(e).__name__
            if ev is not None:
                events.append(ev)
        if not any(c[0] == "write" for c in hist[-2:]):
            hist.append(["write"])
            try:
                events.append(im.call(["write"]))
            except Exception as e:
                return hist, events, type(e).__name__
        if rng.random() < life and added and len(deleted) < len(set(added)):
            tail = []
            if not len(im.mesh.vertices) > 0:
                tail.append(["assemble"])
            try:
                for c in tail:
                    hist.append(c)
                    im.call(c)
                made = list(im.mesh.patch_list.patches.keys())
                used = []
                for _ in range(rng.randint(1, 3)):
                    q = rng.random()
                    if used and q < 0.25:
                        name = rng.choice(used)
                    elif made and q < 0.8:
                        name = rng.choice(made)
                    else:
                        name = rng.choice(NAMES + ["px"])
                    used.append(name)
                    c = ["modify", name, rng.choice(KINDS), rng.choice([None, [], [rng.choice(SETTINGS)], [SETTINGS[0], SETTINGS[2]]])]
                    hist.append(c)
                    im.call(c)
                seq = []
                if rng.random() < 0.4:
                    seq.append(["write"])
                seq.append(["clear"] if rng.random() < 0.6 else ["backport"])
                if rng.random() < 0.3:
                    seq.append(["modify", rng.choice(used + NAMES), rng.choice(KINDS), rng.choice([None, [SETTINGS[1]]])])
                if rng.random() < 0.3:
                    seq.append(["clear"] if rng.random() < 0.5 else ["backport"])
                seq.append(["write"])
                for c in seq:
                    hist.append(c)
                    ev = im.call(c)
                    if ev is not None:
                        events.append(ev)
            except Exception as e:
                return hist, events, type(e).__name__
        while rng.random() < again:
            again *= 0.3
            hist.append(["write"])
            try:
                events.append(im.call(["write"]))
            except Exception as e:
                return hist, events, type(e).__name__
        return hist, events, None


# ------------------------------------------------------------------------------------------------
# Coq literals


EXTRA_NAMES = ["dflt", "px"]  # names no operation ever uses (default patch, modify of an unused name)


def nid(name):
    if name in EXTRA_NAMES:
        return len(NAMES) + EXTRA_NAMES.index(name)
    return NAMES.index(name)


def nl(l):
    return "[" + "; ".join(str(int(x)) for x in l) + "]"


def zint(x):
    r = round(x)
    if abs(x - r) > 1e-9:
        raise ValueError("non-integer coordinate %r" % x)
    return core.coq_z(r)


def cpos(p):
    return "(%s, %s, %s)" % (zint(p[0]), zint(p[1]), zint(p[2]))


def coq_op(d):
    pat = ["None"] * 6
    for o, name in d["patches"].items():
        pat[slot_of(o)] = "Some %d" % nid(name)
    for a in range(3):
        for kw in d["chops"][a]:
            if set(kw) - {"count", "length_ratio"}:
                raise OutOfScope("chop %r" % (kw,))
    chops = "[" + "; ".join(nl([kw["count"] for kw in d["chops"][a]]) for a in range(3)) + "]"
    return "{| o_pts := [%s]; o_pat := [%s]; o_chops := %s |}" % ("; ".join(cpos(p) for p in d["pts"]), "; ".join(pat), chops)


def coq_call(c):
    k = c[0]
    if k == "add":
        return "Add %d" % c[1]
    if k == "delete":
        return "Delete %d" % c[1]
    if k == "assemble":
        return "Assemble"
    if k == "move":
        return "Move %d %s" % (c[1], cpos(c[2]))
    if k == "backport":
        return "Backport"
    if k == "clear":
        return "Clear"
    if k == "modify":
        s = "None" if c[3] is None else "(Some %s)" % nl([SETTINGS.index(x) for x in c[3]])
        return "ModifyPatch %d %d %s" % (nid(c[1]), KINDS.index(c[2]), s)
    if k == "default":
        return "SetDefault %d %d" % (nid(c[1]), KINDS.index(c[2]))
    if k == "merge":
        return "Merge %d %d" % (nid(c[1]), nid(c[2]))
    if k == "write":
        return "Write"
    raise ValueError(c)


class OutOfScope(Exception):
    pass


def coq_file(p, mode="half"):
    """the parsed file in the vocabulary of the model; anything the model cannot express raises OutOfScope
    (the case then counts as a mismatch: in-scope models never produce it)"""
    if p["edges"][1:] or p["faces"][1:] or p["geometry"] is not None:
        raise OutOfScope("edges/faces/geometry section not empty")
    if p["settings"] != [["scale", "1"]]:
        raise OutOfScope("settings %r" % (p["settings"],))
    vs = []
    for (xyz, labels) in p["vertices"]:
        if labels is not None:
            raise OutOfScope("projected vertex")
        vs.append(cpos(xyz))
    bs = []
    for b in p["blocks"]:
        nspec = {"simpleGrading": 3, "edgeGrading": 12}.get(b["gkind"])
        if b["zone"] or nspec is None or len(b["grading"]) != nspec:
            raise OutOfScope("block %r" % (b,))
        secs = []
        for j in range(nspec):
            a = j if nspec == 3 else j // 4
            g = b["grading"][j]
            if isinstance(g, float):
                if g != 1.0:
                    raise OutOfScope("expansion %r" % g)
                secs.append([b["counts"][a]])
            else:
                for (_r, _c, e) in g:
                    if e != 1.0:
                        raise OutOfScope("expansion %r" % e)
                cs = [int(c) for (_r, c, _e) in g]
                if len(cs) < 2 or any(c != x for c, (_r, x, _e) in zip(cs, g)):
                    raise OutOfScope("sections %r" % (g,))
                # the length ratios travel with the counts (one rule per model)
                want = ratios_for(cs, mode)
                if any(not math.isclose(r, w, rel_tol=1e-12) for (r, _c, _e), w in zip(g, want)):
                    raise OutOfScope("length ratios %r of sections %r (rule %s)" % ([r for (r, _c, _e) in g], cs, mode))
                secs.append(cs)
        bs.append("(%s, %s, [%s])" % (nl(b["hex"]), nl(b["counts"]), "; ".join(nl(s) for s in secs)))
    ps = []
    for name in p["boundary_order"]:
        props, faces = p["boundary"][name]
        if not props or props[0][0] != "type" or len(props[0]) != 2 or faces is None:
            raise OutOfScope("patch %s: %r" % (name, props))
        sets = [SETTINGS.index(" ".join(flat(x))) for x in props[1:]]
        ps.append("(%d, %d, %s, [%s])" % (nid(name), KINDS.index(props[0][1]), nl(sets), "; ".join(nl(q) for q in faces)))
    d = "None"
    if p["default"] is not None:
        d = "Some (%d, %d)" % (nid(p["default"]["name"]), KINDS.index(p["default"]["type"]))
    mg = "[" + "; ".join("(%d, %d)" % (nid(a), nid(b)) for (a, b) in p["merged"]) + "]"
    return "{| f_verts := [%s]; f_blocks := [%s]; f_patches := [%s]; f_default := %s; f_merged := %s |}" % (
        "; ".join(vs), "; ".join(bs), "; ".join(ps), d, mg)


def flat(x):
    """a settings entry as the words it was written from ('inGroups (g1)' is tokenised into a bracket)"""
    out = []
    for t in x:
        if isinstance(t, list):
            out.append(t[0] + " ".join(flat(t[1:])) + (")" if t[0] == "(" else "}"))
        else:
            out.append(t)
    return out


def coq_event(ev, mode="half"):
    if ev[0] == "file":
        return "EFile " + coq_file(ev[1], mode)
    return "EPoints [" + "; ".join("[" + "; ".join(cpos(p) for p in pts) + "]" for pts in ev[1]) + "]"


def coq_case(i, ops_desc, hist, events, err):
    store = "[" + "; ".join("(%d, %s)" % (k, coq_op(d)) for k, d in enumerate(ops_desc)) + "]"
    h = "[" + "; ".join(coq_call(c) for c in hist) + "]"
    mode = ops_desc[0].get("mode", "half") if ops_desc else "half"
    evs = "[" + ";\n     ".join(coq_event(e, mode) for e in events) + "]"
    if err is None:
        e = "None"
    elif err in ERR:
        e = "Some " + ERR[err]
    else:
        raise OutOfScope("exception " + err)
    return "(%d, %s,\n    %s,\n    (%s, %s))" % (i, store, h, evs, e)


def parse_id_list(so):
    m = re.search(r"=\s*\[(.*?)\]\s*:\s*list nat", so, flags=re.S)
    if not m:
        raise RuntimeError("cannot parse Coq output: %r" % so[:400])
    body = m.group(1).strip()
    return [int(x) for x in body.replace("\n", " ").split(";")] if body else []


# ------------------------------------------------------------------------------------------------
# tabulation of the constant tables the model is parameterised by


def tabulate():
    cb = _cb()
    with warnings.catch_warnings():
        warnings.simplefilter("ignore")
        pts = [[SPACING * x + (1 if (x, y, z) == (1, 1, 0) else 0), SPACING * y, SPACING * z] for (x, y, z) in XYZ]
        op = cb.Loft(cb.Face(pts[:4]), cb.Face(pts[4:]))
        for o in ORIENTS:
            op.set_patch(o, "t_" + o)
        for a in range(3):
            op.chop(a, count=2)
        mesh = cb.Mesh()
        mesh.add(op)
        mesh.assemble()
        if [v.index for v in mesh.blocks[0].vertices] != list(range(8)):
            raise GenError("single operation did not assemble to vertices 0..7")
        names = list(op.patch_names.keys())
        if sorted(names) != sorted(ORIENTS):
            raise GenError("patch_names of a fully patched operation: %r" % names)
        if [slot_of(o) for o in names] != list(range(6)):
            raise GenError("patch_names order %r is not bottom, top, SIDES_MAP order" % names)
        fm = []
        kinds = set()
        for o in names:
            p = mesh.patch_list.patches.get("t_" + o)
            if p is None or len(p.sides) != 1:
                raise GenError("patch of side %s not found" % o)
            q = [v.index for v in p.sides[0].vertices]
            if len(q) != 4 or any(not 0 <= c < 8 for c in q):
                raise GenError("side %s has vertices %r" % (o, q))
            fm.append(q)
            kinds.add(p.kind)
        if len(kinds) != 1 or list(kinds)[0] not in KINDS:
            raise GenError("default patch type %r" % kinds)
        ap = []
        for a in range(3):
            ws = mesh.blocks[0].axes[a].wires.wires
            prs = [tuple(int(c) for c in w.corners) for w in ws]
            if len(prs) != 4 or any(len(p) != 2 or not all(0 <= c < 8 for c in p) for p in prs):
                raise GenError("axis %d has wires %r" % (a, prs))
            ap.append(prs)
        return dict(orients=names, face_map=fm, axis_pairs=ap, default_kind=KINDS.index(list(kinds)[0]))


def emit_tables(t):
    o = ["(* GENERATED by harness/props/C12.py from the working tree of /repo -- do not edit *)",
         "From Coq Require Import List.", "From CB Require Import Model.C12_MeshLife.", "Import ListNotations.", "",
         "(* orients in the order of Operation.patch_names: %s *)" % ", ".join(t["orients"]),
         "Definition tab_face_map : list (list nat) := [%s]." % "; ".join(nl(q) for q in t["face_map"]),
         "Definition tab_axis_pairs : list (list (nat * nat)) := [%s]." % "; ".join(
             "[" + "; ".join("(%d, %d)" % p for p in prs) + "]" for prs in t["axis_pairs"]),
         "Definition tab_default_kind : nat := %d." % t["default_kind"],
         "Definition tb : tables := {| face_map := tab_face_map; axis_pairs := tab_axis_pairs; default_kind := tab_default_kind |}.",
         "(* orient -> position in the list of sides of Base/Hex.v (Bottom, Top, Left, Right, Front, Back) *)",
         "Definition tab_orient_side : list nat := %s." % nl([ORIENTS.index(x) for x in t["orients"]])]
    return "\n".join(o) + "\n"


# ------------------------------------------------------------------------------------------------


def shrink(ops_desc, hist, workdir, budget=60):
    """greedy removal of calls while the oracle still fails with the same signature"""
    first = oracle_history(ops_desc, hist, workdir)
    if not first or first.get("illformed"):
        return hist, first
    sig = first["sig"]
    hist = hist[: first["step"] + 1]
    changed = True
    while changed and budget > 0:
        changed = False
        for i in range(len(hist) - 1, -1, -1):
            cand = hist[:i] + hist[i + 1:]
            budget -= 1
            try:
                r = oracle_history(ops_desc, cand, workdir)
            except Exception:
                r = None
            if r and not r.get("illformed") and r["sig"] == sig:
                hist = cand[: r["step"] + 1]
                first = r
                changed = True
                break
            if budget <= 0:
                break
    return hist, first


def _box(x0, patches):
    return dict(pts=[[x0 + SPACING * x, SPACING * y, SPACING * z] for (x, y, z) in XYZ], patches=patches,
                chops=[[dict(count=2)], [dict(count=3)], [dict(count=4)]], extras=[])


# hand-picked regressions, run first on every check: the three defects of the original code (reconnaissance) and
# the stale-list cases found by the mutation self-test
CORPUS_OPS = [_box(0, {"left": "pa", "top": "pb"}), _box(SPACING, {"right": "pc", "top": "pb"}), _box(2 * SPACING, {})]
CORPUS = [
    [["add", 0], ["add", 1], ["write"], ["write"]],
    [["add", 0], ["modify", "pa", "wall", ["inGroups (g1)"]], ["assemble"], ["clear"], ["write"]],
    [["add", 0], ["add", 1], ["add", 2], ["delete", 0], ["assemble"], ["move", 0, [1, 0, -1]], ["backport"], ["write"]],
    [["add", 0], ["add", 1], ["assemble"], ["delete", 0], ["move", 9, [0, 1, 0]], ["backport"], ["write"]],
    [["add", 1], ["add", 0], ["assemble"], ["modify", "pb", "symmetry", None], ["clear"], ["delete", 1], ["write"], ["write"]],
    [["add", 0], ["add", 1], ["merge", "pa", "pc"], ["write"], ["backport"], ["write"]],
    # settings without a type change (seeded mutation: modify() returned early when the type was already the one given)
    [["add", 0], ["modify", "pa", "patch", ["inGroups (g1)"]], ["assemble"], ["clear"], ["write"]],
    [["add", 0], ["add", 1], ["assemble"], ["modify", "pb", "patch", ["transform none"]], ["move", 0, [0, 1, 0]], ["backport"], ["write"]],
    [["add", 0], ["modify", "pa", "wall", None], ["modify", "pa", "wall", ["neighbourPatch pb"]], ["write"], ["clear"],
     ["modify", "px", "patch", ["inGroups (g1)"]], ["write"], ["clear"], ["write"]],
]


def _rbox(x0, rot, chops, mode="prop"):
    base = [[x0 + SPACING * x, SPACING * y, SPACING * z] for (x, y, z) in XYZ]
    return dict(pts=[base[rot[c]] for c in range(8)], patches={}, chops=[chop_kwargs(c, mode) if c else [] for c in chops],
                extras=[], mode=mode)


# propagated gradings (chops on one block, the neighbours turned so that sections arrive reversed), written twice,
# moved, back-ported
_TURN = [2, 3, 0, 1, 6, 7, 4, 5]      # half turn about z: local x and y run against the global ones
_ROLL = [1, 5, 6, 2, 0, 4, 7, 3]      # local x = global z, local y = global y, local z = -global x
CORPUS_P_OPS = [_rbox(0, list(range(8)), [[2], [1, 3], [2, 1, 2]]), _rbox(SPACING, _TURN, [[5], [], []]),
                _rbox(2 * SPACING, _ROLL, [[], [], [3]])]
CORPUS_P = [
    [["add", 1], ["add", 0], ["write"], ["write"]],
    [["add", 0], ["add", 1], ["add", 2], ["write"], ["write"], ["write"]],
    [["add", 2], ["add", 1], ["add", 0], ["write"], ["move", 3, [0, 1, 0]], ["write"], ["backport"], ["write"], ["write"]],
    [["add", 1], ["add", 2], ["write"]],                      # nobody chops y and z there: UndefinedGradingsError
    [["add", 0], ["add", 1], ["write"], ["delete", 0], ["backport"], ["write"]],
]


# a block between two chopped ones that split the same count differently: its wires carry different gradings (edgeGrading)
CORPUS_E_OPS = [_rbox(0, list(range(8)), [[2], [2], [1, 2]]), _rbox(SPACING, list(range(8)), [[2], [], []]),
                _rbox(2 * SPACING, list(range(8)), [[2], [2], [2, 1]])]
CORPUS_E = [
    [["add", 0], ["add", 1], ["add", 2], ["write"], ["write"]],
    [["add", 2], ["add", 1], ["add", 0], ["write"], ["move", 0, [1, 0, 0]], ["write"], ["backport"], ["write"]],
]


def _ebox(x, y, zchop):
    pts = [[x + dx, y + dy, dz] for (dx, dy, dz) in XYZ]
    return dict(pts=pts, patches={}, chops=[[dict(count=3)], [dict(count=3)], zchop], extras=[])


# Regression probes of the defect repaired by fixes/C12-4.diff (/repo 79421ab), both outside the scope of the Coq model
# (expansions, counts that follow lengths) and judged by the direct oracle: blocks graded by propagation kept the chops
# and wire gradings copied in the first grade().  They run when their signature is registered in known_findings.json
# (status fixed: they must pass; status open: reported as KNOWN-FINDING).
# 1. a wire of an un-chopped axis that is defined by neighbours graded before it took, on the second write, the
#    tolerance-equal grading of a neighbour graded after it;
# 2. write; move vertices; write raised InconsistentGradingsError when the count of the chopped neighbour follows the
#    edge lengths (start_size): the propagated block kept the count of the first run.
MOVE_SIG = "C12:write:raises-InconsistentGradingsError:repeated-write:after-move"
MOVE_OPS = [dict(pts=[[x, y, z] for (x, y, z) in XYZ], patches={}, extras=[],
                 chops=[[dict(count=4)], [dict(start_size=0.1)], [dict(count=4)]]),
            dict(pts=[[1 + x, y, z] for (x, y, z) in XYZ], patches={}, extras=[], chops=[[dict(count=4)], [], []])]
MOVE_HISTORY = [["add", 0], ["add", 1], ["write"], ["move", 2, [0, 1, 0]], ["move", 3, [0, 1, 0]], ["move", 6, [0, 1, 0]],
                ["move", 7, [0, 1, 0]], ["move", 9, [0, 1, 0]], ["move", 11, [0, 1, 0]], ["write"]]
TOLERANCE_SIG = "C12:write:differs:blocks:within-tolerance:repeated-write"
TOLERANCE_OPS = [_ebox(0, 1, [dict(count=10, total_expansion=2.0)]), _ebox(2, 1, [dict(count=10, total_expansion=2.0)]),
                 _ebox(1, 1, []), _ebox(1, 0, [dict(count=10, total_expansion=2.0 + 1e-8)])]
TOLERANCE_HISTORY = [["add", 0], ["add", 1], ["add", 2], ["add", 3], ["write"], ["write"]]


class C12(Prop):
    pid = "C12"
    title = "assemble/clear/backport/delete/write round-trips preserve the model"
    prebuilt = ["Base/Hex.v", "Model/Propagate.v", "Proofs/PropagateBasics.v", "Proofs/PropagateTerm.v", "Proofs/PropagateInv.v",
                "Proofs/PropagateInit.v", "Proofs/PropagateShort.v", "Proofs/PropagateFinal.v", "Model/C04_Payload.v",
                "Model/C12_Regrade.v", "Proofs/C12_Regrade.v", "Model/C12_MeshLife.v", "Proofs/C12_Lists.v",
                "Proofs/C12_MeshLife.v", "Proofs/C12_Roundtrip.v", "Proofs/C12_Refute.v", "Proofs/C12_Tolerance.v"]
    gen_dependent_files = ["Gen/C12/Tables.v"]
    property_files = ["Properties/C12.v"]
    trusted = [
        "tabulation: corners of the six sides in Operation.patch_names order, corner pairs of the twelve wires per axis, "
        "default patch type, observed on a single assembled Loft",
        "parser of the written blockMeshDict (comments dropped, brackets nested) and the mapping of names / types / "
        "settings strings to numbers",
        "scope of the hand model: single-Operation entities with straight edges, integer coordinates, count-only chops "
        "(one or several per axis, or none: counts and gradings propagated from neighbours are inside the model); a chop is "
        "its count, a grading the list of its section counts - the length ratios of multi-section chops follow one rule per "
        "generated model (checked on every written file), every total expansion is 1; histories outside the scope (size "
        "chops, arcs, projections, zones) are judged by the direct oracle only",
        "Model/Propagate.v (C01/C02) as the transcription of grade_blocks / propagate_gradings / check_consistency; the "
        "iteration order of Wire.coincident_list and Axis.neighbour_list is taken to be the insertion order (compared with "
        "the implementation on every generated model; the theorems hold for every order)",
        "history correspondence is sampled (random histories), not exhaustive",
    ]
    partial = [
        "C12_write_idempotent / C12_grade_state_independent are proved of the count model (a chop is its count). That the reset "
        "of fixes/C12-4.diff makes a repeated grade the first-run function again holds for any payload by the same argument, "
        "but gradings with expansions and counts that follow edge lengths (start_size) are not in Model/C12_MeshLife.v: "
        "there the repair is exercised on the implementation only (the two regression probes of corpus/C12 and the rich "
        "histories of the direct oracle). C12_second_write_exact_with_expansions_refuted and C12_*_without_reset "
        "describe the code BEFORE that repair",
    ]

    def generate(self, ctx):
        t = tabulate()
        ctx.write_gen("Tables", emit_tables(t))
        self._tables = t

    def _cases(self, ctx, n, rich, nmax, prop=False):
        out = []
        for _ in range(n):
            if prop:
                ops_desc = gen_prop_model(ctx.rng)
                hist, events, err = gen_history(ctx.rng, ops_desc, nmax, ctx.work, add_all=ctx.rng.random() < 0.9, again=0.75, calm=True, life=0.15)
            else:
                ops_desc = gen_model(ctx.rng, rich)
                hist, events, err = gen_history(ctx.rng, ops_desc, nmax, ctx.work, add_all=ctx.rng.random() < (0.7 if rich else 0.3),
                                                life=0.4)
            out.append((ops_desc, hist, events, err))
        return out

    def correspond(self, ctx):
        res = CorrResult()
        res.rule = ("random histories (3..%d calls) of add/delete/assemble/move/backport/clear/modify_patch/"
                    "set_default_patch/merge_patches/write on 1..4 lofts of a jittered integer lattice - every axis chopped, "
                    "or (second class) corners listed from a random corner in a random orientation and chops on one axis per "
                    "family of block directions (sometimes two, all, none, or conflicting), one to three sections, the rest "
                    "propagated, most histories ending in write; write; 40 %% of the histories of the first class end in a tail "
                    "`[assemble]; modify_patch x 1..3 (patches the assembly created, new names, repeated); [write]; clear | "
                    "backport; [modify]; [clear | backport]; write`; compared inside Coq with "
                    "`run fixed tb (init store) history`: every written file (vertices, hex indexes, counts, simple/edgeGrading "
                    "choice with the section counts of each printed wire, patches with type/settings/faces, defaultPatch, "
                    "mergePatchPairs; 'boundary' in the order written), every operation's points after each backport, and the exception class that ends the "
                    "history; non-trivial = at least one of clear/backport/delete and a write after it, or two writes; "
                    "distinct by (model, history)" % ctx.n(12, 30))
        import time
        t0 = time.time()
        nmax = ctx.n(12, 30)
        plain = []
        for h in CORPUS:
            ev, er = run_impl(CORPUS_OPS, h, ctx.work)
            plain.append((CORPUS_OPS, h, ev, er))
            res.count("corpus")
        for (cops, chs) in ((CORPUS_P_OPS, CORPUS_P), (CORPUS_E_OPS, CORPUS_E)):
            for h in chs:
                ev, er = run_impl(cops, h, ctx.work)
                plain.append((cops, h, ev, er))
                res.count("corpus")
        plain += self._cases(ctx, ctx.n(300, 4000), False, nmax)
        nplain = len(plain)
        plain += self._cases(ctx, ctx.n(260, 3000), False, nmax, prop=True)
        rich = self._cases(ctx, ctx.n(160, 2000), True, nmax)
        # iteration order of coincident wires / neighbour axes: the model's is the insertion order
        seen_models = set()
        for (ops_desc, hist, _ev, _er) in plain:
            key = json.dumps(ops_desc, sort_keys=True)
            if key in seen_models:
                continue
            seen_models.add(key)
            why = order_mismatch(ops_desc)
            res.count("order_checked")
            if why:
                res.mismatches.append(dict(ops=ops_desc, history=hist, why="iteration order assumed by the model: " + why))
        ctx.log("S3: %d histories run on the implementation in %.1fs" % (len(plain) + len(rich), time.time() - t0))
        t0 = time.time()
        coq_cases = []
        for i, (ops_desc, hist, events, err) in enumerate(plain):
            res.evaluations += 1
            res.count("len=%d" % min(len(hist), 31))
            res.count("ops=%d" % len(ops_desc))
            res.count("outcome=" + (err or "ok"))
            for c in hist:
                res.count("call=" + c[0])
            kinds = [c[0] for c in hist]
            if any(not d["chops"][a] for d in ops_desc for a in range(3)):
                res.count("propagated")
                res.count("propagated_outcome=" + (err or "ok"))
                run_len = best = 0
                for k in kinds:
                    run_len = run_len + 1 if k == "write" else (run_len if k in ("move", "modify", "default", "merge") else 0)
                    best = max(best, run_len)
                if err is None and best >= 2:
                    res.count("propagated_written_twice")
                if any(len(d["chops"][a]) > 1 for d in ops_desc for a in range(3)):
                    res.count("propagated_multi_section")
            for ev in events:
                if ev[0] == "file" and any(b["gkind"] == "edgeGrading" for b in ev[1]["blocks"]):
                    res.count("edgeGrading_written")
                    break
            nontrivial = kinds.count("write") >= 2 or any(
                k in ("clear", "backport", "delete") and "write" in kinds[j + 1:] for j, k in enumerate(kinds))
            if nontrivial:
                res.distinct.add(json.dumps([ops_desc, hist], sort_keys=True))
            try:
                coq_cases.append((i, coq_case(i, ops_desc, hist, events, err)))
            except (OutOfScope, ValueError) as e:
                res.mismatches.append(dict(case=i, ops=ops_desc, history=hist, error=err,
                                           why="implementation output outside the vocabulary of the model: %s" % e))
        if plain:
            o, h, ev, er = plain[0]
            res.samples.append(dict(ops=o, history=h, error=er, n_events=len(ev)))
        # model side, inside Coq
        shards = []
        per = ctx.n(40, 400)
        for k in range(0, len(coq_cases), per):
            chunk = coq_cases[k:k + per]
            body = ["From Coq Require Import List Bool Arith ZArith.",
                    "From CB Require Import Model.C12_MeshLife Gen.C12.Tables.", "Import ListNotations.",
                    "Definition cases : list (nat * list (nat * op) * list call * (list event * option error)) := [",
                    ";\n".join(t for (_i, t) in chunk), "].",
                    "Eval vm_compute in (map (fun c => fst (fst (fst c))) (filter (fun c => "
                    "negb (result_eqb (run fixed tb (init (snd (fst (fst c)))) (snd (fst c))) (snd c))) cases))."]
            shards.append(("cases_%d" % (k // per), "\n".join(body) + "\n"))
        for (name, rc, so, se) in core.run_cases_parallel(ctx, shards):
            if rc != 0:
                res.error = "case file %s failed to compile: %s" % (name, se[-800:])
                return res
            for i in parse_id_list(so):
                o, h, ev, er = plain[i]
                res.mismatches.append(dict(case=i, ops=o, history=h, error=er, why="model and implementation disagree"))
        res.traces = len(coq_cases)
        ctx.log("S3: model evaluated inside Coq on %d histories (%d files) in %.1fs" % (len(coq_cases), len(shards), time.time() - t0))
        t0 = time.time()
        # direct oracle on every case (plain and rich)
        seen = set()
        for (ops_desc, hist, _ev, _er) in plain + rich:
            r = oracle_history(ops_desc, hist, ctx.work)
            if r and not r.get("illformed"):
                if r["sig"] in seen:
                    continue
                seen.add(r["sig"])
                h2, r2 = shrink(ops_desc, hist, ctx.work)
                res.oracle_failures.append(dict(kind="history", ops=ops_desc, history=h2, why=r2["why"], at=r2["step"], sig=r2["sig"]))
        # regression probes of the stale-propagated-gradings defect (fixes/C12-4.diff): registered as fixed, they must pass
        registered = set(f.get("signature") for f in core.load_findings())
        for (psig, pops, phist, label) in ((MOVE_SIG, MOVE_OPS, MOVE_HISTORY, "move_probe"),
                                           (TOLERANCE_SIG, TOLERANCE_OPS, TOLERANCE_HISTORY, "tolerance_probe")):
            if psig not in registered:
                res.notes.append("%s (%s) not run: the signature is not registered in known_findings.json; reproduction in "
                                 "notes/C12.md and corpus/C12/" % (label, psig))
                continue
            r = oracle_history(pops, phist, ctx.work)
            res.count(label + "=" + ("fails" if r else "passes"))
            if r and not r.get("illformed") and r["sig"] not in seen:
                seen.add(r["sig"])
                res.oracle_failures.append(dict(kind="history", ops=pops, history=phist, why=r["why"], at=r["step"], sig=r["sig"]))
        ctx.log("S3: direct oracle on %d histories in %.1fs, %d failure(s)" % (len(plain) + len(rich), time.time() - t0, len(res.oracle_failures)))
        for (_o, h, _e, er) in rich:
            res.count("rich_outcome=" + (er or "ok"))
        res.notes.append("%d histories compared with the Coq model (%d of them on models with propagated gradings), %d "
                         "further histories on models outside its scope (size chops, arcs, projections, zones) judged by the "
                         "direct oracle only" % (len(coq_cases), len(plain) - nplain + len(CORPUS_P) + len(CORPUS_E), len(rich)))
        self._plain = plain
        return res

    def search(self, ctx, broken, corr):
        fails = []
        seen = set(f["sig"] for f in corr.oracle_failures)
        # mismatching cases first, then a seeded random search
        pool = [(m["ops"], m["history"]) for m in corr.mismatches[:20] if "ops" in m]
        for _ in range(ctx.n(150, 1500)):
            if ctx.rng.random() < 0.3:
                ops_desc = gen_prop_model(ctx.rng)
                hist, _ev, _er = gen_history(ctx.rng, ops_desc, ctx.n(14, 30), ctx.work, add_all=True, again=0.75, calm=True)
            else:
                ops_desc = gen_model(ctx.rng, ctx.rng.random() < 0.4)
                hist, _ev, _er = gen_history(ctx.rng, ops_desc, ctx.n(14, 30), ctx.work)
            pool.append((ops_desc, hist))
        for (ops_desc, hist) in pool:
            try:
                r = oracle_history(ops_desc, hist, ctx.work)
            except Exception as e:
                r = dict(step=len(hist) - 1, why="oracle raised %s: %s" % (type(e).__name__, e), sig="C12:oracle-error")
            if r and not r.get("illformed") and r["sig"] not in seen:
                seen.add(r["sig"])
                h2, r2 = shrink(ops_desc, hist, ctx.work)
                fails.append(dict(kind="history", ops=ops_desc, history=h2, why=r2["why"], at=r2["step"], sig=r2["sig"]))
        return fails

    def signature(self, rp):
        return rp.get("sig") or "C12:%s" % rp.get("kind")

    def replay(self, ctx, obj):
        if obj.get("kind") != "history":
            print("nothing to replay:", obj.get("kind"), obj.get("note", ""))
            return 0
        ev, err = run_impl(obj["ops"], obj["history"], ctx.work)
        print("history:", json.dumps(obj["history"]))
        print("implementation: %d event(s), error=%s" % (len(ev), err))
        r = oracle_history(obj["ops"], obj["history"], ctx.work)
        print("oracle:", "ok" if not r else r.get("why", r))
        return 0


PROP = C12()
