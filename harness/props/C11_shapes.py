"""C11 helper: catalogue of predefined shapes / stacks / joints / chains (DESIGN Appendix E), built by
calling the real constructors of /repo with *placed* arguments, the documented chop calls, and the
observation after Mesh.assemble().  No property logic in here (that is in C11.py: oracle + tables).

A placement is a similarity  x -> s*R*x + t  applied to the ARGUMENTS of the constructors (points,
vectors, directions of arbitrary length, lengths), never to the finished shape, so that the
orientation handling inside the constructors is what gets exercised.
"""
import math
import warnings

import numpy as np


def _cb():
    import classy_blocks as cb
    return cb


class Placement:
    """x -> s R x + t ; directions get an extra arbitrary positive factor k (normals need not be unit)."""

    def __init__(self, R=None, s=1.0, t=(0.0, 0.0, 0.0), k=1.0, signs=(1, 1, 1)):
        self.R = np.eye(3) if R is None else np.asarray(R, dtype=float)
        self.s = float(s)
        self.t = np.asarray(t, dtype=float)
        self.k = float(k)
        self.signs = tuple(signs)

    @property
    def canonical(self):
        return bool(np.allclose(self.R, np.eye(3)) and self.s == 1.0 and not self.t.any() and self.k == 1.0)

    def p(self, x):
        return self.s * (self.R @ np.asarray(x, dtype=float)) + self.t

    def v(self, x):
        return self.s * (self.R @ np.asarray(x, dtype=float))

    def d(self, x):
        return self.k * (self.R @ np.asarray(x, dtype=float))

    def u(self, x):
        """rotated, unscaled (unit stays unit)"""
        return self.R @ np.asarray(x, dtype=float)

    def l(self, x):
        return self.s * float(x)

    def to_json(self):
        return dict(R=[[float(a) for a in r] for r in self.R], s=self.s, t=[float(a) for a in self.t], k=self.k,
                    signs=list(self.signs))

    @staticmethod
    def from_json(o):
        return Placement(o["R"], o["s"], o["t"], o["k"], o.get("signs", (1, 1, 1)))


def random_placement(rng):
    # random rotation from a random unit quaternion
    q = np.array([rng.gauss(0, 1) for _ in range(4)])
    q /= np.linalg.norm(q)
    a, b, c, d = q
    R = np.array([
        [a * a + b * b - c * c - d * d, 2 * (b * c - a * d), 2 * (b * d + a * c)],
        [2 * (b * c + a * d), a * a - b * b + c * c - d * d, 2 * (c * d - a * b)],
        [2 * (b * d - a * c), 2 * (c * d + a * b), a * a - b * b - c * c + d * d],
    ])
    s = 10 ** rng.uniform(-1.0, 1.0)
    t = [rng.uniform(-5, 5) * s for _ in range(3)]
    k = 10 ** rng.uniform(-1.0, 1.0)
    signs = [rng.choice((-1, 1)) for _ in range(3)]
    return Placement(R, s, t, k, signs)


class Built:
    def __init__(self, entities, shapes=None, circles=None, expect_nv=None, interfaces=None, note=""):
        self.entities = entities            # what is added to the mesh, in order
        self.shapes = shapes or entities    # the parts between which interfaces are declared
        self.circles = circles or []        # dict(c=, n=, r=, count=) : intended circles of outer arcs
        self.expect_nv = expect_nv          # closed-form vertex count (None: only compared with canonical)
        # dict(i=, j=, fa=[local block idx of shape i], sa=side, fb=[...], sb=side, count=expected shared vertices)
        self.interfaces = interfaces or []
        self.note = note


# ------------------------------------------------------------------------------------------------
# sketches

SKETCHES = ["OneCoreDisk", "QuarterDisk", "HalfDisk", "FourCoreDisk", "WrappedDisk", "Oval",
            "QuarterSplineDisk", "HalfSplineDisk", "SplineDisk", "QuarterSplineRing", "HalfSplineRing", "SplineRing"]
# number of distinct points of the sketch (closed form used for vertex counts: 2 layers)
SKETCH_POINTS = {"OneCoreDisk": 8, "QuarterDisk": 7, "HalfDisk": 11, "FourCoreDisk": 17, "WrappedDisk": 12, "Oval": 22,
                 "QuarterSplineDisk": 7, "HalfSplineDisk": 11, "SplineDisk": 17,
                 "QuarterSplineRing": 6, "HalfSplineRing": 10, "SplineRing": 16}
SKETCH_FACES = {"OneCoreDisk": 5, "QuarterDisk": 3, "HalfDisk": 6, "FourCoreDisk": 12, "WrappedDisk": 9, "Oval": 16,
                "QuarterSplineDisk": 3, "HalfSplineDisk": 6, "SplineDisk": 12,
                "QuarterSplineRing": 2, "HalfSplineRing": 4, "SplineRing": 8}


def make_sketch(P, name, sides=False):
    """Sketch in the plane z=0 of the canonical frame (normal +z), placed by P."""
    cb = _cb()
    from classy_blocks.construct.flat.sketches.disk import QuarterDisk
    o = [0.0, 0.0, 0.0]
    if name == "OneCoreDisk":
        return cb.OneCoreDisk(P.p(o), P.p([1, 0, 0]), P.d([0, 0, 1]))
    if name == "QuarterDisk":
        return QuarterDisk(P.p(o), P.p([1, 0, 0]), P.d([0, 0, 1]))
    if name == "HalfDisk":
        return cb.HalfDisk(P.p(o), P.p([1, 0, 0]), P.d([0, 0, 1]))
    if name == "FourCoreDisk":
        return cb.FourCoreDisk(P.p(o), P.p([1, 0, 0]), P.d([0, 0, 1]))
    if name == "WrappedDisk":
        return cb.WrappedDisk(P.p(o), P.p([2, 2, 0]), P.l(1.0), P.d([0, 0, 1]))
    if name == "Oval":
        return cb.Oval(P.p(o), P.p([2, 0, 0]), P.d([0, 0, 1]), P.l(1.0))
    s1, s2 = (P.l(0.3), P.l(0.2)) if sides else (0.0, 0.0)
    c1 = [1.0 + (0.3 if sides else 0.0), 0, 0]
    c2 = [0, 1.0 + (0.2 if sides else 0.0), 0]
    if name in ("QuarterSplineDisk", "HalfSplineDisk", "SplineDisk"):
        return getattr(cb, name)(P.p(o), P.p(c1), P.p(c2), s1, s2)
    if name in ("QuarterSplineRing", "HalfSplineRing", "SplineRing"):
        # unequal widths on the two axes (the quarters of a half / full ring must agree on both)
        return getattr(cb, name)(P.p(o), P.p(c1), P.p(c2), s1, s2, P.l(0.2), P.l(0.3))
    raise KeyError(name)


def sketch_circles(P, name, z=0.0):
    """intended circle of the outer arcs of a disk sketch at height z of the canonical frame"""
    n = P.u([0, 0, 1])
    if name in ("OneCoreDisk", "FourCoreDisk"):
        return [dict(c=P.p([0, 0, z]), n=n, r=P.l(1.0), arcs={"OneCoreDisk": 4, "FourCoreDisk": 8}[name])]
    if name == "QuarterDisk":
        return [dict(c=P.p([0, 0, z]), n=n, r=P.l(1.0), arcs=2)]
    if name == "HalfDisk":
        return [dict(c=P.p([0, 0, z]), n=n, r=P.l(1.0), arcs=4)]
    if name == "WrappedDisk":
        return [dict(c=P.p([0, 0, z]), n=n, r=P.l(1.0), arcs=4)]
    if name == "Oval":
        return [dict(c=P.p([0, 0, z]), n=n, r=P.l(1.0), arcs=4), dict(c=P.p([2, 0, z]), n=n, r=P.l(1.0), arcs=4)]
    return []


def chop_lofted(shape, counts=(3, 4, 5)):
    """the documented per-axis chops of a shape lofted from a sketch"""
    for axis in (0, 1, 2):
        shape.chop(axis, count=counts[axis])


def chop_round(shape, counts=(3, 4, 5)):
    shape.chop_axial(count=counts[0])
    shape.chop_radial(count=counts[1])
    shape.chop_tangential(count=counts[2])


# ------------------------------------------------------------------------------------------------
# builders; each takes the placement and the topology parameters


def b_box(P):
    cb = _cb()
    a = P.t
    d = a + P.s * np.array([1.0 * P.signs[0], 1.3 * P.signs[1], 0.7 * P.signs[2]])
    op = cb.Box(a, d)
    for i in range(3):
        op.chop(i, count=3 + i)
    return Built([op], expect_nv=8)


QUAD = [[0, 0, 0], [1, 0, 0], [1.2, 1, 0], [0.1, 0.9, 0]]


def b_extrude(P, vector=False):
    cb = _cb()
    face = cb.Face([P.p(q) for q in QUAD])
    op = cb.Extrude(face, P.v([0.2, -0.1, 0.8])) if vector else cb.Extrude(face, P.l(0.8))
    for i in range(3):
        op.chop(i, count=3 + i)
    return Built([op], expect_nv=8)


def b_loft(P):
    cb = _cb()
    bottom = cb.Face([P.p(q) for q in QUAD])
    top = cb.Face([P.p([0.1, 0.1, 1]), P.p([0.9, 0.0, 1.1]), P.p([1.0, 0.8, 0.9]), P.p([0.2, 1.0, 1.0])])
    op = cb.Loft(bottom, top)
    for i in range(3):
        op.chop(i, count=3 + i)
    return Built([op], expect_nv=8)


def b_revolve(P):
    cb = _cb()
    face = cb.Face([P.p([0, 1, 0]), P.p([1, 1, 0]), P.p([1.1, 2, 0]), P.p([0.1, 1.9, 0])])
    op = cb.Revolve(face, 0.7, P.d([1, 0, 0]), P.p([0.3, 0, 0]))
    for i in range(3):
        op.chop(i, count=3 + i)
    return Built([op], expect_nv=8)


def b_wedge(P):
    """Wedge lives in the x-y plane around the x axis by definition: only in-plane freedom
    (x translation, scale) is used from the placement."""
    cb = _cb()
    s, tx = P.s, float(P.t[0])
    face = cb.Face([[tx, s * 0.5, 0], [tx + s, s * 0.5, 0], [tx + 1.1 * s, s * 1.5, 0], [tx + 0.1 * s, s * 1.4, 0]])
    op = cb.Wedge(face) if P.signs[0] > 0 else cb.Wedge(face, 0.05 * P.k)
    op.chop(0, count=3)
    op.chop(1, count=4)
    return Built([op], expect_nv=8)


def b_extruded_shape(P, sketch, sides=False):
    cb = _cb()
    sk = make_sketch(P, sketch, sides)
    sh = cb.ExtrudedShape(sk, P.l(1.5))
    chop_lofted(sh)
    circ = sketch_circles(P, sketch, 0.0) + sketch_circles(P, sketch, 1.5)
    return Built([sh], circles=circ, expect_nv=2 * SKETCH_POINTS[sketch])


def b_revolved_shape(P, sketch):
    """sketch revolved about an in-plane axis through (0,-5,0) along x: the sketch (y > -5) moves towards +z"""
    cb = _cb()
    sk = make_sketch(P, sketch)
    sh = cb.RevolvedShape(sk, 0.6, P.d([1, 0, 0]), P.p([0, -5, 0]))
    chop_lofted(sh)
    return Built([sh], circles=sketch_circles(P, sketch, 0.0), expect_nv=2 * SKETCH_POINTS[sketch])


def b_lofted_shape(P, sketch, nmid=1):
    cb = _cb()
    sk = make_sketch(P, sketch)
    mids = [sk.copy().translate(P.v([0.05 * (i + 1), 0.02, 1.0 * (i + 1) / (nmid + 1)])) for i in range(nmid)]
    sk2 = sk.copy().translate(P.v([0, 0, 1.0])).rotate(0.2, P.d([0, 0, 1]), P.p([0, 0, 1.0]))
    sh = cb.LoftedShape(sk, sk2, mids if nmid else None)
    chop_lofted(sh)
    return Built([sh], circles=sketch_circles(P, sketch, 0.0), expect_nv=2 * SKETCH_POINTS[sketch])


def _cyl(P, z0=0.0, z1=2.0, r=1.0):
    cb = _cb()
    return cb.Cylinder(P.p([0, 0, z0]), P.p([0, 0, z1]), P.p([r, 0, z0]))


def b_cylinder(P):
    sh = _cyl(P)
    chop_round(sh)
    n = P.u([0, 0, 1])
    return Built([sh], circles=[dict(c=P.p([0, 0, 0]), n=n, r=P.l(1), arcs=8), dict(c=P.p([0, 0, 2]), n=n, r=P.l(1), arcs=8)],
                 expect_nv=34)


def b_semicylinder(P):
    cb = _cb()
    sh = cb.SemiCylinder(P.p([0, 0, 0]), P.p([0, 0, 2]), P.p([1, 0, 0]))
    chop_round(sh)
    n = P.u([0, 0, 1])
    return Built([sh], circles=[dict(c=P.p([0, 0, 0]), n=n, r=P.l(1), arcs=4), dict(c=P.p([0, 0, 2]), n=n, r=P.l(1), arcs=4)],
                 expect_nv=22)


def b_frustum(P, mid=False):
    cb = _cb()
    sh = cb.Frustum(P.p([0, 0, 0]), P.p([0, 0, 2]), P.p([1, 0, 0]), P.l(0.4), P.l(0.9) if mid else None)
    chop_round(sh)
    n = P.u([0, 0, 1])
    return Built([sh], circles=[dict(c=P.p([0, 0, 0]), n=n, r=P.l(1), arcs=8), dict(c=P.p([0, 0, 2]), n=n, r=P.l(0.4), arcs=8)],
                 expect_nv=34)


def _elbow_args(P):
    return (P.p([0, 0, 0]), P.p([1, 0, 0]), P.d([0, 0, 1]), 1.0, P.p([3, 0, 0]), P.d([0, 1, 0]), P.l(0.6))


def b_elbow(P):
    cb = _cb()
    sh = cb.Elbow(*_elbow_args(P))
    chop_round(sh)
    return Built([sh], circles=[dict(c=P.p([0, 0, 0]), n=P.u([0, 0, 1]), r=P.l(1), arcs=8)], expect_nv=34)


def _ring(P, n=8, z0=0.0, z1=1.0, ro=1.0, ri=0.5):
    cb = _cb()
    return cb.ExtrudedRing(P.p([0, 0, z0]), P.p([0, 0, z1]), P.p([ro, 0, z0]), P.l(ri), n_segments=n)


def b_extruded_ring(P, n=8):
    sh = _ring(P, n)
    chop_round(sh)
    nn = P.u([0, 0, 1])
    circ = [dict(c=P.p([0, 0, z]), n=nn, r=P.l(r), arcs=n) for z in (0, 1) for r in (1.0, 0.5)]
    return Built([sh], circles=circ, expect_nv=4 * n)


def b_revolved_ring(P, n=8):
    cb = _cb()
    face = cb.Face([P.p([0.1, 0.5, 0]), P.p([0.9, 0.45, 0]), P.p([0.8, 1.0, 0]), P.p([0.2, 0.9, 0])])
    sh = cb.RevolvedRing(P.p([0, 0, 0]), P.p([1, 0, 0]), face, n_segments=n)
    # the cross-section handed in is the user's own object: used again (moved away for a next ring), it leaves this ring alone
    face.translate([float(x) for x in P.v([0.0, 0.0, 3.0])])
    chop_round(sh)
    return Built([sh], expect_nv=4 * n)


def b_hemisphere(P):
    cb = _cb()
    sh = cb.Hemisphere(P.p([0, 0, 0]), P.p([1, 0, 0]), P.d([0, 0, 1]))
    chop_round(sh)
    # the equator is projected to the sphere geometry (no arc edges): 8 vertices must lie on the circle
    return Built([sh], circles=[dict(c=P.p([0, 0, 0]), n=P.u([0, 0, 1]), r=P.l(1), arcs=0, verts=8)], note="sphere", expect_nv=35)


def b_shell_box(P, nfaces=6):
    """Shell around (some of) the faces of a loft in general position"""
    cb = _cb()
    box = cb.Loft(cb.Face([P.p(q) for q in [[0, 0, 0], [1, 0, 0], [1, 1, 0], [0, 1, 0]]]),
                  cb.Face([P.p(q) for q in [[0, 0, 1], [1, 0, 1], [1, 1, 1], [0, 1, 1]]]))
    for i in range(3):
        box.chop(i, count=3 + i)
    orients = ("bottom", "top", "left", "right", "front", "back")[:nfaces]
    faces = [box.get_face(o) for o in orients]
    for i in (0, 2, 4):
        if i < len(faces):
            faces[i].invert()
    sh = cb.Shell(faces, P.l(0.4))
    sh.chop(count=6)
    return Built([box, sh], expect_nv=16)


def b_shell_cyl(P):
    """Shell on the outer faces of a cylinder (the other documented use)"""
    cb = _cb()
    cyl = _cyl(P)
    chop_round(cyl)
    faces = [op.get_face("right") for op in cyl.shell]
    sh = cb.Shell(faces, P.l(0.3))
    sh.chop(count=6)
    return Built([cyl, sh], expect_nv=34 + 16)


def _stack_chop_grid(stack, nx, ny):
    stack.chop(count=5)
    for ix in range(nx):
        stack.grid[0][0][ix].chop(0, count=3)
    for iy in range(ny):
        stack.grid[0][iy][0].chop(1, count=4)


def b_stack_grid(P, kind="Extruded", nx=2, ny=2, rep=2):
    """Grid lies in the x-y plane by construction; it is moved to the placement afterwards with the
    documented transform calls (that is how a Grid is used)."""
    cb = _cb()
    base = cb.Grid([0, 0, 0], [float(nx), float(ny) * 1.1, 0], nx, ny)
    if not P.canonical:
        # rotate/scale/translate the sketch itself: R as axis-angle
        ang = math.acos(max(-1.0, min(1.0, (np.trace(P.R) - 1) / 2)))
        if ang > 1e-9:
            ax = np.array([P.R[2, 1] - P.R[1, 2], P.R[0, 2] - P.R[2, 0], P.R[1, 0] - P.R[0, 1]])
            if np.linalg.norm(ax) > 1e-9:
                base.rotate(ang, ax, [0, 0, 0])
        base.scale(P.s, [0, 0, 0])
        base.translate(P.t)
    if kind == "Extruded":
        st = cb.ExtrudedStack(base, P.l(1.0 * rep), rep)
    elif kind == "ExtrudedVec":
        st = cb.ExtrudedStack(base, P.v([0.2, 0.1, 1.0 * rep]), rep)
    elif kind == "Revolved":
        st = cb.RevolvedStack(base, 0.3 * rep, P.d([1, 0, 0]), P.p([0, -5, 0]), rep)
    elif kind == "TransformedDefault":
        # transformations WITHOUT an origin: each tier's end sketch is scaled/rotated about its own centre
        st = cb.TransformedStack(base, [cb.Translation(P.v([0, 0, 1.0])), cb.Scaling(0.8), cb.Rotation(P.d([0, 0, 1]), 0.25)], rep,
                                 [cb.Translation(P.v([0, 0, 0.5])), cb.Scaling(0.9), cb.Rotation(P.d([0, 0, 1]), 0.125)])
    else:
        st = cb.TransformedStack(base, [cb.Translation(P.v([0, 0, 1.0])), cb.Rotation(P.d([0, 0, 1]), 0.2, P.p([0, 0, 0]))], rep,
                                 [cb.Translation(P.v([0, 0, 0.5])), cb.Rotation(P.d([0, 0, 1]), 0.1, P.p([0, 0, 0]))])
    _stack_chop_grid(st, nx, ny)
    return Built([st], expect_nv=(nx + 1) * (ny + 1) * (rep + 1))


def b_stack_sketch(P, kind="Extruded", sketch="FourCoreDisk", rep=2):
    cb = _cb()
    base = make_sketch(P, sketch)
    if kind == "Extruded":
        st = cb.ExtrudedStack(base, P.l(1.0 * rep), rep)
    elif kind == "Revolved":
        st = cb.RevolvedStack(base, 0.3 * rep, P.d([1, 0, 0]), P.p([0, -5, 0]), rep)
    elif kind == "TransformedDefault":
        st = cb.TransformedStack(base, [cb.Translation(P.v([0, 0, 1.0])), cb.Scaling(0.8), cb.Rotation(P.d([0, 0, 1]), 0.25)], rep,
                                 [cb.Translation(P.v([0, 0, 0.5])), cb.Scaling(0.9), cb.Rotation(P.d([0, 0, 1]), 0.125)])
    else:
        st = cb.TransformedStack(base, [cb.Translation(P.v([0, 0, 1.0])), cb.Rotation(P.d([0, 0, 1]), 0.2, P.p([0, 0, 0]))], rep,
                                 [cb.Translation(P.v([0, 0, 0.5])), cb.Rotation(P.d([0, 0, 1]), 0.1, P.p([0, 0, 0]))])
    st.shapes[0].chop(0, count=3)
    st.shapes[0].chop(1, count=4)
    st.chop(count=5)
    return Built([st], circles=sketch_circles(P, sketch, 0.0), expect_nv=SKETCH_POINTS[sketch] * (rep + 1))


def b_joint(P, kind="N", branches=4):
    from classy_blocks.construct.assemblies.joints import LJoint, NJoint, TJoint
    start, center, rp = P.p([0, 0, 0]), P.p([0, 0, 2]), P.p([0.3, 0, 0])
    if kind == "L":
        j = LJoint(start, center, rp)
    elif kind == "T":
        j = TJoint(start, center, rp)
    else:
        j = NJoint(start, center, rp, branches)
    chop_round(j)
    nb = {"L": 2, "T": 3}.get(kind, branches)
    return Built([j], expect_nv=23 * nb + 5)


# ---- chains ------------------------------------------------------------------------------------
# a chain is a list of steps; step 0 creates the source, the others chain onto the previous (or a named) shape

CHAIN_STEPS = {
    # name: (source kinds it can follow)
    "cylinder": ("solid",), "frustum": ("solid",), "elbow": ("solid",), "hemisphere": ("solid",),
    "expand": ("cyl", "ring"), "ring_chain": ("ring",), "contract": ("ring",), "fill": ("ring",),
}
# kinds: "cyl" (a straight Cylinder: also a "solid"), "solid" (Frustum, Elbow), "ring", "sphere"


def step_ok(kind, name):
    allowed = CHAIN_STEPS[name]
    return kind in allowed or (kind == "cyl" and "solid" in allowed)


def b_chain(P, steps):
    """steps: list like ["Cylinder", "frustum", "elbow:start", "hemisphere"]; the first is the source
    class (Cylinder | Frustum | Elbow | ExtrudedRing), the others chain onto the previous shape,
    ':start' = onto the start end of the chain (start_face=True on the source, as in the examples; the
    end face of the shape that was chained there before).  expand/contract/fill act on
    the previous shape.  Every shape gets chop_axial; radial and tangential chops only on the source
    (the documented practice in examples/chaining)."""
    cb = _cb()
    shapes = []
    kinds = []
    interfaces = []
    src = steps[0]
    scaled = src.endswith("Scaled")
    if scaled:
        # the source shape is created at two thirds of its size and scaled up about the placement's origin afterwards, as a
        # SHAPE: everything chained onto it must meet it where it is now
        src = src[:-6]
        P_full = P
        P = Placement(P.R, P.s / 1.5, P.t, P.k, P.signs)
    if src == "Cylinder":
        sh = _cyl(P)
        kinds.append("cyl")
    elif src == "Frustum":
        sh = cb.Frustum(P.p([0, 0, 0]), P.p([0, 0, 2]), P.p([1, 0, 0]), P.l(0.6))
        kinds.append("solid")
    elif src == "Elbow":
        sh = cb.Elbow(*_elbow_args(P))
        kinds.append("solid")
    elif src in ("ExtrudedRing", "ExtrudedRing6"):
        sh = _ring(P, 6 if src.endswith("6") else 8)
        kinds.append("ring")
    else:
        raise KeyError(src)
    if scaled:
        P = P_full
        sh.scale(1.5, list(P.t))
    chop_round(sh)
    shapes.append(sh)

    def nops(shape):
        return len(shape.operations)

    def allb(shape):
        return list(range(nops(shape)))

    def shellb(shape, kind):
        if kind in ("solid", "cyl"):
            ncore = len(shape.sketch_1.core)
            return list(range(ncore, nops(shape)))
        return allb(shape)

    def hemi_flat(shape):
        nc = shape.n_cores
        return list(range(nc)) + [nc + i for i in range(len(shape.shell)) if (i + 1) % 3 != 0]

    used_faces = set()
    start_end = (0, True)   # which shape currently is the start end of the chain, and through which of its faces
    segs = [6 if src == "ExtrudedRing6" else 8]   # segments around the circumference, per shape
    nv = {"solid": 34, "cyl": 34, "ring": 4 * segs[0]}[kinds[0]]
    for st in steps[1:]:
        name, _, opt = st.partition(":")
        if opt == "start":
            prev_i, start = start_end
            start_end = (len(shapes), False)
        else:
            prev_i, start = len(shapes) - 1, False
        if name in ("cylinder", "frustum", "elbow", "hemisphere", "ring_chain"):
            if (prev_i, start) in used_faces:
                raise ValueError("two shapes chained onto the same face")
            used_faces.add((prev_i, start))
        prev = shapes[prev_i]
        pk = kinds[prev_i]
        ns = segs[prev_i]
        if not step_ok(pk, name) or (name == "fill" and ns != 8):
            raise ValueError("step %s cannot follow a %s shape" % (name, pk))
        nv += {"cylinder": 17, "frustum": 17, "elbow": 17, "hemisphere": 18, "expand": 2 * ns, "ring_chain": 2 * ns,
               "contract": 2 * ns, "fill": 18}[name]
        segs.append(ns if name in ("expand", "ring_chain", "contract") else 8)
        j = len(shapes)
        axial_side = "bottom" if start else "top"
        if name == "cylinder":
            new = cb.Cylinder.chain(prev, P.l(1.2), start_face=start)
            new.chop_axial(count=4)
            kinds.append("cyl")
            interfaces.append(dict(i=prev_i, j=j, fa=allb(prev), sa=axial_side, fb=allb(new), sb="bottom", count=17))
        elif name == "frustum":
            r = (prev.sketch_1 if start else prev.sketch_2).radius
            new = cb.Frustum.chain(prev, P.l(1.1), r * 0.7, start_face=start)
            new.chop_axial(count=4)
            kinds.append("solid")
            interfaces.append(dict(i=prev_i, j=j, fa=allb(prev), sa=axial_side, fb=allb(new), sb="bottom", count=17))
        elif name == "elbow":
            sk = prev.sketch_1 if start else prev.sketch_2
            c, n, rv = sk.center, sk.normal, sk.radius_point - sk.center
            sgn = -1.0 if start else 1.0
            # arc centre 3 radii away in the direction of the radius vector; rotating about n x rv moves the
            # sketch centre towards +n; a chain on the start face must leave towards -n (away from the source)
            arc_center = c + 3.0 * rv
            axis = np.cross(n, rv) * sgn
            new = cb.Elbow.chain(prev, 0.8, arc_center, axis, float(np.linalg.norm(rv)) * 0.8, start_face=start)
            new.chop_axial(count=4)
            kinds.append("solid")
            interfaces.append(dict(i=prev_i, j=j, fa=allb(prev), sa=axial_side, fb=allb(new), sb="bottom", count=17))
        elif name == "hemisphere":
            new = cb.Hemisphere.chain(prev, start_face=start)
            new.chop_axial(count=4)
            kinds.append("sphere")
            interfaces.append(dict(i=prev_i, j=j, fa=allb(prev), sa=axial_side, fb=hemi_flat(new), sb="bottom", count=17))
        elif name == "expand":
            new = cb.ExtrudedRing.expand(prev, prev.sketch_1.radius * 0.4)
            new.chop_radial(count=3)
            kinds.append("ring")
            interfaces.append(dict(i=prev_i, j=j, fa=shellb(prev, pk), sa="right", fb=allb(new), sb="left", count=2 * ns))
        elif name == "ring_chain":
            new = cb.ExtrudedRing.chain(prev, P.l(0.9), start_face=start)
            new.chop_axial(count=4)
            kinds.append("ring")
            interfaces.append(dict(i=prev_i, j=j, fa=allb(prev), sa=axial_side, fb=allb(new), sb="bottom", count=2 * ns))
        elif name == "contract":
            new = cb.ExtrudedRing.contract(prev, prev.sketch_1.inner_radius * 0.5)
            new.chop_radial(count=3)
            kinds.append("ring")
            interfaces.append(dict(i=prev_i, j=j, fa=allb(prev), sa="left", fb=allb(new), sb="right", count=2 * ns))
        elif name == "fill":
            new = cb.Cylinder.fill(prev)
            new.chop_radial(count=3)
            kinds.append("cyl")
            interfaces.append(dict(i=prev_i, j=j, fa=allb(prev), sa="left", fb=shellb(new, "solid"), sb="right", count=16))
        else:
            raise KeyError(name)
        shapes.append(new)
    return Built(list(shapes), shapes=list(shapes), interfaces=interfaces, expect_nv=nv)


STEP_KIND = {"cylinder": "cyl", "frustum": "solid", "elbow": "solid", "hemisphere": "sphere", "expand": "ring",
             "ring_chain": "ring", "contract": "ring", "fill": "cyl"}


class ChainState:
    """which steps may follow on the END side of a chain without running into space that is already occupied:
    contract / fill need a free inside (never free again once a ring was put around something), expand needs a
    free outside (occupied after contract / fill until the chain moves on axially), fill needs 8 segments"""

    def __init__(self, src):
        self.kind = {"ExtrudedRing": "ring", "ExtrudedRing6": "ring", "Cylinder": "cyl", "ExtrudedRingScaled": "ring", "CylinderScaled": "cyl"}.get(src, "solid")
        self.inner_free = True
        self.outer_free = True
        self.can_fill = src != "ExtrudedRing6"

    def allowed(self, name):
        if not step_ok(self.kind, name):
            return False
        if name in ("contract", "fill") and not self.inner_free:
            return False
        if name == "fill" and not self.can_fill:
            return False
        if name == "expand" and not self.outer_free:
            return False
        return True

    def apply(self, name):
        if name == "expand":
            self.inner_free = False
        elif name in ("contract", "fill"):
            self.outer_free = False
        else:
            self.outer_free = True
        self.kind = STEP_KIND[name]


def chain_valid(steps):
    """a chain the generator could have produced (used when failing chains are shrunk)"""
    if not steps or steps[0] not in ("Cylinder", "Frustum", "Elbow", "ExtrudedRing", "ExtrudedRing6", "CylinderScaled", "FrustumScaled", "ExtrudedRingScaled"):
        return False
    end, start = ChainState(steps[0]), ChainState(steps[0])
    for st in steps[1:]:
        name, _, opt = st.partition(":")
        if name not in CHAIN_STEPS:
            return False
        if opt == "start":
            if name in ("expand", "contract", "fill") or start.kind == "sphere" or not step_ok(start.kind, name):
                return False
            start.apply(name)
        else:
            if end.kind == "sphere" or not end.allowed(name):
                return False
            end.apply(name)
    return True


def random_chain(rng, maxlen=4):
    """source, then steps on the end side, then steps on the start side (never two shapes on one face)"""
    src = rng.choice(["Cylinder", "Cylinder", "Frustum", "Elbow", "ExtrudedRing", "ExtrudedRing6"])
    steps = [src]
    n = rng.randint(2, maxlen)
    n_start = rng.choice([0, 0, 1, 1, 2]) if n > 2 else rng.choice([0, 0, 1])
    end = ChainState(src)
    while len(steps) < n - n_start and end.kind != "sphere":
        name = rng.choice([k for k in CHAIN_STEPS if end.allowed(k)])
        steps.append(name)
        end.apply(name)
    start_kind = ChainState(src).kind
    while len(steps) < n and start_kind != "sphere":
        cands = [k for k in CHAIN_STEPS if step_ok(start_kind, k) and k not in ("expand", "contract", "fill")]
        name = rng.choice(cands)
        steps.append(name + ":start")
        start_kind = STEP_KIND[name]
    if len(steps) == 1:
        steps.append("ring_chain" if end.kind == "ring" else "cylinder")
    assert chain_valid(steps), steps
    return steps


# ------------------------------------------------------------------------------------------------
# the catalogue: (id, builder name, kwargs).  The id is what appears in tables / replays.

def catalogue(thorough=False):
    cat = []

    def add(cid, fn, **kw):
        cat.append((cid, fn, kw))

    add("Box", "b_box")
    add("Extrude", "b_extrude")
    add("ExtrudeVec", "b_extrude", vector=True)
    add("Loft", "b_loft")
    add("Revolve", "b_revolve")
    add("Wedge", "b_wedge")
    for sk in SKETCHES:
        add("ExtrudedShape:" + sk, "b_extruded_shape", sketch=sk)
    for sk in SKETCHES[6:]:
        add("ExtrudedShape:" + sk + ":sides", "b_extruded_shape", sketch=sk, sides=True)
    for sk in ("OneCoreDisk", "FourCoreDisk", "Oval", "SplineDisk", "HalfDisk"):
        add("RevolvedShape:" + sk, "b_revolved_shape", sketch=sk)
    for sk in ("FourCoreDisk", "WrappedDisk", "SplineDisk", "SplineRing"):
        add("LoftedShape:" + sk, "b_lofted_shape", sketch=sk, nmid=1)
    add("LoftedShape:HalfSplineDisk:mid2", "b_lofted_shape", sketch="HalfSplineDisk", nmid=2)
    add("Cylinder", "b_cylinder")
    add("SemiCylinder", "b_semicylinder")
    add("Frustum", "b_frustum")
    add("Frustum:mid", "b_frustum", mid=True)
    add("Elbow", "b_elbow")
    for n in range(3, 13):
        add("ExtrudedRing:%d" % n, "b_extruded_ring", n=n)
    for n in range(3, 13):
        add("RevolvedRing:%d" % n, "b_revolved_ring", n=n)
    add("Hemisphere", "b_hemisphere")
    for nf in (6, 4, 3):
        add("ShellBox:%d" % nf, "b_shell_box", nfaces=nf)
    add("ShellCylinder", "b_shell_cyl")
    grids = [(1, 1), (2, 1), (1, 3), (2, 2), (3, 2), (3, 3)] + ([(4, 4), (5, 5), (5, 1), (1, 5)] if thorough else [(5, 4)])
    for (nx, ny) in grids:
        for rep in ((1, 2, 3, 4) if (nx, ny) in ((2, 2), (1, 1)) or thorough else (2,)):
            add("ExtrudedStack:Grid:%d:%d:%d" % (nx, ny, rep), "b_stack_grid", kind="Extruded", nx=nx, ny=ny, rep=rep)
    add("ExtrudedStackVec:Grid:2:2:2", "b_stack_grid", kind="ExtrudedVec", nx=2, ny=2, rep=2)
    for rep in (1, 2, 3):
        add("RevolvedStack:Grid:2:3:%d" % rep, "b_stack_grid", kind="Revolved", nx=2, ny=3, rep=rep)
        add("TransformedStack:Grid:3:2:%d" % rep, "b_stack_grid", kind="Transformed", nx=3, ny=2, rep=rep)
    for rep in (1, 2, 3, 4):
        add("ExtrudedStack:FourCoreDisk:%d" % rep, "b_stack_sketch", kind="Extruded", sketch="FourCoreDisk", rep=rep)
    add("RevolvedStack:FourCoreDisk:2", "b_stack_sketch", kind="Revolved", sketch="FourCoreDisk", rep=2)
    add("TransformedStack:Oval:3", "b_stack_sketch", kind="Transformed", sketch="Oval", rep=3)
    add("TransformedStack:OneCoreDisk:2", "b_stack_sketch", kind="Transformed", sketch="OneCoreDisk", rep=2)
    add("TransformedStackDefaultOrigin:Grid:3:2:3", "b_stack_grid", kind="TransformedDefault", nx=3, ny=2, rep=3)
    add("TransformedStackDefaultOrigin:HalfDisk:3", "b_stack_sketch", kind="TransformedDefault", sketch="HalfDisk", rep=3)
    add("TransformedStackDefaultOrigin:QuarterDisk:2", "b_stack_sketch", kind="TransformedDefault", sketch="QuarterDisk", rep=2)
    add("LJoint", "b_joint", kind="L")
    add("TJoint", "b_joint", kind="T")
    for n in range(3, 9):
        add("NJoint:%d" % n, "b_joint", kind="N", branches=n)
    chains = [
        ["Cylinder", "cylinder"], ["Cylinder", "cylinder:start"], ["Cylinder", "frustum"], ["Cylinder", "frustum:start"],
        ["Cylinder", "elbow"], ["Cylinder", "elbow:start"], ["Cylinder", "hemisphere"], ["Cylinder", "hemisphere:start"],
        ["Cylinder", "expand"], ["Frustum", "cylinder"], ["Frustum", "elbow"], ["Elbow", "cylinder"], ["Elbow", "frustum:start"],
        ["Elbow", "hemisphere"], ["ExtrudedRing", "ring_chain"], ["ExtrudedRing", "ring_chain:start"], ["ExtrudedRing", "expand"],
        ["ExtrudedRing", "contract"], ["ExtrudedRing", "fill"],
        ["Cylinder", "frustum", "elbow", "hemisphere"], ["Cylinder", "expand", "expand", "ring_chain"],
        ["ExtrudedRing", "fill", "cylinder", "expand"], ["ExtrudedRing", "contract", "fill", "hemisphere"],
        ["ExtrudedRingScaled", "ring_chain"], ["ExtrudedRingScaled", "ring_chain:start"], ["ExtrudedRingScaled", "contract"],
        ["ExtrudedRingScaled", "expand"], ["CylinderScaled", "cylinder"], ["CylinderScaled", "expand"], ["FrustumScaled", "frustum:start"],
        ["Elbow", "elbow", "cylinder:start", "hemisphere"], ["Frustum", "hemisphere", "cylinder:start", "hemisphere:start"],
        ["ExtrudedRing6", "expand"], ["ExtrudedRing6", "contract", "ring_chain:start"],
    ]
    for ch in chains:
        add("Chain:" + ">".join(ch), "b_chain", steps=ch)
    return cat


def build(cid_entry, P):
    cid, fn, kw = cid_entry
    with warnings.catch_warnings():
        warnings.simplefilter("ignore")
        return globals()[fn](P, **kw)


def entry_for(cid):
    """catalogue entry for an id (also ids not in the default catalogue: chains, thorough grids)"""
    for e in catalogue(True) + catalogue(False):
        if e[0] == cid:
            return e
    if cid.startswith("Chain:"):
        return (cid, "b_chain", dict(steps=cid[6:].split(">")))
    raise KeyError(cid)
