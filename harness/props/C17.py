"""C17 - Clamps stay on their manifold and links keep their relation.

Tie (N): Model/C17_ClampLink.v transcribes the position functions of Line/Plane/Radial/Curve/
ParametricSurface/Free clamps, ClampBase.update_params / get_params (the minimiser an explicit argument)
and the three links with functions.rotate / mirror / angle_between.  For every generated instance the
real classes of /repo are constructed and driven (update_params with several parameter values; for
links the optimizer's protocol `link.leader = position; link.update()`), every double they report is
turned into an exact dyadic literal, and Coq decides (`interval`, 80 bits, staged through
Proofs/C17_Staged.v) that the model applied to the same inputs agrees within the tolerances of
DESIGN 2.4: 1e-9*size for closed-form arithmetic, 1e-4*size where scipy.optimize.minimize determines
the initial position, 1e-6*size for a RotationLink whose turn is within 1e-3 rad of 0 or pi (arccos).
Gen/C17/Flags.v tabulates on every run whether SymmetryLink alters its leader (the former in-place
subtraction of functions.mirror); Properties/C17.v proves `C17_leader_unaltered` against that flag.

What the property does not depend on is a parameter of the model, recovered from the implementation:
the auxiliary direction of PlaneClamp (np.random) and the angle per unit of parameter of RadialClamp.

Direct oracle (independent of the Coq model and of the code's formulas): incidence with the declared
line / plane / circle / analytic curve or surface, closest point by projection (line, plane) or dense
sampling (curve, surface), link laws through the harness' own Rodrigues / reflection formulas with
the signed angle taken by atan2, and bitwise comparison of the leader array before and after update().
"""
import json
import math
import re
import warnings

import os

import core
import translate_np
from core import CorrResult, GenError, Prop

REL = 1e-9      # closed-form float arithmetic
MINTOL = 1e-4   # downstream of scipy.optimize.minimize
ACOSTOL = 1e-6  # arccos evaluated within 1e-3 rad of 0 or pi
TWO_PI = 2 * math.pi


def _np():
    import numpy as np
    return np


# ------------------------------------------------------------------------------------------------
# harness-side vector helpers (plain floats; used by generators and by the direct oracle only)

def lst(v):
    return [float(x) for x in v]


def vnorm(v):
    return math.sqrt(sum(float(x) * float(x) for x in v))


def vunit(v):
    n = vnorm(v)
    return [float(x) / n for x in v]


def vsub(a, b):
    return [float(x) - float(y) for x, y in zip(a, b)]


def vadd(a, b):
    return [float(x) + float(y) for x, y in zip(a, b)]


def vscale(k, a):
    return [k * float(x) for x in a]


def vdot(a, b):
    return sum(float(x) * float(y) for x, y in zip(a, b))


def vcross(a, b):
    return [a[1] * b[2] - a[2] * b[1], a[2] * b[0] - a[0] * b[2], a[0] * b[1] - a[1] * b[0]]


def vdist(a, b):
    return vnorm(vsub(a, b))


def rodrigues(p, phi, axis, origin):
    """the harness' own rotation (not the code's expm)"""
    k = vunit(axis)
    v = vsub(p, origin)
    c, s = math.cos(phi), math.sin(phi)
    kv = vcross(k, v)
    kd = vdot(k, v)
    return vadd([c * v[i] + s * kv[i] + (1 - c) * kd * k[i] for i in range(3)], origin)


def reflect(p, n, o):
    k = 2 * vdot(vsub(p, o), n) / vdot(n, n)
    return [p[i] - k * n[i] for i in range(3)]


def rvec(rng, s=1.0):
    return [rng.uniform(-1, 1) * s for _ in range(3)]


def rdir(rng, lo=0.3):
    """a direction in general position: no small or vanishing component, not unit length"""
    while True:
        v = rvec(rng)
        if vnorm(v) > lo and min(abs(x) for x in v) > 0.05:
            return v


def rsize(rng):
    return 10 ** rng.uniform(-1, 1.5)


# ------------------------------------------------------------------------------------------------
# analytic curve / surface families: the same function in Python and as Gallina text

def curve_fn(fam, co):
    if fam == "helix":
        c0, c1, c2, R, w, h = co
        return lambda t: [c0 + R * math.cos(w * t), c1 + R * math.sin(w * t), c2 + h * t]
    if fam == "cubic":
        c0, c1, c2, a, b, d = co
        return lambda t: [c0 + a * t, c1 + b * t * t, c2 + d * t * t * t]
    raise ValueError(fam)


def surface_fn(fam, co):
    if fam == "paraboloid":
        c0, c1, c2, a, b, e = co
        return lambda u, v: [c0 + u, c1 + v, c2 + a * u * u + b * v * v + e * u * v]
    if fam == "cylinder":
        c0, c1, c2, R, h = co
        return lambda u, v: [c0 + R * math.cos(u), c1 + R * math.sin(u), c2 + h * v]
    raise ValueError(fam)


R_ = core.float_to_R


def cvec(p):
    return "(%s, %s, %s)" % (R_(p[0]), R_(p[1]), R_(p[2]))


def curve_coq(fam, co):
    c = [R_(x) for x in co]
    if fam == "helix":
        return "(fun t : R => (%s + %s * cos (%s * t), %s + %s * sin (%s * t), %s + %s * t))" % (c[0], c[3], c[4], c[1], c[3], c[4], c[2], c[5])
    return "(fun t : R => (%s + %s * t, %s + %s * (t * t), %s + %s * (t * t * t)))" % (c[0], c[3], c[1], c[4], c[2], c[5])


def surface_coq(fam, co):
    c = [R_(x) for x in co]
    if fam == "paraboloid":
        return "(fun u v : R => (%s + u, %s + v, %s + %s * (u * u) + %s * (v * v) + %s * (u * v)))" % (c[0], c[1], c[2], c[3], c[4], c[5])
    return "(fun u v : R => (%s + %s * cos u, %s + %s * sin u, %s + %s * v))" % (c[0], c[3], c[1], c[3], c[2], c[4])


# ------------------------------------------------------------------------------------------------
# case generators (every case is JSON-serialisable and carries all that is needed to replay it)

def gen_line(rng):
    size = rsize(rng)
    p1 = rvec(rng, size)
    d = rdir(rng)
    L = size * rng.uniform(0.3, 2.0)
    dh = vunit(d)
    p2 = vadd(p1, vscale(L, dh))
    mode = rng.choice(["default", "default", "wide", "inner"])
    if mode == "default":
        bounds, lo, hi = None, 0.0, vdist(p1, p2)
    elif mode == "wide":
        bounds = [-rng.uniform(1, 3) * L, rng.uniform(1.5, 4) * L]
        lo, hi = bounds
    else:
        bounds = [rng.uniform(0.05, 0.3) * L, rng.uniform(0.6, 0.9) * L]
        lo, hi = bounds
    where = rng.choice(["on", "off", "off", "far", "before", "beyond", "end"])
    perp = vunit(vcross(dh, rdir(rng)))
    if where == "on":
        t, h = rng.uniform(lo, hi), 0.0
    elif where == "off":
        t, h = rng.uniform(lo, hi), rng.uniform(0.01, 0.5) * size
    elif where == "far":
        t, h = rng.uniform(lo, hi), rng.uniform(1, 3) * size
    elif where == "before":
        t, h = lo - rng.uniform(0.05, 1) * L, rng.uniform(0, 0.3) * size
    elif where == "beyond":
        t, h = hi + rng.uniform(0.05, 1) * L, rng.uniform(0, 0.3) * size
    else:
        t, h = rng.choice([lo, hi]), rng.choice([0.0, 0.2 * size])
    pos = vadd(vadd(p1, vscale(t, dh)), vscale(h, perp))
    span = hi - lo
    updates = [[rng.uniform(lo, hi)] for _ in range(2)] + [[rng.choice([lo, hi])]]
    if bounds is not None and rng.random() < 0.5:
        updates.append([lo - 0.37 * span])  # update_params does not clip: still on the line
    return dict(kind="line", size=max(size, L, vdist(pos, p1)), p1=p1, p2=p2, pos=pos, bounds=bounds, where=where, updates=updates)


def gen_plane(rng):
    size = rsize(rng)
    point = rvec(rng, size)
    n = vscale(rng.choice([0.2, 1.7, 5.0, size]), rdir(rng))
    nh = vunit(n)
    where = rng.choice(["on", "off", "off", "far"])
    base = vadd(point, rvec(rng, size))
    base = vsub(base, vscale(vdot(vsub(base, point), nh), nh))
    h = {"on": 0.0, "off": rng.uniform(-0.5, 0.5) * size, "far": rng.choice([-1, 1]) * rng.uniform(1, 3) * size}[where]
    pos = vadd(base, vscale(h, nh))
    updates = [[size, 0.0], [0.0, size], [rng.uniform(-2, 2) * size, rng.uniform(-2, 2) * size]]
    return dict(kind="plane", size=max(size, vdist(pos, point)), point=point, normal=n, pos=pos, where=where, updates=updates)


def gen_radial(rng):
    size = rsize(rng)
    center = rvec(rng, size)
    n = vscale(rng.choice([0.2, 1.7, 5.0]), rdir(rng))
    nh = vunit(n)
    rad = vunit(vcross(nh, rdir(rng)))
    radius = size * rng.uniform(0.2, 1.5)
    height = rng.uniform(-1, 1) * size
    pos = vadd(center, vadd(vscale(radius, rad), vscale(height, nh)))
    circ = TWO_PI * radius
    if rng.random() < 0.4:
        bounds = [-rng.uniform(0.1, 0.5) * circ, rng.uniform(0.1, 0.5) * circ]
        lo, hi = bounds
    else:
        bounds, lo, hi = None, -1.5 * circ, 1.5 * circ
    updates = [[rng.uniform(lo, hi)], [rng.choice([0.25, 0.5, -0.5, 1.25]) * circ if bounds is None else rng.choice([lo, hi])]]
    return dict(kind="radial", size=max(size, radius, abs(height)), center=center, normal=n, pos=pos, bounds=bounds, radius=radius, updates=updates)


def gen_curve(rng):
    size = rsize(rng)
    c = rvec(rng, size)
    fam = rng.choice(["helix", "cubic"])
    if fam == "helix":
        R = size * rng.uniform(0.5, 1.5)
        w = rng.uniform(0.3, 1.0) * rng.choice([-1, 1])
        span = rng.uniform(1.0, 2.0) / abs(w)   # at most 2 rad of turn: one basin for the local minimiser
        t0 = rng.uniform(-1, 1)
        bounds = [t0, t0 + span]
        co = c + [R, w, rng.uniform(-0.5, 0.5) * size]
        reach = 0.3 * R
    else:
        a = size * rng.uniform(0.6, 1.4) * rng.choice([-1, 1])
        co = c + [a, rng.uniform(-0.25, 0.25) * abs(a), rng.uniform(-0.15, 0.15) * abs(a)]
        bounds = [-1.0, 1.0]
        reach = 0.1 * abs(a)
    g = curve_fn(fam, co)
    ts = bounds[0] + rng.uniform(0.15, 0.85) * (bounds[1] - bounds[0])
    e = 1e-6
    tan = vunit(vsub(g(ts + e), g(ts - e)))
    nu = vunit(vcross(tan, rdir(rng)))
    where = rng.choice(["on", "off", "off"])
    h = 0.0 if where == "on" else rng.uniform(0.05, 1.0) * reach
    pos = vadd(g(ts), vscale(h, nu))
    updates = [[bounds[0] + rng.random() * (bounds[1] - bounds[0])] for _ in range(2)] + [[rng.choice(bounds)]]
    return dict(kind="curve", size=max(size, vdist(g(bounds[0]), g(bounds[1]))), family=fam, coeffs=co, bounds=bounds, pos=pos, where=where,
                tstar=ts, initial=rng.choice([None, None, ts + 0.05 * (bounds[1] - bounds[0]) * rng.uniform(-1, 1)]), updates=updates)


def gen_surface(rng):
    size = rsize(rng)
    c = rvec(rng, size)
    fam = rng.choice(["paraboloid", "cylinder"])
    if fam == "paraboloid":
        co = c + [rng.uniform(0.05, 0.4) / size, rng.uniform(0.05, 0.4) / size, rng.uniform(-0.1, 0.1) / size]
        us, vs = rng.uniform(-1, 1) * size, rng.uniform(-1, 1) * size
        reach = 0.3 * size
        bounds = rng.choice([None, None, [[-2 * size, 2 * size], [-2 * size, 2 * size]]])
    else:
        R = size * rng.uniform(0.5, 1.5)
        co = c + [R, rng.uniform(0.5, 2.0) * rng.choice([-1, 1])]
        us, vs = rng.uniform(-1.1, 1.1), rng.uniform(-1, 1) * size
        reach = 0.3 * R
        bounds = rng.choice([None, [[-1.5, 1.5], [-2 * size, 2 * size]]])
    g = surface_fn(fam, co)
    e = 1e-6 * (size if fam == "paraboloid" else 1.0)
    gu = vsub(g(us + e, vs), g(us - e, vs))
    gv = vsub(g(us, vs + 1e-6 * size), g(us, vs - 1e-6 * size))
    nu = vunit(vcross(gu, gv))
    where = rng.choice(["on", "off", "off"])
    h = 0.0 if where == "on" else rng.uniform(-1, 1) * reach
    pos = vadd(g(us, vs), vscale(h, nu))
    if fam == "paraboloid":
        updates = [[rng.uniform(-1.5, 1.5) * size, rng.uniform(-1.5, 1.5) * size] for _ in range(3)]
    else:
        updates = [[rng.uniform(-1.4, 1.4), rng.uniform(-1.5, 1.5) * size] for _ in range(3)]
    return dict(kind="surface", size=size * 1.5, family=fam, coeffs=co, bounds=bounds, pos=pos, where=where, star=[us, vs],
                initial=rng.choice([None, None, [us * 0.9, vs * 0.9]]), updates=updates)


def gen_free(rng):
    size = rsize(rng)
    return dict(kind="free", size=size, pos=rvec(rng, size), updates=[rvec(rng, size) for _ in range(2)])


def gen_ops(rng, mk_move, n_updates):
    """the optimizer's protocol is Move;Update; also exercise repeated updates and moves without update"""
    ops = []
    if rng.random() < 0.3:
        ops.append(["update"])
    for _ in range(n_updates):
        ops.append(["move", mk_move()])
        if rng.random() < 0.2:
            ops.append(["move", mk_move()])
        ops.append(["update"])
        if rng.random() < 0.25:
            ops.append(["update"])
    return ops


def gen_translation(rng):
    size = rsize(rng)
    l0, f0 = rvec(rng, size), rvec(rng, size)
    return dict(kind="translation", size=size * 4, leader=l0, follower=f0,
                ops=gen_ops(rng, lambda: rvec(rng, size * rng.choice([0.01, 1, 1, 3])), rng.randint(1, 3)))


def gen_rotation(rng):
    size = rsize(rng)
    o = rvec(rng, size)
    axis = vscale(rng.choice([0.2, 1.0, 1.7, 5.0]), rdir(rng))
    ah = vunit(axis)

    def off_axis(rmin):
        while True:
            p = vadd(o, rvec(rng, size))
            w = vsub(p, o)
            if vnorm(vsub(w, vscale(vdot(w, ah), ah))) > rmin * size:
                return p
    l0, f0 = off_axis(0.2), off_axis(0.05)

    def mk_move():
        k = rng.random()
        if k < 0.45:   # the intended use: the leader turned about the link's axis, by any angle
            phi = rng.choice([rng.uniform(-math.pi, math.pi), rng.uniform(-7, 7), rng.choice([-1, 1]) * rng.uniform(0.001, 0.05)])
            return rodrigues(l0, phi, axis, o)
        if k < 0.7:    # turned, shifted along the axis and moved radially
            phi = rng.uniform(-math.pi, math.pi)
            p = rodrigues(l0, phi, axis, o)
            w = vsub(p, o)
            hgt = vscale(vdot(w, ah), ah)
            rad = vsub(w, hgt)
            return vadd(o, vadd(vscale(rng.uniform(0.4, 2.5), rad), vadd(hgt, vscale(rng.uniform(-1, 1) * size, ah))))
        if k < 0.8:    # half a turn and no turn at all (arccos at its end points)
            return rodrigues(l0, rng.choice([math.pi, 0.0, -math.pi, 1e-9]), axis, o)
        return off_axis(0.1)
    return dict(kind="rotation", size=size * 3, leader=l0, follower=f0, axis=axis, origin=o, ops=gen_ops(rng, mk_move, rng.randint(1, 2)))


def gen_symmetry(rng):
    size = rsize(rng)
    o = rvec(rng, size)
    n = vscale(rng.choice([0.2, 1.0, 1.7, 5.0]), rdir(rng))
    l0 = vadd(o, rvec(rng, size))
    f0 = reflect(l0, n, o) if rng.random() < 0.7 else vadd(o, rvec(rng, size))
    return dict(kind="symmetry", size=size * 3, leader=l0, follower=f0, normal=n, origin=o,
                ops=gen_ops(rng, lambda: vadd(o, rvec(rng, size * rng.choice([0.01, 1, 1, 3]))), rng.randint(1, 2)))


def q20(x):
    """a double with at most 20 significant bits: short literals keep the Coq side fast; the generated
    inputs are still in general position"""
    if isinstance(x, (list, tuple)):
        return [q20(y) for y in x]
    if x is None or isinstance(x, str):
        return x
    x = float(x)
    if x == 0.0:
        return 0.0
    m, e = math.frexp(x)
    return math.ldexp(round(m * (1 << 20)) / float(1 << 20), e)


def quantised(gen):
    def g(rng):
        case = gen(rng)
        for key in ("p1", "p2", "pos", "point", "normal", "center", "leader", "follower", "axis", "origin", "updates",
                    "bounds", "coeffs", "initial"):
            if key in case:
                case[key] = q20(case[key])
        if "ops" in case:
            case["ops"] = [[op[0], q20(op[1])] if op[0] == "move" else op for op in case["ops"]]
        if case["kind"] == "radial":
            nh = vunit(case["normal"])
            w = vsub(case["pos"], case["center"])
            case["radius"] = vnorm(vsub(w, vscale(vdot(w, nh), nh)))
        return case
    return g


GENS = dict(line=gen_line, plane=gen_plane, radial=gen_radial, curve=gen_curve, surface=gen_surface, free=gen_free,
            translation=gen_translation, rotation=gen_rotation, symmetry=gen_symmetry)
GENS = {k: quantised(g) for k, g in GENS.items()}

CORPUS = [
    # reconnaissance: a SymmetryLink about a plane that does not pass through the origin
    dict(kind="symmetry", size=6.0, leader=[1.0, 2.0, 3.0], follower=[1.0, 2.0, -1.0], normal=[0.0, 0.0, 2.0], origin=[0.5, 0.25, 1.0],
         ops=[["update"], ["move", [2.0, -1.0, 4.0]], ["update"], ["update"]]),
    # the suite's examples, axis-aligned and origin-centred
    dict(kind="line", size=2.0, p1=[0.0, 0.0, 0.0], p2=[1.0, 1.0, 1.0], pos=[0.0, 0.0, 0.0], bounds=None, where="end", updates=[[0.75 ** 0.5]]),
    dict(kind="rotation", size=3.0, leader=[1.0, 0.0, 0.0], follower=[0.0, 1.0, 0.0], axis=[0.0, 0.0, 1.0], origin=[0.0, 0.0, 0.0],
         ops=[["move", [0.0, 1.0, 0.0]], ["update"], ["move", [0.0, -1.0, 0.0]], ["update"]]),
    dict(kind="plane", size=2.0, point=[0.0, 0.0, 0.0], normal=[1.0, 1.0, 1.0], pos=[0.0, 0.0, 0.0], where="on", updates=[[1.0, 0.0], [0.0, 1.0], [1.0, 1.0]]),
]


# ------------------------------------------------------------------------------------------------
# running the implementation

def _err(e):
    return dict(error="%s: %s" % (type(e).__name__, str(e)[:200]))


def run_impl(case):
    """Returns the observation: every number the clamp / link reports, or {'error': ...}."""
    np = _np()
    k = case["kind"]
    try:
        with warnings.catch_warnings():
            warnings.simplefilter("ignore")
            if k in ("line", "plane", "radial", "curve", "surface", "free"):
                return _run_clamp(case, np)
            return _run_link(case, np)
    except GenError:
        raise
    except Exception as e:  # noqa: BLE001
        return _err(e)


def _run_clamp(case, np):
    from classy_blocks.optimize.clamps.curve import CurveClamp, LineClamp, RadialClamp
    from classy_blocks.optimize.clamps.free import FreeClamp
    from classy_blocks.optimize.clamps.surface import ParametricSurfaceClamp, PlaneClamp
    k = case["kind"]
    pos = list(case["pos"])
    ob = {}
    if k == "line":
        b = case["bounds"]
        clamp = LineClamp(pos, list(case["p1"]), list(case["p2"])) if b is None else LineClamp(pos, list(case["p1"]), list(case["p2"]), (b[0], b[1]))
    elif k == "plane":
        clamp = PlaneClamp(pos, list(case["point"]), list(case["normal"]))
    elif k == "radial":
        b = case["bounds"]
        clamp = RadialClamp(pos, list(case["center"]), list(case["normal"])) if b is None else RadialClamp(pos, list(case["center"]), list(case["normal"]), list(b))
    elif k == "curve":
        from classy_blocks.construct.curves.analytic import AnalyticCurve
        g = curve_fn(case["family"], case["coeffs"])
        curve = AnalyticCurve(lambda t: np.array(g(float(t))), (case["bounds"][0], case["bounds"][1]))
        clamp = CurveClamp(pos, curve) if case["initial"] is None else CurveClamp(pos, curve, case["initial"])
    elif k == "surface":
        g = surface_fn(case["family"], case["coeffs"])
        clamp = ParametricSurfaceClamp(pos, lambda p: np.array(g(float(p[0]), float(p[1]))), case["bounds"], case["initial"])
    else:
        clamp = FreeClamp(pos)
    ob["params0"] = lst(np.asarray(clamp.params).ravel())
    ob["pos0"] = lst(np.asarray(clamp.position).ravel())
    if len(ob["pos0"]) != 3:
        raise GenError("clamp position is not a 3-vector: %r" % (ob["pos0"],))
    if k == "radial":
        # probe: angle turned per unit of parameter (the property does not depend on it)
        tau = 1e-3 * case["radius"]
        clamp.update_params([tau])
        ob["probe"] = dict(tau=tau, pos=lst(clamp.position))
    ob["upd"] = []
    for q in case["updates"]:
        clamp.update_params(list(q))
        ob["upd"].append(lst(np.asarray(clamp.position).ravel()))
        back = lst(np.asarray(clamp.params).ravel())
        if back != [float(x) for x in q]:
            ob.setdefault("params_not_stored", []).append([list(q), back])
    return ob


def _run_link(case, np):
    from classy_blocks.optimize.links import RotationLink, SymmetryLink, TranslationLink
    k = case["kind"]
    l0 = np.array(case["leader"], dtype=float)
    f0 = np.array(case["follower"], dtype=float)
    given = [l0.copy(), f0.copy()]
    if k == "translation":
        link = TranslationLink(l0, f0)
    elif k == "rotation":
        link = RotationLink(l0, f0, list(case["axis"]), list(case["origin"]))
    else:
        link = SymmetryLink(l0, f0, list(case["normal"]), list(case["origin"]))
    ob = dict(leader0=lst(link.leader), follower0=lst(link.follower), steps=[],
              args_touched=bool((l0 != given[0]).any() or (f0 != given[1]).any()))
    handed = None
    for op in case["ops"]:
        if op[0] == "move":
            # exactly what GridBase.update does: the link is handed the optimizer's own array
            arr = np.array(op[1], dtype=float)
            keep = arr.copy()
            link.leader = arr
            ob["steps"].append(dict(leader=lst(link.leader), follower=lst(link.follower), handed_changed=False))
            handed = (arr, keep)
        else:
            before = np.array(link.leader, dtype=float).copy()
            link.update()
            st = dict(leader=lst(link.leader), follower=lst(link.follower),
                      leader_changed=bool((np.asarray(link.leader) != before).any()))
            st["handed_changed"] = bool(handed is not None and (handed[0] != handed[1]).any())
            ob["steps"].append(st)
    return ob


# ------------------------------------------------------------------------------------------------
# direct oracle

def oracle(case, ob):
    """None or (signature, reason).  States the property on what the implementation reported."""
    k = case["kind"]
    if "error" in ob:
        return ("C17:%s:raises" % k, "valid instance raised " + ob["error"])
    size = case["size"]
    tol, mtol = REL * size, MINTOL * size
    if k in ("line", "plane", "radial", "curve", "surface", "free"):
        pts = [("initial", ob["params0"], ob["pos0"])] + [("update %r" % (q,), q, p) for q, p in zip(case["updates"], ob["upd"])]
        if ob.get("params_not_stored"):
            return ("C17:%s:params-not-stored" % k, "update_params(%r) left params %r" % tuple(ob["params_not_stored"][0]))
        for (what, q, p) in pts:
            if any(math.isnan(x) or math.isinf(x) for x in p):
                return ("C17:%s:nan" % k, "%s: position %r" % (what, p))
            bad = _on_manifold(case, q, p, tol)
            if bad:
                return ("C17:%s:off-manifold" % k, "%s: %s" % (what, bad))
        bad = _initial_ok(case, ob, mtol)
        if bad:
            return ("C17:%s:initial" % k, bad)
        return None
    # links
    if ob.get("args_touched"):
        return ("C17:%s:constructor-alters-arguments" % k, "the arrays passed to the constructor were modified")
    l0, f0 = case["leader"], case["follower"]
    if vdist(ob["leader0"], l0) > 0:
        return (_leader_sig(k), "leader after construction %r, given %r" % (ob["leader0"], l0))
    if vdist(ob["follower0"], f0) > 0:
        return ("C17:%s:follower-altered-by-constructor" % k, "follower after construction %r, given %r" % (ob["follower0"], f0))
    leader, follower = l0, f0
    for i, (op, st) in enumerate(zip(case["ops"], ob["steps"])):
        if op[0] == "move":
            leader = op[1]
            if vdist(st["leader"], leader) > 0:
                return ("C17:%s:leader-not-assigned" % k, "step %d: leader %r after assigning %r" % (i, st["leader"], leader))
            if vdist(st["follower"], follower) > 0:
                return ("C17:%s:follower-moves-without-update" % k, "step %d: follower changed by assigning the leader" % i)
            continue
        if st["leader_changed"] or st["handed_changed"] or vdist(st["leader"], leader) > 0:
            return (_leader_sig(k), "step %d: update() altered the leader: %r, was %r" % (i, st["leader"], leader))
        if k == "translation":
            want = vadd(leader, vsub(f0, l0))
            t = tol
        elif k == "rotation":
            o, ah = case["origin"], vunit(case["axis"])

            def radius(p):
                w = vsub(p, o)
                return vsub(w, vscale(vdot(w, ah), ah))
            r0, r1 = radius(l0), radius(leader)
            sn, cs = vdot(vcross(r0, r1), ah), vdot(r0, r1)
            phi = math.atan2(sn, cs)
            want = rodrigues(f0, phi, case["axis"], o)
            t = tol if abs(sn) > 1e-3 * math.hypot(sn, cs) else ACOSTOL * size
        else:
            want = reflect(leader, case["normal"], case["origin"])
            t = tol
        if not vdist(st["follower"], want) <= t * 3:
            return ("C17:%s:follower" % k, "step %d: follower %r, the %s law gives %r (distance %.3g, tolerance %.3g)"
                    % (i, st["follower"], k, want, vdist(st["follower"], want), t * 3))
        follower = st["follower"]
    return None


def _leader_sig(k):
    return "C17:symmetry-link-leader-altered" if k == "symmetry" else "C17:%s:leader-altered" % k


def _on_manifold(case, q, p, tol):
    k = case["kind"]
    if k == "line":
        p1, d = case["p1"], vsub(case["p2"], case["p1"])
        off = vnorm(vcross(vsub(p, p1), d)) / vnorm(d)
        if not off <= 3 * tol:
            return "position %r is %.3g off the line" % (p, off)
        s = vdot(vsub(p, p1), vunit(d))
        if not abs(s - q[0]) <= 3 * tol:
            return "parameter %r but the position is %.12g along the line from point_1" % (q[0], s)
    elif k == "plane":
        off = vdot(vsub(p, case["point"]), vunit(case["normal"]))
        if not abs(off) <= 3 * tol:
            return "position %r is %.3g off the plane" % (p, off)
    elif k == "radial":
        c, nh = case["center"], vunit(case["normal"])
        w0, w = vsub(case["pos"], c), vsub(p, c)
        h0, h = vdot(w0, nh), vdot(w, nh)
        r0, r = vnorm(vsub(w0, vscale(h0, nh))), vnorm(vsub(w, vscale(h, nh)))
        if not (abs(h - h0) <= 3 * tol and abs(r - r0) <= 3 * tol):
            return "position %r: radius %.12g height %.12g, circle has radius %.12g height %.12g" % (p, r, h, r0, h0)
    elif k == "curve":
        want = curve_fn(case["family"], case["coeffs"])(q[0])
        if not vdist(p, want) <= 3 * tol:
            return "position %r but the curve at %r is %r" % (p, q[0], want)
    elif k == "surface":
        want = surface_fn(case["family"], case["coeffs"])(q[0], q[1])
        if not vdist(p, want) <= 3 * tol:
            return "position %r but the surface at %r is %r" % (p, q, want)
    else:
        if not vdist(p, q) <= 3 * tol:
            return "free clamp at %r after parameters %r" % (p, q)
    return None


def _bounds_of(case):
    k = case["kind"]
    if k == "line":
        return [[0.0, vdist(case["p1"], case["p2"])]] if case["bounds"] is None else [list(case["bounds"])]
    if k == "radial":
        return None if case["bounds"] is None else [list(case["bounds"])]
    if k == "curve":
        return [list(case["bounds"])]
    if k == "surface":
        return case["bounds"]
    return None


def init_tol(case, ob):
    """Tolerance for a position determined by scipy.optimize.minimize(tol=1e-7): 1e-4*size (DESIGN 2.4), but not
    below what the minimiser's stopping rule can resolve.  L-BFGS-B stops on a decrease of the objective (the
    distance d to the given position) of 1e-7*max(1, d); a point of the manifold e away from the foot of the
    perpendicular is only e^2/(2d) farther from the given position, so e is resolved to sqrt(2*d*delta), with
    delta = 1e-5*max(1, d) taken here (100 times the stopping threshold)."""
    d0 = vdist(case["pos"], ob["pos0"])
    return max(MINTOL * case["size"], math.sqrt(2e-5 * d0 * max(1.0, d0)))


def objective_tol(d0):
    """how far above the minimal distance the minimiser may stop"""
    return 1e-5 * max(1.0, d0)


def _initial_ok(case, ob, mtol):
    """the new clamp is at the given position, or at the closest point of the manifold (within bounds)"""
    k = case["kind"]
    pos, p0, q0 = case["pos"], ob["pos0"], ob["params0"]
    mtol = init_tol(case, ob)
    b = _bounds_of(case)
    if b is not None:
        for x, (lo, hi) in zip(q0, b):
            if not (lo - mtol <= x <= hi + mtol):
                return "initial parameter %r outside the bounds %r" % (x, [lo, hi])
    d0 = vdist(pos, p0)
    if k == "line":
        lo, hi = b[0]
        dh = vunit(vsub(case["p2"], case["p1"]))
        t = min(max(vdot(vsub(pos, case["p1"]), dh), lo), hi)
        want = vadd(case["p1"], vscale(t, dh))
    elif k == "plane":
        nh = vunit(case["normal"])
        want = vsub(pos, vscale(vdot(vsub(pos, case["point"]), nh), nh))
    elif k in ("radial", "free"):
        want = pos
    else:
        # dense sampling of the declared function over the admissible parameters
        best = _dense_min(case)
        if not d0 <= best + mtol:
            return "initial position %r is %.6g from the given one, a sampled point of the %s is only %.6g away" % (p0, d0, k, best)
        if case["where"] == "on" and not d0 <= mtol:
            return "created on the %s at %r but reports %r" % (k, pos, p0)
        return None
    if not d0 <= vdist(pos, want) + objective_tol(d0):
        return "created at %r: reports %r at distance %.9g, the %s has a point at distance %.9g" % (pos, p0, d0, k, vdist(pos, want))
    if not vdist(p0, want) <= mtol:
        return "created at %r: reports %r, the closest point of the %s is %r (%.3g away from the reported one)" % (pos, p0, k, want, vdist(p0, want))
    return None


def _dense_min(case):
    pos = case["pos"]
    if case["kind"] == "curve":
        g = curve_fn(case["family"], case["coeffs"])
        lo, hi = case["bounds"]
        return min(vdist(pos, g(lo + (hi - lo) * i / 2000.0)) for i in range(2001))
    g = surface_fn(case["family"], case["coeffs"])
    us, vs = case["star"]
    s = case["size"]
    if case["bounds"] is not None:
        (ul, uh), (vl, vh) = case["bounds"]
    else:
        w = 1.0 if case["family"] == "cylinder" else s
        ul, uh, vl, vh = us - w, us + w, vs - s, vs + s
    return min(vdist(pos, g(ul + (uh - ul) * i / 120.0, vl + (vh - vl) * j / 120.0)) for i in range(121) for j in range(121))


# ------------------------------------------------------------------------------------------------
# Coq side

HEADER = ("From Coq Require Import Reals List.\nFrom Interval Require Import Tactic.\n"
          "From CB Require Import Base.Vec3 Model.C17_ClampLink Proofs.C17_Staged Gen.C17.Flags.\n"
          "Import ListNotations.\nOpen Scope R_scope.\n\n")


def goal(gid, body, tactic):
    return ("Goal %s.\nProof.\n  first [ %s; idtac \"OK %d\" | idtac \"MISMATCH %d\" ].\nAbort.\n" % (body, tactic, gid, gid))


def vnear(expr, obs, tol):
    return "vnear (%s) %s %s" % (expr, cvec(obs), R_(tol))


def coq_ops(ops):
    return "[" + "; ".join("Move %s" % cvec(op[1]) if op[0] == "move" else "Update" for op in ops) + "]"


def recover_aux(case, ob):
    """PlaneClamp: an auxiliary direction r with plane_u n r = the u direction the implementation uses
    (r = n^ x u; any r not collinear with n is admissible for the theorems)."""
    size = case["size"]
    u = vscale(1.0 / case["updates"][0][0], vsub(ob["upd"][0], case["point"]))
    if not (0.5 < vnorm(u) < 2.0):
        return None
    return vcross(vunit(case["normal"]), vunit(u))


def radial_k(case, ob):
    """RadialClamp: the angle turned per unit of parameter, measured on the implementation"""
    c, nh = case["center"], vunit(case["normal"])

    def radius(p):
        w = vsub(p, c)
        return vsub(w, vscale(vdot(w, nh), nh))
    r0, r1 = radius(case["pos"]), radius(ob["probe"]["pos"])
    th = math.atan2(vdot(vcross(r0, r1), nh), vdot(r0, r1))
    return th / ob["probe"]["tau"]


def coq_goals(case, ob, gid0):
    """[(gid, what, text)]: ONE goal per instance (a conjunction, so that the staged enclosures of the shared
    subterms are computed once): the model, on the inputs the code got, is within tolerance of everything the
    code reported."""
    k = case["kind"]
    false_goal = "Goal False.\nProof. idtac \"MISMATCH %d\".\nAbort.\n" % gid0
    if "error" in ob:
        return [(gid0, "error", false_goal)]
    size = case["size"]
    tol = REL * size
    mtol = init_tol(case, ob) if "pos0" in ob and "pos" in case else MINTOL * size
    nums = []
    for key in ("params0", "pos0"):
        nums += ob.get(key, [])
    for p in ob.get("upd", []):
        nums += p
    for st in ob.get("steps", []):
        nums += st["leader"] + st["follower"]
    if any(math.isnan(x) or math.isinf(x) for x in nums):
        return [(gid0, "nan", false_goal)]
    conj = []
    what = k
    tactic = "prep; stage_all; fin"

    if k == "line":
        p1, p2, pos = cvec(case["p1"]), cvec(case["p2"]), cvec(case["pos"])
        if case["bounds"] is None:
            lo, hi = "(fst (line_default_bounds %s %s))" % (p1, p2), "(snd (line_default_bounds %s %s))" % (p1, p2)
            flo, fhi = 0.0, vdist(case["p1"], case["p2"])
        else:
            flo, fhi = case["bounds"]
            lo, hi = R_(flo), R_(fhi)
        x = vdot(vsub(case["pos"], case["p1"]), vunit(vsub(case["p2"], case["p1"])))
        tc = min(max(x, flo), fhi)
        closest = "line_closest_t %s %s %s %s %s" % (p1, p2, pos, lo, hi)
        conj.append(vnear("line_pos %s %s (%s)" % (p1, p2, closest), ob["pos0"], mtol))
        conj.append("Rabs (%s - %s) <= %s" % (closest, R_(ob["params0"][0]), R_(mtol)))
        conj.append("norm (vsub %s %s) - norm (vsub %s (line_pos %s %s (%s))) <= %s"
                    % (pos, cvec(ob["pos0"]), pos, p1, p2, closest, R_(objective_tol(vdist(case["pos"], ob["pos0"])))))
        if min(abs(x - flo), abs(x - fhi)) < 1e-6 * size:
            what = "line-boundary"
        c0 = "(%s, %s)" % (R_(ob["params0"][0]), cvec(ob["pos0"]))
        for q, p in zip(case["updates"], ob["upd"]):
            conj.append(vnear("clamp_position (clamp_update (line_pos %s %s) %s %s)" % (p1, p2, c0, R_(q[0])), p, tol))
        tactic = "prep; stage_all; stage_clip %s %s; fin" % (R_(tc - tol), R_(tc + tol))
    elif k == "plane":
        r = recover_aux(case, ob)
        if r is None:
            return [(gid0, "plane-no-direction", false_goal)]
        pt, n, rr, pos = cvec(case["point"]), cvec(case["normal"]), cvec(r), cvec(case["pos"])
        closest = "plane_closest_uv %s %s %s %s" % (pt, n, rr, pos)
        conj.append(vnear("plane_pos %s %s %s (%s)" % (pt, n, rr, closest), ob["pos0"], mtol))
        conj.append("Rabs (fst (%s) - %s) <= %s" % (closest, R_(ob["params0"][0]), R_(mtol)))
        conj.append("Rabs (snd (%s) - %s) <= %s" % (closest, R_(ob["params0"][1]), R_(mtol)))
        conj.append(vnear("plane_closest_point %s %s %s" % (pt, n, pos), ob["pos0"], mtol))
        conj.append("norm (vsub %s %s) - norm (vsub %s (plane_closest_point %s %s %s)) <= %s"
                    % (pos, cvec(ob["pos0"]), pos, pt, n, pos, R_(objective_tol(vdist(case["pos"], ob["pos0"])))))
        c0 = "((%s, %s), %s)" % (R_(ob["params0"][0]), R_(ob["params0"][1]), cvec(ob["pos0"]))
        for q, p in zip(case["updates"], ob["upd"]):
            conj.append(vnear("clamp_position (clamp_update (plane_pos %s %s %s) %s (%s, %s))" % (pt, n, rr, c0, R_(q[0]), R_(q[1])), p, tol))
    elif k == "radial":
        p0, c, n = cvec(case["pos"]), cvec(case["center"]), cvec(case["normal"])
        kk = radial_k(case, ob)
        own = abs(kk * case["radius"] - 1.0) <= 1e-8
        if own:
            fn, t = "radial_pos %s %s %s" % (p0, c, n), tol
        else:
            fn, t, what = "radial_pos_k %s %s %s %s" % (p0, c, n, R_(kk)), tol * 10, "radial-other-k"
        conj.append(vnear("free_pos %s" % p0, ob["pos0"], mtol))
        c0 = "(%s, %s)" % (R_(ob["params0"][0]), cvec(ob["pos0"]))
        for q, p in [([ob["params0"][0]], ob["pos0"])] + list(zip(case["updates"], ob["upd"])):
            conj.append(vnear("clamp_position (clamp_update (%s) %s %s)" % (fn, c0, R_(q[0])), p, t))
    elif k in ("curve", "surface"):
        pos = cvec(case["pos"])
        if k == "curve":
            fn = "curve_pos %s" % curve_coq(case["family"], case["coeffs"])
            par = lambda q: R_(q[0])  # noqa: E731
            lo, hi = case["bounds"]
            samples = [[lo + (hi - lo) * i / 4.0] for i in range(5)] + [[min(max(case["tstar"], lo), hi)]]
        else:
            fn = "surface_pos %s" % surface_coq(case["family"], case["coeffs"])
            par = lambda q: "(%s, %s)" % (R_(q[0]), R_(q[1]))  # noqa: E731
            us, vs = case["star"]
            w = 1.0 if case["family"] == "cylinder" else case["size"] / 1.5
            h = case["size"] / 1.5
            samples = [[us, vs], [us + 0.3 * w, vs], [us - 0.3 * w, vs], [us, vs + 0.3 * h], [us, vs - 0.3 * h]]
            if case["bounds"] is not None:
                (ul, uh), (vl, vh) = case["bounds"]
                samples = [[min(max(a, ul), uh), min(max(b, vl), vh)] for a, b in samples]
        c0 = "(%s, %s)" % (par(ob["params0"]), cvec(ob["pos0"]))
        # on the manifold at its own parameters; no sampled point of the manifold is closer (the minimiser
        # assumption of C17_initial, monitored); created on the manifold => stays at the given position
        conj.append(vnear("clamp_position (clamp_update (%s) %s %s)" % (fn, c0, par(ob["params0"])), ob["pos0"], tol))
        for s in samples:
            conj.append("norm (vsub %s %s) - norm (vsub %s (clamp_position (clamp_update (%s) %s %s))) <= %s"
                        % (pos, cvec(ob["pos0"]), pos, fn, c0, par(s), R_(mtol)))
        if case["where"] == "on":
            conj.append(vnear("free_pos %s" % pos, ob["pos0"], mtol))
        for q, p in zip(case["updates"], ob["upd"]):
            conj.append(vnear("clamp_position (clamp_update (%s) %s %s)" % (fn, c0, par(q)), p, tol))
        tactic = "prep; fin"
    elif k == "free":
        c0 = "(%s, %s)" % (cvec(ob["params0"]), cvec(ob["pos0"]))
        conj.append(vnear("free_pos %s" % cvec(case["pos"]), ob["pos0"], mtol))
        for q, p in zip(case["updates"], ob["upd"]):
            conj.append(vnear("clamp_position (clamp_update free_pos %s %s)" % (c0, cvec(q)), p, tol))
        tactic = "prep; fin"
    else:
        l0, f0 = cvec(case["leader"]), cvec(case["follower"])
        if k == "translation":
            run = lambda ops: "tl_run (tl_init %s %s) %s" % (l0, f0, coq_ops(ops))  # noqa: E731
            pre, tactic = "tl", "prep; fin"
        elif k == "rotation":
            run = lambda ops: "rl_run_cs (rl_mk %s %s %s %s) %s" % (l0, f0, cvec(case["axis"]), cvec(case["origin"]), coq_ops(ops))  # noqa: E731
            pre = "rl"
        else:
            run = lambda ops: ("sl_run mirror_inplace (sl_init mirror_inplace %s %s %s %s) %s"  # noqa: E731
                               % (l0, f0, cvec(case["normal"]), cvec(case["origin"]), coq_ops(ops)))
            pre, tactic = "sl", "cbv [mirror_inplace]; prep; stage_all; fin"
        conj.append(vnear("%s_leader (%s)" % (pre, run([])), ob["leader0"], tol))
        conj.append(vnear("%s_follower (%s)" % (pre, run([])), ob["follower0"], tol))
        leader = case["leader"]
        for i, (op, st) in enumerate(zip(case["ops"], ob["steps"])):
            if op[0] == "move":
                leader = op[1]
                continue
            ops = case["ops"][:i + 1]
            t = tol
            if k == "rotation":
                o, ah = case["origin"], vunit(case["axis"])
                w0, w1 = vsub(case["leader"], o), vsub(leader, o)
                r0, r1 = vsub(w0, vscale(vdot(w0, ah), ah)), vsub(w1, vscale(vdot(w1, ah), ah))
                sn, cs = vdot(vcross(r0, r1), ah), vdot(r0, r1)
                if abs(sn) <= 1e-3 * math.hypot(sn, cs):
                    t, what = ACOSTOL * size, "rotation-boundary"
            conj.append(vnear("%s_follower (%s)" % (pre, run(ops)), st["follower"], t))
            conj.append(vnear("%s_leader (%s)" % (pre, run(ops)), st["leader"], tol))
    return [(gid0, what, goal(gid0, "\n  /\\ ".join("(%s)" % c for c in conj), tactic))]


def canonical(case):
    return json.dumps({k: case[k] for k in sorted(case) if k not in ("size", "where", "tstar", "star", "radius")}, sort_keys=True)


def nontrivial(case):
    """general position: no vanishing coordinate in any point / direction, normals and axes not of unit
    length, planes and axes not through the origin of coordinates"""
    vecs = [case[k] for k in ("p1", "p2", "pos", "point", "normal", "center", "leader", "follower", "axis", "origin") if k in case]
    if any(abs(x) < 1e-9 for v in vecs for x in v):
        return False
    for key in ("normal", "axis"):
        if key in case and abs(vnorm(case[key]) - 1.0) < 1e-6:
            return False
    return True


# ------------------------------------------------------------------------------------------------
# the source itself: what harness/translate_np.py translates for this property (python ast -> Gallina, fail closed)

SRC_MODULES = {
    "classy_blocks.util.functions": "util/functions.py",
    "classy_blocks.optimize.clamps.clamp": "optimize/clamps/clamp.py",
    "classy_blocks.optimize.clamps.curve": "optimize/clamps/curve.py",
    "classy_blocks.optimize.clamps.surface": "optimize/clamps/surface.py",
    "classy_blocks.optimize.links": "optimize/links.py",
}
_F, _CB, _CC, _CS, _LK = list(SRC_MODULES)
# values the translation does not look into: inputs of the translated functions
SRC_OPAQUE = {
    "numpy.random.random": "vec",  # PlaneClamp's auxiliary direction np.random.random(3)
    # f.rotate (scipy.linalg.expm inside): an uninterpreted total function of (point, angle, axis, origin)
    "classy_blocks.util.functions.rotate": ("fun", ["vec", "real", "vec", "vec"], "vec"),
}
_RL = {"leader": "vec", "origin": "vec", "axis": "vec", "orig_leader_radius": "vec", "orig_follower_pos": "vec"}
_SL = {"leader": "vec", "normal": "vec", "origin": "vec"}
# (kind, module, class | None, function, ..., Gallina name); callees before callers
SRC_ENTRIES = [
    ("fun", _F, None, "norm", {"matrix": "vec"}, "src_norm"),
    ("fun", _F, None, "unit_vector", {"vect": "vec"}, "src_unit_vector"),
    ("fun", _F, None, "angle_between", {"vect_1": "vec", "vect_2": "vec"}, "src_angle_between"),
    ("fun", _F, None, "point_to_line_distance", {"origin": "vec", "direction": "vec", "point": "vec"}, "src_point_to_line_distance"),
    ("fun", _F, None, "mirror_matrix", {"normal": "vec"}, "src_mirror_matrix"),
    ("fun", _F, None, "mirror", {"point": "vec", "normal": "vec", "origin": "vec"}, "src_mirror"),
    # the position functions handed to ClampBase.__init__ as `function` (closures of the constructors)
    ("closure", _CC, "LineClamp", "__init__", "function",
     {"position": "vec", "point_1": "vec", "point_2": "vec", "bounds": None}, {"t": ["real"]}, "src_LineClamp_function"),
    ("closure", _CS, "PlaneClamp", "__init__", "position_function",
     {"position": "vec", "point": "vec", "normal": "vec"}, {"params": ["real", "real"]}, "src_PlaneClamp_function"),
    ("closure", _CC, "RadialClamp", "__init__", "<lambda>",
     {"position": "vec", "center": "vec", "normal": "vec", "bounds": None}, {"params": ["real"]}, "src_RadialClamp_function"),
    # the links: transform() as a function of the attributes of the link
    ("meth", _LK, "TranslationLink", "transform", {}, {"leader": "vec", "vector": "vec"}, "src_TranslationLink_transform"),
    ("meth", _LK, "SymmetryLink", "_get_follower", {}, _SL, "src_SymmetryLink_get_follower"),
    ("meth", _LK, "SymmetryLink", "transform", {}, _SL, "src_SymmetryLink_transform"),
    ("meth", _LK, "RotationLink", "_get_height", {"point": "vec"}, _RL, "src_RotationLink_get_height"),
    ("meth", _LK, "RotationLink", "_get_radius", {"point": "vec"}, _RL, "src_RotationLink_get_radius"),
    ("meth", _LK, "RotationLink", "transform", {}, _RL, "src_RotationLink_transform"),
]


def translate_source():
    """-> (text of Gen/C17/Source.v, the translator)"""
    root = os.path.join(core.REPO, "src", "classy_blocks")
    tr = translate_np.Translator({m: os.path.join(root, rel) for m, rel in SRC_MODULES.items()}, opaque=SRC_OPAQUE)
    what = []
    for e in SRC_ENTRIES:
        kind, m, cls, f = e[:4]
        coq = e[-1]
        if kind == "fun":
            got = tr.entry(m, f, e[4], coq=coq)
            what.append("%s.%s" % (m.split(".")[-1], f))
        elif kind == "meth":
            got = tr.entry_method(m, cls, f, e[4], attrs=e[5], coq=coq)
            what.append("%s.%s" % (cls, f))
        else:
            got = tr.entry_closure(m, cls, f, e[4], e[5], e[6], passed_as="function", coq=coq)
            what.append("%s.%s.%s" % (cls, f, e[4]))
        if got != coq:
            raise GenError("%s.%s was translated as %s, not as the entry %s" % (cls or m, f, got, coq))
    text = tr.source_text("C17: " + ", ".join(what) + " of the working tree of /repo.")
    return text, tr


class C17(Prop):
    pid = "C17"
    title = "Clamps stay on their manifold and links keep their relation"
    prebuilt = ["Base/Vec3.v", "Proofs/SourceEqTac.v", "Model/C17_ClampLink.v", "Proofs/C17_ClampLink.v", "Proofs/C17_Staged.v"]
    gen_dependent_files = ["Gen/C17/Flags.v", "Gen/C17/Source.v", "Proofs/C17_SourceEq.v"]
    property_files = ["Properties/C17.v"]
    trusted = [
        "the numpy-vector AST translator harness/translate_np.py (functions.py: norm, unit_vector, angle_between, "
        "point_to_line_distance, mirror_matrix, mirror; clamps/curve.py, surface.py: the position functions of LineClamp, "
        "PlaneClamp, RadialClamp = the closures / the lambda their constructors hand to ClampBase.__init__ as `function`, each "
        "translated as the statements of the constructor before it followed by its body; links.py: TranslationLink.transform, "
        "SymmetryLink._get_follower / transform, RotationLink._get_height / _get_radius / transform as functions of the link's "
        "attributes -> Gen/C17/Source.v; Proofs/C17_SourceEq.v proves translated source = Model/C17_ClampLink.v for all arguments "
        "on every run, theorem C17_source_is_model). Its fragment: " + translate_np.FRAGMENT + ".  Its reading of python / numpy "
        "is what is trusted: floats as reals; unit_vector of the zero vector and a division by a zero radius (numpy: nan / inf "
        "and a RuntimeWarning) as 'no value' (None), the lemmas carry p1 <> p2, cross(r, n) <> 0, n <> 0, radius <> 0, leader "
        "off the axis; np.random.random(3) is an INPUT (the model's r); functions.rotate (scipy.linalg.expm, outside the fragment) "
        "is an uninterpreted total FUNCTION input of the values of its four arguments, instantiated with the model's rotate; a "
        "closure is read with the values its free variables have when it is defined (checked: they are not re-bound afterwards, "
        "and the closure is what super().__init__ receives as `function`); np.array / np.copy are the identity on values "
        "(aliasing is not modelled: whether functions.mirror alters its argument stays with Gen/C17/Flags.v); run-time tie: the "
        "functions / methods the library calls are the parsed ones (file, first line), the base classes are the ones walked",
        "hand-written model Model/C17_ClampLink.v: for the position functions of LineClamp / PlaneClamp / RadialClamp (up to "
        "rotate), the three link transforms (RotationLink up to rotate), unit_vector, angle_between, point_to_line_distance, "
        "mirror no longer trusted (proved equal to the translated source); that functions.rotate is Rodrigues' rotation "
        "(scipy.linalg.expm), the constructors of the links (super().__init__, self.vector, the ValueError of RotationLink), "
        "LinkBase.update, ClampBase.__init__ / update_params / get_params, LineClamp's default bounds, CurveClamp and "
        "ParametricSurfaceClamp remain tied by sampled, kernel-decided numeric agreement only (interval, 80 bits, staged by "
        "Proofs/C17_Staged.v)",
        "scipy.linalg.expm of the skew matrix is modelled by Rodrigues' formula; numpy float arithmetic read as real "
        "arithmetic within 1e-9*size (1e-6*size where arccos is evaluated within 1e-3 rad of 0 or pi)",
        "scipy.optimize.minimize inside ClampBase.get_params is an argument of the model; theorem C17_initial assumes it "
        "returns a minimiser of the distance over the bounds; the check monitors that on every instance (1e-4*size) against "
        "the closed forms (line, plane, radial, free) or sampled points of the manifold (curve, surface)",
        "Gen/C17/Flags.v: whether SymmetryLink alters its leader, tabulated from the working tree on every run",
        "PlaneClamp's auxiliary direction (np.random) and RadialClamp's angle per unit of parameter are recovered from the "
        "implementation's own output (the theorems hold for every admissible value)",
        "curve / surface clamps are exercised on analytic curves and surfaces defined by the harness (helix, cubic, "
        "paraboloid, cylinder); the curve classes of the library are the subject of C16",
    ]
    partial = [
        "C17_initial: conditional on the minimiser assumption (argmin over the bounds); unconditional closed forms are proved "
        "for LineClamp (C17_initial_line) and PlaneClamp (C17_initial_plane) only; RadialClamp/FreeClamp start at distance zero; "
        "curve and surface clamps are validated per instance",
    ]

    # -- S1 --------------------------------------------------------------------------------------
    def generate(self, ctx):
        np = _np()
        from classy_blocks.optimize.links import SymmetryLink
        verdicts = []
        for (l, f, n, o) in (([1.0, 2.0, 3.0], [1.0, 2.0, -1.0], [0.0, 0.0, 2.0], [0.5, 0.25, 1.0]),
                             ([0.3, -1.2, 0.7], [2.0, 0.1, 0.4], [1.0, -2.0, 0.5], [-0.75, 0.5, 2.0])):
            link = SymmetryLink(np.array(l), np.array(f), n, o)
            seen = [lst(link.leader)]
            arr = np.array(l)
            link.leader = arr
            link.update()
            seen.append(lst(link.leader))
            seen.append(lst(arr))
            if all(vdist(s, l) == 0 for s in seen):
                verdicts.append(False)
            elif vdist(seen[0], vsub(l, o)) <= 1e-12 and vdist(seen[1], vsub(l, o)) <= 1e-12:
                verdicts.append(True)
            else:
                raise GenError("SymmetryLink alters its leader in an unexpected way: given %r origin %r, leader %r after "
                               "construction, %r after update" % (l, o, seen[0], seen[1]))
        if len(set(verdicts)) != 1:
            raise GenError("SymmetryLink alters its leader for some inputs only: %r" % (verdicts,))
        ctx.write_gen("Flags", "(* GENERATED by harness/props/C17.py from the working tree of /repo -- do not edit *)\n"
                               "Definition mirror_inplace : bool := %s.\n" % ("true" if verdicts[0] else "false"))
        # the source itself: python -> Gallina (fail closed), proved equal to the model by Proofs/C17_SourceEq.v
        text, tr = translate_source()
        tr.tie_to_runtime()
        ctx.write_gen("Source", text)
        ctx.log("S1: clamp / link code translated: %d definitions (%s)" % (len(tr.summary), ", ".join(d["coq"] for d in tr.summary)))

    # -- S3 --------------------------------------------------------------------------------------
    def make_cases(self, ctx):
        rng = ctx.rng
        cases = [dict(c) for c in CORPUS]
        per = dict(line=ctx.n(12, 160), plane=ctx.n(8, 90), radial=ctx.n(8, 90), curve=ctx.n(8, 100), surface=ctx.n(8, 100),
                   free=ctx.n(4, 40), translation=ctx.n(8, 80), rotation=ctx.n(12, 110), symmetry=ctx.n(12, 150))
        for k, n in per.items():
            for _ in range(n):
                cases.append(GENS[k](rng))
        return cases

    def correspond(self, ctx):
        res = CorrResult()
        res.rule = ("[position functions of LineClamp / PlaneClamp / RadialClamp and the three link transforms: the model is proved "
                    "equal to the translated source for all arguments (Proofs/C17_SourceEq.v), rotate being an input function; "
                    "these samples validate the translator's reading, tie functions.rotate to Rodrigues' formula and tie the "
                    "constructors, update protocol and minimiser] "
                    "clamp and link instances in general position (size 10^U(-1,1.5), random non-unit directions, shifted origins): "
                    "construct, then update_params with several values / the optimizer's `leader = p; update()` protocol with "
                    "1..3 leader moves of any size; compared in Coq: initial parameters and position against the closed-form "
                    "closest point, every updated position, follower and leader after every update; non-trivial = no vanishing "
                    "coordinate, non-unit normal/axis; distinct by input")
        cases = self.make_cases(ctx)
        goals, obs = [], []
        gid = 0
        for i, case in enumerate(cases):
            ob = run_impl(case)
            obs.append(ob)
            res.evaluations += 1
            res.count("kind=" + case["kind"])
            if "where" in case:
                res.count("%s:%s" % (case["kind"], case["where"]))
            if nontrivial(case):
                res.distinct.add(canonical(case))
            bad = oracle(case, ob)
            if bad:
                res.oracle_failures.append(dict(kind=case["kind"], case=case, observed=ob, sig=bad[0], why=bad[1]))
            for (g, what, text) in coq_goals(case, ob, gid):
                goals.append((g, i, what, text))
                res.count("goal=" + what)
                if what.endswith("boundary"):
                    res.boundary += 1
                gid = g + 1
        res.samples = [dict(case=cases[i], observed=obs[i]) for i in (0, len(cases) // 3, len(cases) // 2, len(cases) - 1)]
        # shard: spread the expensive goals evenly
        nsh = max(1, min(ctx.n(8, 16), len(goals) // 5))
        per_file = 160
        nsh = max(nsh, -(-len(goals) // per_file))
        buckets = [[] for _ in range(nsh)]
        order = sorted(range(len(goals)), key=lambda j: (cases[goals[j][1]]["kind"], j))  # spread every kind over all files
        for pos_, j in enumerate(order):
            buckets[pos_ % nsh].append(goals[j])
        shards = [("cases_%d" % j, HEADER + "\n".join(g[3] for g in b)) for j, b in enumerate(buckets) if b]
        seen = {}
        for (name, rc, so, se) in core.run_cases_parallel(ctx, shards, timeout=1500):
            if rc != 0:
                res.error = "case file %s failed to compile: %s" % (name, se[-800:])
                return res
            for m in re.finditer(r"^(OK|MISMATCH) (\d+)\s*$", so, flags=re.M):
                seen[int(m.group(2))] = m.group(1)
        for (g, i, what, _t) in goals:
            v = seen.get(g)
            if v is None:
                res.error = "goal %d (%s) produced no verdict" % (g, what)
                return res
            if v == "MISMATCH":
                res.mismatches.append(dict(goal=g, what=what, case=cases[i], impl=obs[i]))
        res.traces = len(goals)
        return res

    # -- S4 --------------------------------------------------------------------------------------
    def search(self, ctx, broken, corr):
        fails = []
        seen = set()

        def consider(case, ob=None):
            ob = ob if ob is not None else run_impl(case)
            bad = oracle(case, ob)
            if bad and bad[0] not in seen:
                seen.add(bad[0])
                fails.append(dict(kind=case["kind"], case=case, observed=ob, sig=bad[0], why=bad[1]))
        for c in CORPUS:
            consider(dict(c))
        for m in corr.mismatches[:40]:
            consider(m["case"], m["impl"])
        rng = ctx.rng
        kinds = sorted(GENS)
        for i in range(ctx.n(900, 9000)):
            try:
                consider(GENS[kinds[i % len(kinds)]](rng))
            except GenError:
                continue
        return fails

    def signature(self, rp):
        return rp.get("sig") or "C17:%s" % rp.get("kind")

    def replay(self, ctx, obj):
        case = obj.get("case")
        if not case:
            print("nothing to replay (no failing input was found):", json.dumps(obj.get("broken_obligations"), default=str)[:1500])
            return 0
        ob = run_impl(case)
        print("input:", json.dumps(case))
        print("implementation:", json.dumps(ob))
        bad = oracle(case, ob)
        print("oracle:", ("FAIL %s: %s" % bad) if bad else "ok")
        return 0


PROP = C17()
