"""C13 - Optimization never worsens quality; only clamped vertices move, on constraints.

Tie (U): the optimizer's bookkeeping (optimize_clamp / _get_sensitivity / GridBase.update / backport) is the
executable model coq/Model/C13_Optimizer.v, polymorphic in the clamp functions, link transforms, quality
function and with scipy's minimize / approx_fprime as ORACLES (arbitrary trial lists).  The harness replaces
the two scipy entry points, as seen from optimizer.py, by a shim that is either a scripted adversarial
minimiser or a recorder around the real routine, records the trial lists and snapshots of the working point
array / clamp parameters, tabulates the pure functions the model needs (clamp.function, link transform,
grid/junction quality: evaluated by the real code on exactly the arguments that occur) and lets Coq run the
model on the recorded oracles; the comparison with the implementation's snapshots is done inside Coq.
The direct oracle states the property on the mesh / sketch before and after optimize().
"""
import contextlib
import copy
import io
import json
import math
import os
import struct
import warnings

import core
from core import CorrResult, Prop

METHODS = ["SLSQP", "L-BFGS-B", "Nelder-Mead", "Powell"]
CLAMP_TYPES = ["free", "line", "curve", "radial", "plane", "surface"]
LINK_TYPES = ["translation", "rotation", "symmetry"]
SCRIPT_KINDS = ["random", "best-last", "worst-last", "raise-at-k", "improve-then-worse", "no-trials", "far", "collapse"]


def _np():
    import numpy as np
    return np


# ------------------------------------------------------------------------------------------------
# case specifications (JSON-serialisable, replayable)


def unit(v):
    n = math.sqrt(sum(x * x for x in v))
    return [x / n for x in v]


def rand_vec(rng, scale=1.0):
    return [rng.uniform(-1, 1) * scale for _ in range(3)]


def rand_unit(rng):
    while True:
        v = rand_vec(rng)
        if sum(x * x for x in v) > 0.05:
            return unit(v)


def cross(a, b):
    return [a[1] * b[2] - a[2] * b[1], a[2] * b[0] - a[0] * b[2], a[0] * b[1] - a[1] * b[0]]


def dot(a, b):
    return sum(x * y for x, y in zip(a, b))


def lattice_mesh(nx, ny, nz):
    """points and hexahedra (blockMesh numbering) of an nx x ny x nz lattice of unit boxes"""
    idx = {}
    pts = []
    for k in range(nz + 1):
        for j in range(ny + 1):
            for i in range(nx + 1):
                idx[(i, j, k)] = len(pts)
                pts.append([float(i), float(j), float(k)])
    cells = []
    for k in range(nz):
        for j in range(ny):
            for i in range(nx):
                cells.append([idx[(i, j, k)], idx[(i + 1, j, k)], idx[(i + 1, j + 1, k)], idx[(i, j + 1, k)],
                              idx[(i, j, k + 1)], idx[(i + 1, j, k + 1)], idx[(i + 1, j + 1, k + 1)], idx[(i, j + 1, k + 1)]])
    return pts, cells


def lattice_sketch(nx, ny):
    idx = {}
    pts = []
    for j in range(ny + 1):
        for i in range(nx + 1):
            idx[(i, j)] = len(pts)
            pts.append([float(i), float(j), 0.0])
    quads = []
    for j in range(ny):
        for i in range(nx):
            quads.append([idx[(i, j)], idx[(i + 1, j)], idx[(i + 1, j + 1)], idx[(i, j + 1)]])
    return pts, quads


def gen_clamp(rng, kind, v, pos, planar):
    """a clamp whose manifold passes through pos (the vertex)"""
    t = rng.choice(["line", "curve", "radial", "plane"] if planar else CLAMP_TYPES)
    c = {"v": v, "type": t}
    if t == "line":
        d = rand_unit(rng)
        if planar:
            d = unit([d[0], d[1] + 0.3, 0.0])
        c["dir"] = d
        c["a"] = rng.uniform(0.1, 0.5)
        c["b"] = rng.uniform(0.1, 0.5)
        c["bounds"] = None if rng.random() < 0.5 else [c["a"] - rng.uniform(0.02, 0.3), c["a"] + rng.uniform(0.02, 0.3)]
        if c["bounds"] is not None and rng.random() < 0.2:
            c["bounds"][rng.randrange(2)] = c["a"]   # the vertex sits on a bound of the line
    elif t == "curve":
        d = rand_unit(rng)
        e = rand_vec(rng, 0.5)
        if planar:
            d = unit([d[0], d[1] + 0.3, 0.0])
            e = [e[0], e[1], 0.0]
        c["d"] = [x * rng.uniform(0.3, 0.8) for x in d]
        c["e"] = e
        # the vertex sometimes sits on an END of the curve: the clamp then starts on a bound of its parameter
        c["t0"] = rng.choice([0.0, 1.0]) if rng.random() < 0.15 else rng.uniform(0.15, 0.85)
        c["initial"] = rng.random() < 0.5
    elif t == "radial":
        off = rand_vec(rng, 0.6)
        n = rand_unit(rng)
        if planar:
            off = [off[0], off[1] + 0.3, 0.0]
            n = [0.0, 0.0, 1.0]
        # keep the centre away from the axis through pos
        c["center"] = [pos[i] + off[i] for i in range(3)]
        c["normal"] = n
        c["bounds"] = None if rng.random() < 0.5 else [-rng.uniform(0.05, 0.4), rng.uniform(0.05, 0.4)]
    elif t == "plane":
        c["normal"] = [0.0, 0.0, 1.0] if planar else rand_unit(rng)
        c["np_seed"] = rng.randrange(1 << 30)
    elif t == "surface":
        u = rand_unit(rng)
        w = rand_unit(rng)
        n = unit(cross(u, w))
        v2 = cross(n, u)
        c["u"] = u
        c["w"] = v2
        c["c"] = rng.uniform(-0.6, 0.6)
        c["bounds"] = None if rng.random() < 0.5 else [[-rng.uniform(0.05, 0.4), rng.uniform(0.05, 0.4)],
                                                      [-rng.uniform(0.05, 0.4), rng.uniform(0.05, 0.4)]]
    return c


def gen_case(rng, kind=None, minimizer=None):
    kind = kind or rng.choice(["mesh", "mesh", "sketch"])
    spec = {"kind": kind}
    if kind == "mesh":
        dims = rng.choice([(1, 1, 1), (2, 1, 1), (2, 2, 1), (2, 1, 2), (3, 1, 1), (2, 2, 2)])
        pts, cells = lattice_mesh(*dims)
        amp = rng.choice([0.05, 0.12, 0.2])
        pts = [[x + rng.uniform(-amp, amp) for x in p] for p in pts]
    else:
        dims = rng.choice([(2, 2), (3, 2), (3, 3), (2, 1)])
        pts, cells = lattice_sketch(*dims)
        amp = rng.choice([0.05, 0.12, 0.2])
        pts = [[p[0] + rng.uniform(-amp, amp), p[1] + rng.uniform(-amp, amp), 0.0] for p in pts]
    spec["dims"] = list(dims)
    n = len(pts)
    order = list(range(n))
    rng.shuffle(order)
    nclamps = rng.randint(1, min(4, n - 1))
    clamped = order[:nclamps]
    rest = order[nclamps:]
    links = []
    if rng.random() < 0.55 and rest:
        nlinks = rng.randint(1, min(2, len(rest)))
        for k in range(nlinks):
            f = rest.pop()
            ld = rng.choice(clamped)
            lt = rng.choice(LINK_TYPES)
            l = {"leader": ld, "follower": f, "type": lt}
            if lt == "rotation":
                l["axis"] = [0.0, 0.0, 1.0] if kind == "sketch" else rand_unit(rng)
                l["origin"] = [pts[ld][i] + rng.choice([-1, 1]) * rng.uniform(0.3, 1.0) for i in range(3)]
                if kind == "sketch":
                    l["origin"][2] = 0.0
            elif lt == "symmetry":
                # the plane is the perpendicular bisector of leader-follower (optionally moved through 0)
                nrm = [pts[f][i] - pts[ld][i] for i in range(3)]
                if rng.random() < 0.5:
                    l["normal"] = nrm
                    l["origin"] = [(pts[f][i] + pts[ld][i]) / 2 for i in range(3)]
                elif not any(x["type"] == "symmetry" for x in links):
                    # plane through the global origin: move the whole lattice so that the bisector
                    # plane passes through 0 and put the follower at the exact mirror image
                    mid = [(pts[f][i] + pts[ld][i]) / 2 for i in range(3)]
                    pts = [[p[i] - mid[i] for i in range(3)] for p in pts]
                    nn = unit(nrm)
                    l["normal"] = nn
                    l["origin"] = [0.0, 0.0, 0.0]
                    s = 2 * dot(pts[ld], nn)
                    pts[f] = [pts[ld][i] - s * nn[i] for i in range(3)]
                    for x in links:
                        if "origin" in x:
                            x["origin"] = [x["origin"][i] - mid[i] for i in range(3)]
                else:
                    l["type"] = "translation"
            links.append(l)
    spec["points"] = pts
    spec["cells"] = cells
    clamps = []
    for v in sorted(clamped):
        if kind == "mesh" and rng.random() < 0.2:
            clamps.append({"v": v, "type": "free"})
        else:
            clamps.append(gen_clamp(rng, kind, v, pts[v], planar=(kind == "sketch")))
    spec["clamps"] = clamps
    spec["links"] = links
    spec["method"] = rng.choice(METHODS)
    spec["iterations"] = rng.randint(1, 3)
    spec["tolerance"] = rng.choice([0.0, 0.1])
    if minimizer is None:
        minimizer = rng.choice(["scripted", "scripted", "real-capped", "real"])
    spec["minimizer"] = minimizer
    spec["script_seed"] = rng.randrange(1 << 30)
    spec["maxiter"] = rng.randint(2, 8)
    return spec


# ------------------------------------------------------------------------------------------------
# building the real objects


class SetupError(Exception):
    pass


def make_clamp(c, pos):
    np = _np()
    from classy_blocks.optimize.clamps.free import FreeClamp
    from classy_blocks.optimize.clamps.curve import LineClamp, RadialClamp, CurveClamp
    from classy_blocks.optimize.clamps.surface import PlaneClamp, ParametricSurfaceClamp
    from classy_blocks.construct.curves.analytic import AnalyticCurve
    pos = np.array(pos, dtype=float)
    t = c["type"]
    if t == "free":
        return FreeClamp(pos)
    if t == "line":
        d = np.array(c["dir"])
        p1 = pos - c["a"] * d
        p2 = pos + c["b"] * d
        return LineClamp(pos, p1, p2, None if c["bounds"] is None else tuple(c["bounds"]))
    if t == "curve":
        d, e, t0 = np.array(c["d"]), np.array(c["e"]), c["t0"]
        curve = AnalyticCurve(lambda s: pos + (s - t0) * d + (s - t0) ** 2 * e, (0.0, 1.0))
        return CurveClamp(pos, curve, t0 if c.get("initial") else None)
    if t == "radial":
        return RadialClamp(pos, c["center"], c["normal"], c["bounds"])
    if t == "plane":
        st = np.random.get_state()
        np.random.seed(c["np_seed"])
        try:
            return PlaneClamp(pos, pos, c["normal"])
        finally:
            np.random.set_state(st)
    if t == "surface":
        u, w = np.array(c["u"]), np.array(c["w"])
        n = np.cross(u, w)
        k = c["c"]
        return ParametricSurfaceClamp(pos, lambda p: pos + p[0] * u + p[1] * w + k * (p[0] ** 2 + p[1] ** 2) * n, c["bounds"])
    raise SetupError("unknown clamp type " + t)


def make_link(l, pts):
    from classy_blocks.optimize.links import TranslationLink, RotationLink, SymmetryLink
    ld, fl = pts[l["leader"]], pts[l["follower"]]
    if l["type"] == "translation":
        return TranslationLink(ld, fl)
    if l["type"] == "rotation":
        return RotationLink(ld, fl, l["axis"], l["origin"])
    if l["type"] == "symmetry":
        return SymmetryLink(ld, fl, l["normal"], l["origin"])
    raise SetupError("unknown link type")


class Built:
    pass


def build(spec):
    """mesh / sketch, optimizer, clamps (in junction order) and links of a case"""
    np = _np()
    import classy_blocks as cb
    from classy_blocks.optimize.optimizer import MeshOptimizer, SketchOptimizer
    b = Built()
    b.spec = spec
    pts = [list(map(float, p)) for p in spec["points"]]
    if spec["kind"] == "mesh":
        mesh = cb.Mesh()
        for cell in spec["cells"]:
            bottom = cb.Face([pts[i] for i in cell[:4]])
            top = cb.Face([pts[i] for i in cell[4:]])
            mesh.add(cb.Loft(bottom, top))
        with warnings.catch_warnings():
            warnings.simplefilter("ignore")
            mesh.assemble()
        # vertex numbering of the assembled mesh -> numbering of the spec
        b.vmap = []
        for p in pts:
            hits = [v.index for v in mesh.vertices if float(np.linalg.norm(v.position - np.array(p))) < 1e-9]
            if len(hits) != 1:
                raise SetupError("mesh vertex for point %r not unique: %r" % (p, hits))
            b.vmap.append(hits[0])
        if len(mesh.vertices) != len(pts):
            raise SetupError("mesh has %d vertices for %d points" % (len(mesh.vertices), len(pts)))
        b.mesh = mesh
        b.opt = MeshOptimizer(mesh, report=False)
    else:
        from classy_blocks.construct.flat.sketches.mapped import MappedSketch
        b.sketch = MappedSketch(np.array(pts), [list(q) for q in spec["cells"]])
        b.vmap = list(range(len(pts)))
        b.opt = SketchOptimizer(b.sketch, report=False)
    b.inv = {g: s for s, g in enumerate(b.vmap)}  # grid index -> spec index
    b.clamps = []
    for c in sorted(spec["clamps"], key=lambda c: b.vmap[c["v"]]):
        cl = make_clamp(c, pts[c["v"]])
        b.opt.add_clamp(cl)
        b.clamps.append((c, cl))
    b.links = []
    for l in spec["links"]:
        lk = make_link(l, pts)
        b.opt.add_link(lk)
        b.links.append((l, lk))
    return b


def positions(b):
    """observable vertex positions (spec numbering)"""
    np = _np()
    if b.spec["kind"] == "mesh":
        return [np.array(b.mesh.vertices[b.vmap[i]].position, dtype=float) for i in range(len(b.vmap))]
    pos = b.sketch.positions
    return [np.array(pos[i], dtype=float) for i in range(len(b.vmap))]


def fresh_grid(b, pts_grid_order):
    np = _np()
    from classy_blocks.optimize.grid import HexGrid, QuadGrid
    g = b.opt.grid
    cls = HexGrid if b.spec["kind"] == "mesh" else QuadGrid
    return cls(np.array(pts_grid_order, dtype=float), [list(c.indexes) for c in g.cells])


def quality_of(grid):
    """(value, None) or (None, 'ValueError')"""
    try:
        with warnings.catch_warnings():
            return float(grid.quality), None
    except ValueError:
        return None, "ValueError"


# ------------------------------------------------------------------------------------------------
# the shim (scripted minimiser / recorder)


class Recorder:
    def __init__(self, b, mode, seed, maxiter):
        import random
        self.b = b
        self.mode = mode
        self.rng = random.Random(seed)
        self.maxiter = maxiter
        self.calls = []
        self.active = False

    def snapshot(self):
        np = _np()
        return (np.array(self.b.opt.grid.points, dtype=float).copy(),
                [np.array(cl.params, dtype=float).copy() for (_c, cl) in self.b.clamps])

    def identify(self, x):
        np = _np()
        hits = [k for k, (_c, cl) in enumerate(self.b.clamps) if cl.params is x]
        if len(hits) == 1:
            return hits[0]
        hits = [k for k, (_c, cl) in enumerate(self.b.clamps)
                if np.shape(cl.params) == np.shape(x) and np.array_equal(np.asarray(cl.params), np.asarray(x))]
        if len(hits) == 1:
            return hits[0]
        return None

    def begin(self, kind, x0):
        np = _np()
        call = dict(kind=kind, cid=self.identify(x0), x0=np.array(x0, dtype=float).copy(), trials=[], values=[],
                    trial_raised=False, min_raised=False, before=self.snapshot(), script=None)
        self.calls.append(call)
        return call

    def wrap(self, call, fun):
        np = _np()

        def f(x, *a):
            xs = np.array(x, dtype=float).copy()
            call["trials"].append(xs)
            try:
                v = fun(x, *a)
            except ValueError:
                call["trial_raised"] = True
                raise
            if call["cid"] is None:
                call["cid"] = self.identify(x)
            call["values"].append(float(v))
            return v
        return f


def install_shim(rec):
    """replace scipy.optimize.minimize / approx_fprime as seen from optimizer.py; returns an undo function"""
    import scipy.optimize as so
    from classy_blocks.optimize import optimizer as optmod
    real_min, real_fp = so.minimize, so.approx_fprime
    np = _np()

    def minimize(fun, x0, *args, **kw):
        if not rec.active:
            return real_min(fun, x0, *args, **kw)
        call = rec.begin("min", x0)
        call["bounds"] = kw.get("bounds")
        call["method"] = kw.get("method")
        f = rec.wrap(call, fun)
        if rec.mode in ("real", "real-capped"):
            if rec.mode == "real-capped":
                kw = dict(kw)
                kw["options"] = dict(maxiter=rec.maxiter)
            rec.active = False
            try:
                with warnings.catch_warnings():
                    warnings.simplefilter("ignore")
                    return real_min(f, x0, *args, **kw)
            except ValueError:
                if not call["trial_raised"]:
                    call["min_raised"] = True
                raise
            finally:
                rec.active = True
        try:
            return scripted_minimize(rec, call, f, np.array(x0, dtype=float), kw.get("bounds"))
        except ValueError:
            if not call["trial_raised"]:
                call["min_raised"] = True
            raise

    def approx_fprime(xk, f, *args, **kw):
        if not rec.active:
            return real_fp(xk, f, *args, **kw)
        call = rec.begin("probe", xk)
        rec.active = False
        try:
            return real_fp(xk, rec.wrap(call, f), *args, **kw)
        finally:
            rec.active = True

    class _Opt:
        def __getattr__(self, name):
            if name == "minimize":
                return minimize
            if name == "approx_fprime":
                return approx_fprime
            return getattr(so, name)

    class _Scipy:
        optimize = _Opt()

        def __getattr__(self, name):
            import scipy
            return getattr(scipy, name)

    saved = {}
    patched = False
    if hasattr(optmod, "scipy"):
        saved["scipy"] = optmod.scipy
        optmod.scipy = _Scipy()
        patched = True
    for name, repl in (("minimize", minimize), ("approx_fprime", approx_fprime)):
        if hasattr(optmod, name):
            saved[name] = getattr(optmod, name)
            setattr(optmod, name, repl)
            patched = True
    if not patched:
        raise SetupError("no patch point for scipy.optimize in optimizer.py")

    def undo():
        for k, v in saved.items():
            setattr(optmod, k, v)
    return undo


def scripted_minimize(rec, call, f, x0, bounds):
    """an arbitrary 'minimiser': evaluates whatever it likes, returns whatever it likes"""
    np = _np()
    import scipy.optimize as so
    rng = rec.rng
    kind = rng.choice(SCRIPT_KINDS)
    call["script"] = kind

    def clip(x):
        if bounds is None:
            return x
        x = np.array(x, dtype=float)
        for i, bd in enumerate(bounds):
            lo, hi = bd
            if lo is not None:
                x[i] = max(x[i], lo)
            if hi is not None:
                x[i] = min(x[i], hi)
        return x

    def near(scale):
        return clip(x0 + np.array([rng.uniform(-scale, scale) for _ in x0]))

    res = so.OptimizeResult(x=x0, success=True)
    if kind == "no-trials":
        return res
    seen = []

    def ev(x):
        v = f(np.array(x, dtype=float))
        seen.append((float(v), np.array(x, dtype=float)))
        return v

    ev(x0)
    k = rng.randint(0, 4)
    scale = rng.choice([1e-3, 0.02, 0.1, 0.3])
    if kind == "far":
        scale = rng.choice([2.0, 10.0])
        k = max(k, 1)
    if kind == "collapse":
        # aim at the neighbouring junction: a collapsed edge (degenerate cell for quads)
        cid = call["cid"]
        if cid is not None and rec.b.clamps[cid][0]["type"] in ("free", "plane"):
            cl = rec.b.clamps[cid][1]
            g = rec.b.opt.grid
            j = g.get_junction_from_clamp(cl)
            if j.neighbours:
                target = np.array(rng.choice(j.neighbours).point, dtype=float)
                if rec.b.clamps[cid][0]["type"] == "free":
                    ev(target)
                else:
                    # plane clamp: solve function(p) = target in the least-squares sense
                    o = cl.function([0.0, 0.0])
                    u = cl.function([1.0, 0.0]) - o
                    w = cl.function([0.0, 1.0]) - o
                    ev([float(np.dot(target - o, u)), float(np.dot(target - o, w))])
        return res
    for _ in range(k):
        ev(near(scale))
    if kind == "raise-at-k":
        raise ValueError("scripted minimiser failure")
    if kind in ("best-last", "improve-then-worse"):
        for _ in range(3):
            ev(near(scale / 4))
        best = min(seen, key=lambda t: t[0])
        ev(best[1])
        if kind == "improve-then-worse":
            worst = max(seen, key=lambda t: t[0])
            ev(worst[1] if worst[0] > best[0] else near(scale * 3))
    if kind == "worst-last":
        worst = max(seen, key=lambda t: t[0])
        ev(worst[1])
    return res


# ------------------------------------------------------------------------------------------------
# running one case on the implementation


def run_case(spec):
    """returns a record with everything observed"""
    np = _np()
    rec_out = dict(spec=spec, setup_error=None)
    try:
        with contextlib.redirect_stdout(io.StringIO()):
            b = build(spec)
    except Exception as e:
        rec_out["setup_error"] = "%s: %s" % (type(e).__name__, str(e)[:200])
        return rec_out, None
    before = positions(b)
    rec = Recorder(b, spec["minimizer"], spec["script_seed"], spec["maxiter"])
    init_snapshot = rec.snapshot()
    undo = install_shim(rec)
    exc = None
    driver = None
    try:
        rec.active = True
        with contextlib.redirect_stdout(io.StringIO()):
            driver = b.opt.optimize(max_iterations=spec["iterations"], tolerance=spec["tolerance"], method=spec["method"])
    except Exception as e:  # the property does not allow any exception to escape a well-formed case
        exc = "%s: %s" % (type(e).__name__, str(e)[:200])
    finally:
        rec.active = False
        undo()
        warnings.resetwarnings()
    after = positions(b)
    rec_out.update(before=before, after=after, exception=exc, calls=rec.calls, init=init_snapshot,
                   final=rec.snapshot(),
                   iterations=None if driver is None else [(float(it.initial_quality), float(it.final_quality)) for it in driver.iterations])
    return rec_out, b


# ------------------------------------------------------------------------------------------------
# direct oracle: the property stated on positions before/after, independent of the Coq model


def my_rotate(p, angle, axis, origin):
    np = _np()
    k = np.array(axis, dtype=float)
    k = k / np.linalg.norm(k)
    v = np.array(p, dtype=float) - np.array(origin, dtype=float)
    return (v * math.cos(angle) + np.cross(k, v) * math.sin(angle) + k * np.dot(k, v) * (1 - math.cos(angle))
            + np.array(origin, dtype=float))


def my_mirror(p, normal, origin):
    np = _np()
    n = np.array(normal, dtype=float)
    n = n / np.linalg.norm(n)
    o = np.array(origin, dtype=float)
    p = np.array(p, dtype=float)
    return p - 2 * np.dot(p - o, n) * n


def link_image(l, leader0, follower0, leader):
    """where the follower has to be, given the leader's position (independent restatement)"""
    np = _np()
    if l["type"] == "translation":
        return np.array(leader) + (np.array(follower0) - np.array(leader0))
    if l["type"] == "symmetry":
        return my_mirror(leader, l["normal"], l["origin"])
    k = np.array(l["axis"], dtype=float)
    k = k / np.linalg.norm(k)
    o = np.array(l["origin"], dtype=float)

    def radial(p):
        v = np.array(p, dtype=float) - o
        return v - np.dot(v, k) * k
    r0, r1 = radial(leader0), radial(leader)
    ang = math.atan2(float(np.dot(np.cross(r0, r1), k)), float(np.dot(r0, r1)))
    return my_rotate(follower0, ang, k, o)


def manifold_residual(c, pos0, p):
    """(distance of p from the clamp's manifold, violation of its bounds), both >= 0"""
    np = _np()
    pos0 = np.array(pos0, dtype=float)
    p = np.array(p, dtype=float)
    t = c["type"]
    if t == "free":
        return 0.0, 0.0
    if t == "line":
        d = np.array(c["dir"], dtype=float)
        d = d / np.linalg.norm(d)
        p1 = pos0 - c["a"] * d
        s = float(np.dot(p - p1, d))
        dist = float(np.linalg.norm(p - p1 - s * d))
        lo, hi = c["bounds"] if c["bounds"] is not None else (0.0, float(np.linalg.norm((pos0 + c["b"] * d) - p1)))
        return dist, max(0.0, lo - s, s - hi)
    if t == "curve":
        d, e, t0 = np.array(c["d"]), np.array(c["e"]), c["t0"]
        # closest point of the parabola on [0,1]: dense scan + golden refinement
        def fn(s):
            return float(np.linalg.norm(pos0 + (s - t0) * d + (s - t0) ** 2 * e - p))
        ss = np.linspace(0.0, 1.0, 401)
        i = int(np.argmin([fn(s) for s in ss]))
        lo, hi = ss[max(i - 1, 0)], ss[min(i + 1, 400)]
        for _ in range(80):
            m1, m2 = lo + (hi - lo) * 0.382, lo + (hi - lo) * 0.618
            if fn(m1) < fn(m2):
                hi = m2
            else:
                lo = m1
        return fn((lo + hi) / 2), 0.0
    if t == "radial":
        n = np.array(c["normal"], dtype=float)
        n = n / np.linalg.norm(n)
        ctr = np.array(c["center"], dtype=float)

        def cyl(q):
            v = q - ctr
            h = float(np.dot(v, n))
            r = v - h * n
            return h, r
        h0, r0 = cyl(pos0)
        h1, r1 = cyl(p)
        dist = math.hypot(h1 - h0, float(np.linalg.norm(r1)) - float(np.linalg.norm(r0)))
        viol = 0.0
        if c["bounds"] is not None:
            ang = math.atan2(float(np.dot(np.cross(r0, r1), n)), float(np.dot(r0, r1)))
            s = ang * float(np.linalg.norm(r0))
            viol = max(0.0, c["bounds"][0] - s, s - c["bounds"][1])
        return dist, viol
    if t == "plane":
        n = np.array(c["normal"], dtype=float)
        n = n / np.linalg.norm(n)
        return abs(float(np.dot(p - pos0, n))), 0.0
    if t == "surface":
        u, w = np.array(c["u"]), np.array(c["w"])
        n = np.cross(u, w)
        a, bb = float(np.dot(p - pos0, u)), float(np.dot(p - pos0, w))
        dist = abs(float(np.dot(p - pos0, n)) - c["c"] * (a * a + bb * bb))
        viol = 0.0
        if c["bounds"] is not None:
            viol = max(0.0, c["bounds"][0][0] - a, a - c["bounds"][0][1], c["bounds"][1][0] - bb, bb - c["bounds"][1][1])
        return dist, viol
    return 0.0, 0.0


TOL_EXACT = 1e-9     # closed-form float arithmetic (DESIGN 2.4)
TOL_ARCCOS = 2e-7    # RotationLink goes through arccos: conditioning sqrt(eps) near 0 and pi
TOL_INIT = 1e-4      # a position determined by scipy.optimize.minimize (clamp initialisation)


def direct_oracle(rec, b):
    """list of (sub-property, message); empty = the property holds on this run"""
    np = _np()
    spec = rec["spec"]
    bad = []
    if rec["setup_error"]:
        return bad
    before, after = rec["before"], rec["after"]
    n = len(before)
    if rec["exception"]:
        bad.append(("no-exception", "optimize() raised %s" % rec["exception"]))
        # nothing may be half-applied to the mesh / sketch
        for i in range(n):
            if float(np.linalg.norm(after[i] - before[i])) > 0:
                bad.append(("rollback", "after the exception vertex %d has moved by %.3g" % (i, float(np.linalg.norm(after[i] - before[i])))))
                break
        return bad
    clamped = {c["v"]: c for c in spec["clamps"]}
    followers = {l["follower"]: l for l in spec["links"]}
    size = 1.0
    # frame
    for i in range(n):
        if i not in clamped and i not in followers:
            d = float(np.linalg.norm(after[i] - before[i]))
            if d > 1e-12 * size:
                bad.append(("frame", "vertex %d has neither clamp nor link but moved by %.3g" % (i, d)))
    # manifold + bounds
    for v, c in clamped.items():
        dist, viol = manifold_residual(c, before[v], after[v])
        if dist > (TOL_EXACT if c["type"] != "curve" else 1e-8) * size:
            bad.append(("on-manifold", "clamped vertex %d (%s) ends %.3g off its manifold" % (v, c["type"], dist)))
        if viol > TOL_EXACT * size:
            bad.append(("bounds", "clamped vertex %d (%s) ends %.3g outside its bounds" % (v, c["type"], viol)))
    # clamp state consistent with the vertex
    for (c, cl) in b.clamps:
        try:
            p = np.array(cl.function(cl.params), dtype=float)
        except Exception as e:
            bad.append(("on-manifold", "clamp.function(clamp.params) raises %s for vertex %d" % (type(e).__name__, c["v"])))
            continue
        d = float(np.linalg.norm(p - after[c["v"]]))
        if d > TOL_EXACT * size:
            bad.append(("on-manifold", "vertex %d is %.3g away from clamp.function(clamp.params)" % (c["v"], d)))
    # links
    moved_leader = set()
    for l in spec["links"]:
        want = link_image(l, before[l["leader"]], before[l["follower"]], after[l["leader"]])
        d = float(np.linalg.norm(want - after[l["follower"]]))
        tol = TOL_ARCCOS if l["type"] == "rotation" else TOL_EXACT
        if l["type"] == "symmetry":
            # the follower given need not be the exact mirror image before; it has to be afterwards
            pass
        if d > tol * max(size, float(np.linalg.norm(after[l["follower"]]))):
            bad.append(("links", "%s link %d->%d: follower is %.3g away from the image of its leader" % (l["type"], l["leader"], l["follower"], d)))
    # quality: snap = every clamped vertex at function(initial params), followers at their images
    g = b.opt.grid
    order_b = [before[b.inv[k]] for k in range(n)]
    order_a = [after[b.inv[k]] for k in range(n)]
    qb, eb = quality_of(fresh_grid(b, order_b))
    qa, ea = quality_of(fresh_grid(b, order_a))
    if eb is None:
        if ea is not None:
            bad.append(("no-worse", "quality was %.6g before, the result is a degenerate grid" % qb))
        else:
            snap = [np.array(p) for p in before]
            for (c, cl), x0 in zip(b.clamps, rec["init"][1]):
                snap[c["v"]] = np.array(cl.function(x0), dtype=float)
            for l in spec["links"]:
                snap[l["follower"]] = link_image(l, before[l["leader"]], before[l["follower"]], snap[l["leader"]])
            qs, es = quality_of(fresh_grid(b, [snap[b.inv[k]] for k in range(n)]))
            rec["q_before"], rec["q_after"], rec["q_snap"] = qb, qa, qs
            if es is None:
                if abs(qs - qb) > TOL_INIT * max(1.0, abs(qb)):
                    bad.append(("no-worse", "clamp initialisation alone changes quality %.9g -> %.9g" % (qb, qs)))
                # rotation links go through arccos: the snap position carries that noise
                slack = (1e-6 if any(l["type"] == "rotation" for l in spec["links"]) else 1e-9) * max(1.0, abs(qs))
                if qa > qs + slack:
                    bad.append(("no-worse", "summed quality got worse: %.12g (clamps on their manifolds) -> %.12g" % (qs, qa)))
            if qa > qb + TOL_INIT * max(1.0, abs(qb)):
                bad.append(("no-worse", "summed quality got worse: %.9g -> %.9g" % (qb, qa)))
    # the driver's own record: 1..max_iterations passes; from the second pass on every clamp sits, so a pass
    # ends no worse than it began and begins where the previous one ended (same state, same floats)
    its = rec.get("iterations")
    if its is not None:
        if not (1 <= len(its) <= spec["iterations"]):
            bad.append(("iterations", "%d iterations were run for max_iterations=%d" % (len(its), spec["iterations"])))
        for k in range(1, len(its)):
            if its[k][0] != its[k - 1][1]:
                bad.append(("iterations", "iteration %d starts at quality %.17g, the previous one ended at %.17g" % (k + 1, its[k][0], its[k - 1][1])))
            if its[k][1] > its[k][0]:
                bad.append(("no-worse", "iteration %d made the summed quality worse: %.17g -> %.17g" % (k + 1, its[k][0], its[k][1])))
    # backport: observable positions = the optimizer's final point array
    fin = rec["final"][0]
    for i in range(n):
        d = float(np.linalg.norm(after[i] - fin[b.vmap[i]]))
        if d > 0:
            bad.append(("backport", "vertex %d differs from the optimizer's final position by %.3g" % (i, d)))
            break
    if spec["kind"] == "sketch":
        for fi, quad in enumerate(spec["cells"]):
            for k, i in enumerate(quad):
                d = float(np.linalg.norm(np.array(b.sketch.faces[fi].point_array[k]) - fin[i]))
                if d > 0:
                    bad.append(("backport", "face %d corner %d differs from point %d by %.3g" % (fi, k, i, d)))
                    break
    return bad


# ------------------------------------------------------------------------------------------------
# tabulation of the pure functions + Coq case


class Interner:
    def __init__(self):
        self.ids = {}

    def __call__(self, arr):
        np = _np()
        key = np.asarray(arr, dtype=float).tobytes()
        if key not in self.ids:
            self.ids[key] = len(self.ids) + 1   # 0 is the poison id ("never tabulated")
        return self.ids[key]


def pure_link_transform(lk, leader):
    """LinkBase.transform as a pure function: on a copy, through the public interface"""
    np = _np()
    l2 = copy.deepcopy(lk)
    l2.leader = np.array(leader, dtype=float).copy()
    l2.update()
    return np.array(l2.follower, dtype=float)


class TableBuilder:
    """Python twin of the model, used only to enumerate the arguments on which the real functions are
    tabulated; what is compared with the implementation is the output of the Coq model."""

    def __init__(self, rec, b):
        np = _np()
        self.np = np
        self.b = b
        self.rec = rec
        self.P = Interner()
        self.Xi = [Interner() for _ in b.clamps]
        g = b.opt.grid
        self.n = len(g.points)
        self.cj = [g.get_junction_from_clamp(cl).index for (_c, cl) in b.clamps]
        # links per junction, in the grid's own order
        self.links = {}
        self.link_objs = []
        for j in g.junctions:
            for il in j.links:
                lid = len(self.link_objs)
                self.link_objs.append(copy.deepcopy(il.link))
                self.links.setdefault(j.index, []).append((lid, il.follower_index))
        self.ftab, self.ttab, self.gq, self.gbad, self.jbad = {}, {}, {}, [], []
        self.fg = fresh_grid(b, g.points)
        self.ties = 0
        self.reset()

    def state_ids(self):
        return [self.P(p) for p in self.pts]

    def set_fg(self):
        for i, p in enumerate(self.pts):
            self.fg.points[i] = p

    def grid_q(self):
        self.set_fg()
        q, e = quality_of(self.fg)
        key = tuple(self.state_ids())
        if e is None:
            self.gq[key] = q
        elif key not in self.gbad:
            self.gbad.append(key)
        return q

    def junction_q(self, j):
        self.set_fg()
        try:
            return float(self.fg.junctions[j].quality)
        except ValueError:
            key = (j, tuple(self.state_ids()))
            if key not in self.jbad:
                self.jbad.append(key)
            return None

    def move(self, cid, x):
        np = self.np
        cl = self.b.clamps[cid][1]
        j = self.cj[cid]
        try:
            pos = np.array(cl.function(np.array(x, dtype=float).copy()), dtype=float)
        except ValueError:
            # the clamp function itself refuses the parameters (e.g. a curve parameter outside the curve):
            # for the optimizer this is an objective evaluation that raises ValueError, like a degenerate
            # cell.  In the model: function(x) is a point on which every quality is undefined.
            pos = np.full(3, np.nan)
            pid = self.P(pos)
            self.ftab[(cid, self.Xi[cid](x))] = pid
            self.pts[j] = pos
            for (lid, fol) in self.links.get(j, []):
                self.ttab[(lid, pid)] = pid
                self.pts[fol] = pos
            self.prm[cid] = np.array(x, dtype=float)
            key = tuple(self.state_ids())
            if key not in self.gbad:
                self.gbad.append(key)
            if (j, key) not in self.jbad:
                self.jbad.append((j, key))
            return None
        self.ftab[(cid, self.Xi[cid](x))] = self.P(pos)
        self.pts[j] = pos
        for (lid, fol) in self.links.get(j, []):
            img = pure_link_transform(self.link_objs[lid], pos)
            self.ttab[(lid, self.P(pos))] = self.P(img)
            self.pts[fol] = img
        self.prm[cid] = np.array(x, dtype=float)
        if self.links.get(j):
            return self.grid_q()
        return self.junction_q(j)

    def reset(self):
        np = self.np
        self.pts = [np.array(p, dtype=float) for p in self.rec["init"][0]]
        self.prm = [np.array(x, dtype=float) for x in self.rec["init"][1]]

    def run(self, strict=False):
        """walks through the recorded calls exactly as the model will; returns the event list.
        strict: the rollback test reads "improvement < 0" (exact ties are kept), the second reading the
        correspondence accepts at the discontinuity of that decision (Model/C13_Cases.check_case)"""
        rec = self.rec
        events = []  # ("measure",) | ("probe", cid, [xid]) | ("opt", cid, [xid], raises)
        outcomes = {}
        nclamps = len(self.b.clamps)
        calls = rec["calls"]
        per_iter = 2 * nclamps
        k = 0
        while k < len(calls):
            events.append(("measure",))
            self.grid_q()
            chunk = calls[k:k + per_iter]
            for call in chunk:
                cid = call["cid"]
                if cid is None:
                    raise core.GenError("a scipy call could not be attributed to a clamp")
                x0 = self.prm[cid].copy()
                xs = [self.Xi[cid](x) for x in call["trials"]]
                if call["kind"] == "probe":
                    events.append(("probe", cid, xs))
                    ok = True
                    for x in call["trials"]:
                        if self.move(cid, x) is None or self.junction_q(self.cj[cid]) is None:
                            ok = False
                            break
                    if ok:
                        self.move(cid, x0)
                else:
                    events.append(("opt", cid, xs, bool(call["min_raised"])))
                    q0 = self.grid_q()
                    self.junction_q(self.cj[cid])
                    ok = q0 is not None
                    if ok:
                        for x in call["trials"]:
                            if self.move(cid, x) is None:
                                ok = False
                                break
                        kept = False
                        if ok and not call["min_raised"]:
                            jq = self.junction_q(self.cj[cid])
                            q1 = self.grid_q()
                            if jq is not None and q1 is not None:
                                if q0 == q1 and call["trials"] and not self.np.array_equal(call["trials"][-1], x0):
                                    self.ties += 1
                                kept = not (q0 < q1) if strict else not (q0 <= q1)
                        outcomes["kept" if kept else "restored"] = outcomes.get("kept" if kept else "restored", 0) + 1
                        if not kept:
                            if self.move(cid, x0) is None:
                                self.move(cid, x0)
            k += per_iter
            if len(chunk) == per_iter:
                events.append(("measure",))
                self.grid_q()
        # a grid without clamps still runs (empty) iterations
        self.outcomes = outcomes
        return events


def nlist(l):
    return "[" + "; ".join(str(int(x)) for x in l) + "]"


def qlit(x):
    return core.float_to_q(x)


def emit_case(k, rec, b):
    """Coq text defining [case_k : bool] (model == implementation) for one recorded run, or None"""
    np = _np()
    tb = TableBuilder(rec, b)
    events = tb.run()
    outcomes = tb.outcomes
    ties = tb.ties
    if ties:
        # an exact tie at a rollback decision: tabulate the arguments of the other reading as well
        tb.reset()
        tb.run(strict=True)
    nclamps = len(b.clamps)
    # snapshots of the implementation at every scipy call and at the end
    snaps = []
    for call in rec["calls"]:
        p, x = call["before"]
        snaps.append(([tb.P(q) for q in p], [tb.Xi[c](x[c]) for c in range(nclamps)]))
    pf, xf = rec["final"]
    final = ([tb.P(q) for q in pf], [tb.Xi[c](xf[c]) for c in range(nclamps)])
    mesh_after = [tb.P(rec["after"][b.inv[g]]) for g in range(tb.n)]
    mesh_before = [tb.P(rec["before"][b.inv[g]]) for g in range(tb.n)]
    init = ([tb.P(q) for q in rec["init"][0]], [tb.Xi[c](rec["init"][1][c]) for c in range(nclamps)])
    o = []
    pre = "c%d_" % k
    o.append("Definition %sftab : list (nat * N * N) := [%s]." % (pre, "; ".join("(%d%%nat, %d, %d)" % (c, x, p) for (c, x), p in tb.ftab.items())))
    o.append("Definition %sttab : list (nat * N * N) := [%s]." % (pre, "; ".join("(%d%%nat, %d, %d)" % (l, p, q) for (l, p), q in tb.ttab.items())))
    o.append("Definition %sgq : list (list N * Q) := [%s]." % (pre, ";\n  ".join("(%s, %s)" % (nlist(s), qlit(q)) for s, q in tb.gq.items())))
    o.append("Definition %sgbad : list (list N) := [%s]." % (pre, "; ".join(nlist(s) for s in tb.gbad)))
    o.append("Definition %sjbad : list (nat * list N) := [%s]." % (pre, "; ".join("(%d%%nat, %s)" % (j, nlist(s)) for (j, s) in tb.jbad)))
    o.append("Definition %scj : list nat := [%s]." % (pre, "; ".join("%d%%nat" % j for j in tb.cj)))
    o.append("Definition %slinks : list (nat * list (nat * nat)) := [%s]." % (pre, "; ".join(
        "(%d%%nat, [%s])" % (j, "; ".join("(%d%%nat, %d%%nat)" % (lid, fol) for lid, fol in ls)) for j, ls in tb.links.items())))
    evs = []
    for e in events:
        if e[0] == "measure":
            evs.append("EMeasure")
        elif e[0] == "probe":
            evs.append("EProbe %d%%nat %s" % (e[1], nlist(e[2])))
        else:
            evs.append("EOpt %d%%nat {| o_trials := %s; o_raises := %s |}" % (e[1], nlist(e[2]), "true" if e[3] else "false"))
    o.append("Definition %sevents : list (event N) := [%s]." % (pre, ";\n  ".join(evs)))
    o.append("Definition %sinit : state N N := {| pts := %s; prm := %s |}." % (pre, nlist(init[0]), nlist(init[1])))
    o.append("Definition %ssnaps : list (list N * list N) := [%s]." % (pre, ";\n  ".join("(%s, %s)" % (nlist(p), nlist(x)) for p, x in snaps)))
    o.append("Definition %sfinal : list N * list N := (%s, %s)." % (pre, nlist(final[0]), nlist(final[1])))
    o.append("Definition %smesh0 : list N := %s." % (pre, nlist(mesh_before)))
    o.append("Definition %smesh1 : list N := %s." % (pre, nlist(mesh_after)))
    its = rec["iterations"] or []
    o.append("Definition %siters : list (Q * Q) := [%s]." % (pre, "; ".join("(%s, %s)" % (qlit(a), qlit(bq)) for a, bq in its)))
    o.append("Definition %sraised : bool := %s." % (pre, "true" if rec["exception"] else "false"))
    o.append("Definition case_%d : bool := check_case %d%%nat %sftab %sttab %sgq %sgbad %sjbad %scj %slinks %sevents %sinit %ssnaps %sfinal %smesh0 %smesh1 %siters %sraised."
             % ((k, nclamps) + (pre,) * 15))
    info = dict(events=len(events), trials=sum(len(c["trials"]) for c in rec["calls"]), outcomes=outcomes,
                degenerate=len(tb.gbad) + len(tb.jbad), ties=ties)
    return "\n".join(o) + "\n", info


CASE_PRELUDE = """From Coq Require Import List Bool Arith NArith QArith.
From CB Require Import Model.C13_Optimizer Model.C13_Cases.
Import ListNotations.
Open Scope N_scope.
"""


# ------------------------------------------------------------------------------------------------


def load_corpus():
    """regression inputs (corpus/C13/*.json): cases on which a defect or a self-test mutation was observed, and
    boundary cases; they run through the oracle and the Coq comparison on every check like the random ones"""
    d = os.path.join(core.VERIF, "corpus", "C13")
    specs = []
    if os.path.isdir(d):
        for name in sorted(os.listdir(d)):
            if name.endswith(".json"):
                with open(os.path.join(d, name)) as f:
                    specs.append(json.load(f)["spec"])
    return specs


def describe(spec):
    return "%s %s clamps=%s links=%s method=%s it=%d min=%s" % (
        spec["kind"], "x".join(map(str, spec["dims"])), ",".join(c["type"] for c in spec["clamps"]),
        ",".join(l["type"] for l in spec["links"]) or "-", spec["method"], spec["iterations"], spec["minimizer"])


def classify_setup_error(spec, msg):
    """setup failures that are findings of their own (not of the generator)"""
    if "InvalidLinkError" in msg and any(l["type"] == "symmetry" and any(abs(x) > 0 for x in l["origin"]) for l in spec["links"]):
        return "symmetry-link-setup"
    return None


class C13(Prop):
    pid = "C13"
    title = "Optimization never worsens quality; only clamped vertices move, on constraints"
    prebuilt = ["Model/C13_Optimizer.v", "Model/C13_Cases.v", "Proofs/C13_Optimizer.v", "Proofs/C13_Whole.v",
                "Proofs/C13_Instances.v", "Model/C13_Alias.v", "Proofs/C13_Alias.v"]
    gen_dependent_files = []
    property_files = ["Properties/C13.v"]
    trusted = [
        "scipy.optimize.minimize / approx_fprime inside the optimizer are oracles (arbitrary trial lists): nothing is "
        "assumed about them; that their trial points respect the bounds is monitored by the direct oracle on the result",
        "clamp.function, LinkBase.transform, GridBase.quality and Junction.quality are parameters of the model; the "
        "correspondence tabulates them with the real code on exactly the arguments that occur (pure, deterministic: checked)",
        "that a clamp function maps into its manifold and a link transform realises its relation is C17; here it is "
        "checked numerically by the direct oracle on every case",
        "the optimizer correspondence is sampled (random assemblies / sketches, scripted and recorded minimisers)",
        "the rollback decision 'improvement <= 0' is compared exactly; only at an exact tie of the two binary64 quality "
        "values (its discontinuity, DESIGN 2.4) the reading 'improvement < 0' is accepted too (counted as boundary); both "
        "readings satisfy the hypotheses of the theorems (C13_correspondence_tests_covered)",
    ]
    partial = []

    def correspond(self, ctx):
        res = CorrResult()
        res.rule = ("regression corpus (corpus/C13) + random lattices of 1..8 hexahedra / 2..9 quads with perturbed vertices, 1..4 clamps of every type, "
                    "0..2 links, 4 methods, 1..3 iterations; minimiser = scripted adversary (8 kinds) or recorder around "
                    "scipy (full / capped); compared inside Coq: point array and clamp parameters at every scipy call and "
                    "at the end, backported vertices, per-iteration quality, escape of an exception; non-trivial = at "
                    "least one optimize_clamp call with a trial; distinct by spec; (L) rows of 2..3 boxes, one or two vertices of the "
                    "shared face displaced and clamped the way the library's examples do (LineClamp/RadialClamp built from the "
                    "vertex' own live position array), scipy minimisers, optimize() called 1..3 times on the same optimizer: "
                    "direct oracle after every call (no clamp -> not moved; on the line/circle described at clamping time, inside "
                    "the bounds counted from there; fresh-grid quality not worse)")
        n = ctx.n(124, 1500)
        specs = load_corpus()
        res.count("corpus", len(specs))
        for i in range(n):
            r = i / float(n)
            mini = "scripted" if r < 0.55 else ("real-capped" if r < 0.85 else "real")
            specs.append(gen_case(ctx.rng, minimizer=mini))
        res = self.run_specs(ctx, specs, res)
        if res.error:
            return res
        return self.live_stream(ctx, res, ctx.n(40, 400))

    def live_stream(self, ctx, res, n):
        """(L) clamps made from live vertex arrays, real minimisers, optimize() called 1..3 times (direct oracle only)"""
        import multiprocessing as mp
        from props import C13_live
        cases = [C13_live.gen_live_case(ctx.rng) for _ in range(n)]
        with mp.get_context("fork").Pool(min(16, os.cpu_count() or 4)) as pool:
            outs = pool.map(C13_live.check_live, cases, chunksize=2)
        seen = set()
        for case, f in zip(cases, outs):
            res.evaluations += 1
            res.count("live:%s:calls=%d" % (case["kind"], case["calls"]))
            res.distinct.add("live:" + C13_live.case_key(case))
            if f and f["sig"] not in seen:
                seen.add(f["sig"])
                res.oracle_failures.append(dict(kind="live", case=f["case"], why=f["why"], sub=f["sig"][4:]))
        return res

    def run_specs(self, ctx, specs, res, coq=True):
        import multiprocessing as mp
        import time
        t0 = time.time()
        with mp.get_context("fork").Pool(min(16, os.cpu_count() or 4)) as pool:
            outs = pool.map(_worker, [(k, s) for k, s in enumerate(specs)], chunksize=2)
        ctx.log("S3: %d cases run on the implementation in %.1fs" % (len(specs), time.time() - t0))
        shards = []
        texts = []
        for (k, out) in outs:
            spec = specs[k]
            res.evaluations += 1
            res.count("kind=" + spec["kind"])
            res.count("minimizer=" + spec["minimizer"])
            res.count("method=" + spec["method"])
            res.count("iterations=%d" % spec["iterations"])
            for c in spec["clamps"]:
                res.count("clamp=" + c["type"])
            for l in spec["links"]:
                res.count("link=" + l["type"])
            if not spec["links"]:
                res.count("link=none")
            if out.get("harness_error"):
                res.error = "case %d: %s" % (k, out["harness_error"])
                return res
            if out["setup_error"]:
                sig = classify_setup_error(spec, out["setup_error"])
                res.count("setup_error")
                if sig:
                    res.oracle_failures.append(dict(kind="setup", spec=spec, why=out["setup_error"], sub=sig))
                else:
                    res.notes.append("case %d not set up: %s" % (k, out["setup_error"]))
                continue
            for (sub, msg) in out["oracle"]:
                res.oracle_failures.append(dict(kind="run", spec=spec, why=msg, sub=sub))
            for key, v in out["info"].get("outcomes", {}).items():
                res.count("outcome=" + key, v)
            for sk, v in out["scripts"].items():
                res.count("script=" + sk, v)
            if out["info"].get("ties"):
                res.boundary += 1
                res.count("exact-ties-at-rollback-test", out["info"]["ties"])
            if out["info"].get("degenerate"):
                res.count("degenerate-states", out["info"]["degenerate"])
            if out["info"].get("trials", 0) > 0:
                res.distinct.add(json.dumps(spec, sort_keys=True))
            if out.get("exception"):
                res.count("exception-escaped")
            if len(res.samples) < 4:
                res.samples.append(dict(case=describe(spec), q_before=out.get("q_before"), q_after=out.get("q_after"),
                                        events=out["info"].get("events"), trials=out["info"].get("trials")))
            texts.append((k, out["coq"]))
        if not coq:
            return res
        # at most 16 case files (one per core); the expensive cases (recorded scipy runs) come last in
        # [specs], so deal the cases out round-robin to balance the files
        nfiles = max(1, min(16, (len(texts) + 5) // 6))
        for s in range(nfiles):
            chunk = texts[s::nfiles]
            body = [CASE_PRELUDE] + [t for (_k, t) in chunk]
            body.append("Eval vm_compute in (map fst (filter (fun c => negb (snd c)) [%s]))." % "; ".join(
                "(%d%%nat, case_%d)" % (k, k) for (k, _t) in chunk))
            shards.append(("cases_%d" % s, "\n".join(body) + "\n"))
        t0 = time.time()
        results = core.run_cases_parallel(ctx, shards)
        ctx.log("S3: %d case files evaluated by Coq in %.1fs" % (len(shards), time.time() - t0))
        for (name, rc, so, se) in results:
            if rc != 0:
                res.error = "case file %s failed to compile: %s" % (name, se[-800:])
                return res
            for i in parse_id_list(so):
                res.mismatches.append(dict(case=i, spec=specs[i], describe=describe(specs[i])))
        res.traces = len(texts)
        return res

    def search(self, ctx, broken, corr):
        """direct oracle on the mismatching cases first, then a seeded search with adversarial scripts"""
        fails = []
        specs = [m["spec"] for m in corr.mismatches[:20]]
        for i in range(ctx.n(120, 600)):
            specs.append(gen_case(ctx.rng, minimizer="scripted"))
        res = CorrResult()
        self.run_specs(ctx, specs, res, coq=False)
        if not res.oracle_failures and not corr.oracle_failures:
            self.live_stream(ctx, res, ctx.n(120, 600))
        seen = set()
        for f in res.oracle_failures:
            if f["sub"] in seen:
                continue
            seen.add(f["sub"])
            fails.append(f)
        return fails

    def signature(self, rp):
        return "C13:%s" % rp.get("sub", rp.get("kind", "?"))

    def replay(self, ctx, obj):
        if obj.get("kind") == "live":
            from props import C13_live
            ob = C13_live.run_live_case(obj["case"])
            print("case:", json.dumps(obj["case"]))
            for k, st in enumerate(ob["steps"]):
                print("implementation: call %d: quality %.9g -> %.9g, exception %s, clamped vertices at %s" % (
                    k + 1, st["q0"], st["q1"], st["exception"], [st["positions"][d["index"]] for d in ob["described"]]))
            print("oracle:", C13_live.oracle_live(obj["case"], ob) or "ok")
            return 0
        spec = obj["spec"]
        print("case:", describe(spec))
        rec, b = run_case(spec)
        if rec["setup_error"]:
            print("implementation: setup failed:", rec["setup_error"])
            print("oracle:", classify_setup_error(spec, rec["setup_error"]) or "not a finding (generator)")
            return 0
        bad = direct_oracle(rec, b)
        print("implementation: exception=%s q_before=%s q_snap=%s q_after=%s" % (
            rec["exception"], rec.get("q_before"), rec.get("q_snap"), rec.get("q_after")))
        print("oracle:", bad or "ok")
        return 0


def _worker(arg):
    k, spec = arg
    try:
        rec, b = run_case(spec)
        out = dict(setup_error=rec["setup_error"])
        if rec["setup_error"]:
            return k, out
        out["oracle"] = direct_oracle(rec, b)
        out["exception"] = rec["exception"]
        out["q_before"], out["q_after"] = rec.get("q_before"), rec.get("q_after")
        scripts = {}
        for c in rec["calls"]:
            if c.get("script"):
                scripts[c["script"]] = scripts.get(c["script"], 0) + 1
        out["scripts"] = scripts
        text, info = emit_case(k, rec, b)
        out["coq"] = text
        out["info"] = info
        return k, out
    except Exception as e:
        import traceback
        return k, dict(harness_error="%s: %s\n%s" % (type(e).__name__, e, traceback.format_exc()[-1500:]), setup_error=None)


def parse_id_list(so):
    import re
    m = re.search(r"=\s*\[(.*?)\]\s*:\s*list nat", so, flags=re.S)
    if not m:
        raise RuntimeError("cannot parse Coq output: %r" % so[:400])
    body = m.group(1).strip()
    if not body:
        return []
    return [int(x.replace("%nat", "").strip()) for x in body.replace("\n", " ").split(";")]


PROP = C13()
