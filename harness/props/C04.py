"""C04 - Cell-size distribution matches on shared edges and honours 'preserve'.

Model: coq/Model/C04_Payload.v (propagation of Model/Propagate.v with the chop payload: count, the one
field a preserving copy carries, its value, the preserve tag; sections with provenance).  Theorems:
Properties/C04.v.  Correspondence (two ties, both decided inside Coq):
 (U) discrete/rational: jittered lattice assemblies x block renumberings (flips at every hop) x preserve modes x
     single/multi-section chops; the model is run by vm_compute on the same blocks, iteration orders and the
     recorded results of Chop.calculate on wires; compared: outcome kind, counts, every wire's specification,
     simple/edge choice per block, the chops every axis holds after propagation;
 (N) real-valued: every Chop.calculate made on a wire (count + one given field on that wire's length) must realise
     the given value with blockMesh's geometric progression - one `interval` goal per recorded call.
Direct oracle (independent of the Coq model): decode simpleGrading/edgeGrading from the written file per edge with
the wire lengths, expand to cell sizes; shared edges carry the same sequence; the preserved quantity of every
user chop is the same (and equals the requested value) on every edge of its family at the geometric same end;
simpleGrading only with four equal gradings.
"""
import json
import math
import os
import re
import warnings

import core
from core import CorrResult, Prop
from props import grading_common as gc

FLD = {"start_size": "PStart", "end_size": "PEnd", "c2c_expansion": "PC2c"}
PREBUILT = ["Model/Propagate.v", "Proofs/PropagateBasics.v", "Proofs/PropagateTerm.v", "Proofs/PropagateInv.v",
            "Proofs/PropagateInit.v", "Proofs/PropagateFinal.v", "Model/C03_Relations.v", "Proofs/C03_GeomSeries.v",
            "Model/C04_Payload.v", "Model/C04_Realise.v", "Proofs/C04_Transport.v", "Proofs/C04_Realise.v",
            "Proofs/C04_Lipschitz.v"]
TOL_SEQ = 1e-6       # downstream of brentq (DESIGN 2.4)
EPS_MODEL = 1e-9     # closed-form float arithmetic (reciprocals)
TOL_LEN = 1e-9       # two measurements of one edge (closed-form float arithmetic)


# ---- generator ---------------------------------------------------------------------------------------

def lattice_dir(perm, a):
    c1, c2 = gc.AXIS_PAIRS_REF[a][0]
    p, q = gc.XYZ[perm[c1]], gc.XYZ[perm[c2]]
    d = [q[i] - p[i] for i in range(3)]
    k = d.index(1) if 1 in d else d.index(-1)
    return k, d[k]


def gen_chop(rng, multi=False, force_count=None):
    """kwargs of one user chop (edge lengths are in 0.6 .. 1.4)"""
    pres = rng.choice(["start_size", "end_size", "c2c_expansion", "start_size", "end_size"])
    lr = 0.5 if multi else 1.0
    n = force_count or rng.choice([5, 6, 8, 10, 12, 16])
    size = rng.choice([0.03125, 0.04, 0.05, 0.0625, 0.08, 0.1]) * lr
    c2c = rng.choice([0.85, 0.9, 1.1, 1.15, 1.2, 1.25])
    kind = rng.choice(["start_c2c", "end_c2c", "count_start", "count_end", "count_c2c", "count_total", "start_end", "count"]
                      if force_count is None else ["count_start", "count_end", "count_c2c", "count_total", "count"])
    if kind == "start_c2c":   # feasible on every length only when the cells grow away from the given end
        kw = dict(start_size=size, c2c_expansion=rng.choice([1.1, 1.15, 1.2, 1.25]))
    elif kind == "end_c2c":
        kw = dict(end_size=size, c2c_expansion=rng.choice([0.8, 0.85, 0.9]))
    elif kind == "count_start":
        kw = dict(count=n, start_size=size)
    elif kind == "count_end":
        kw = dict(count=n, end_size=size)
    elif kind == "count_c2c":
        kw = dict(count=n, c2c_expansion=c2c)
    elif kind == "count_total":
        kw = dict(count=n, total_expansion=rng.choice([0.25, 0.5, 2.0, 3.0, 5.0]))
    elif kind == "start_end":
        kw = dict(start_size=size, end_size=size * rng.choice([1.5, 2.0, 3.0]))
    else:
        kw = dict(count=n)
    kw["preserve"] = pres
    if multi:
        kw["length_ratio"] = lr
    return kw


def gen_case(rng, max_cells=6):
    """assembly on a jittered lattice; every family gets one chopped direction (sometimes a second one)"""
    shape = rng.random()
    if shape < 0.45:
        # chain in one lattice direction: every hop can be a flip
        d = rng.randrange(3)
        n = rng.randint(2, min(4, max_cells))
        cells = [tuple(i if k == d else 0 for k in range(3)) for i in range(n)]
        dims = tuple(n if k == d else 1 for k in range(3))
    else:
        base = gc.gen_assembly(rng, max_cells=max_cells, dims=(2, 2, 2), p_chop=0.0, jitter=False)
        cells = base.cells
        dims = (2, 2, 2)
    perms = [rng.choice(gc.ROT24) for _ in cells]
    jit = {}
    if rng.random() < 0.9:
        for i in range(dims[0] + 1):
            for j in range(dims[1] + 1):
                for k in range(dims[2] + 1):
                    jit[(i, j, k)] = tuple(rng.choice([-0.1875, -0.125, 0.0, 0.0625, 0.125, 0.1875]) for _ in range(3))
    order = list(range(len(cells)))
    rng.shuffle(order)
    asm = gc.Assembly(cells, perms, {}, jit, order)
    mode = "single"
    for fam in gc.families(asm):
        x = rng.choice(fam)
        if rng.random() < 0.25:
            if rng.random() < 0.4:
                # sections of unequal extent, some or all of them uniform (expansion exactly 1): reversing such a grading
                # changes only the ORDER of its sections
                lrs = rng.choice([(0.25, 0.75), (0.75, 0.25), (0.375, 0.625), (0.25, 0.25, 0.5), (0.5, 0.125, 0.375)])
                counts = rng.sample([3, 4, 5, 6, 7, 9], len(lrs))
                secs = []
                for lr, n in zip(lrs, counts):
                    kw = dict(count=n, length_ratio=lr, preserve=rng.choice(["start_size", "end_size", "c2c_expansion"]))
                    if rng.random() < 0.25:
                        kw["c2c_expansion"] = rng.choice([0.9, 1.1, 1.2])
                    secs.append(kw)
                asm.chops[x] = secs
                mode = "multi-uniform"
            else:
                asm.chops[x] = [gen_chop(rng, multi=True), gen_chop(rng, multi=True)]
                mode = "multi"
        else:
            asm.chops[x] = [gen_chop(rng)]
    # a second chopped direction in one family: same chop (consistent) or same count with another expansion
    r = rng.random()
    big = [f for f in gc.families(asm) if len(f) >= 2]
    if r < 0.3 and big:
        fam = rng.choice(big)
        src = [x for x in fam if x in asm.chops][0]
        dst = rng.choice([x for x in fam if x != src])
        n = rng.choice([5, 6, 8])
        if r < 0.12:
            a = gen_chop(rng, force_count=n)
            asm.chops[src] = [a]
            _d1, s1 = lattice_dir(asm.perms[src[0]], src[1])
            _d2, s2 = lattice_dir(asm.perms[dst[0]], dst[1])
            asm.chops[dst] = [dict(a) if s1 == s2 else mirror_kw(a)]
            mode = "two-agreeing"
        else:
            asm.chops[src] = [dict(count=n, c2c_expansion=1.1)]
            asm.chops[dst] = [dict(count=n, c2c_expansion=rng.choice([1.0, 1.2, 0.8]))]
            mode = "two-conflicting"
    asm.mode = mode
    # curved edges (three-point arcs) on random block edges: the length of a wire is the length of its edge, also on
    # blocks that only receive their grading by propagation and on wires that no other block shares
    if rng.random() < 0.4:
        for _ in range(rng.randint(1, 3)):
            ci = rng.randrange(len(cells))
            a = rng.randrange(3)
            c1, c2 = gc.AXIS_PAIRS_REF[a][rng.randrange(4)]
            off = [rng.choice([-0.375, -0.25, 0.25, 0.375, 0.5]) if k != lattice_dir(perms[ci], a)[0] else 0.0 for k in range(3)]
            if rng.random() < 0.5:
                off[rng.choice([k for k in range(3) if off[k] != 0.0])] = 0.0
            if any(off):
                asm.arcs.append([ci, c1, c2, off])
        if asm.arcs:
            asm.mode += "+arcs"
    if rng.random() < 0.3:
        nv = 4 * (len(cells) + 1)   # a lower bound of the number of vertices
        for vi in rng.sample(range(nv), min(nv, rng.randint(1, 4))):
            asm.moves.append([vi, [rng.choice([-0.125, -0.0625, 0.0625, 0.125, 0.25]) for _ in range(3)]])
        asm.mode += "+moved"
    return asm


def mirror_kw(kw):
    out = dict(kw)
    sw = {"start_size": "end_size", "end_size": "start_size"}
    for k in ("start_size", "end_size"):
        out.pop(k, None)
    for k in ("start_size", "end_size"):
        if k in kw:
            out[sw[k]] = kw[k]
    if "c2c_expansion" in kw:
        out["c2c_expansion"] = 1 / kw["c2c_expansion"]
    if "total_expansion" in kw:
        out["total_expansion"] = 1 / kw["total_expansion"]
    out["preserve"] = sw.get(kw.get("preserve", "c2c_expansion"), "c2c_expansion")
    return out


# ---- implementation runner ----------------------------------------------------------------------------

def chop_view(ch):
    """(lr, count, field, value, tag) of a chop made by copy_preserving; None if it has another shape"""
    given = [k for k in ("start_size", "end_size", "c2c_expansion", "total_expansion") if getattr(ch, k) is not None]
    if len(given) != 1 or given[0] not in FLD or ch.count is None:
        return None
    return [float(ch.length_ratio), int(ch.count), given[0], float(getattr(ch, given[0])), ch.preserve]


def run_impl(asm, workdir, prio=None):
    from classy_blocks.base import exceptions as ex
    from classy_blocks.grading.grading import Grading
    from classy_blocks.util import constants

    mesh, _ops = gc.build_mesh(asm)
    with warnings.catch_warnings():
        warnings.simplefilter("ignore")
        mesh.assemble()
    # vertices moved after assembly (what an optimizer does): every wire is graded on the length it has when the mesh is written
    # - also when the mesh was written once already on the lengths it had before (chosen by the assembly, so replays agree)
    if gc.life_variant(asm) in (1, 3, 4):
        try:
            with warnings.catch_warnings():
                warnings.simplefilter("ignore")
                mesh.write(os.path.join(workdir, "bmd4_first_%d" % os.getpid()))
        except Exception:  # noqa: BLE001  (a refused first write is part of the life)
            pass
    for vi, d in getattr(asm, "moves", []):
        vs = mesh.vertex_list.vertices
        if vi < len(vs):
            vs[vi].move_to([float(vs[vi].position[k]) + d[k] for k in range(3)])
    if prio:
        label = gc.reorder_containers(mesh, prio)
    else:
        label = {}
        for bi, block in enumerate(mesh.block_list.blocks):
            for ai, axis in enumerate(block.axes):
                label[id(axis)] = ("a", bi, ai)
                for k, w in enumerate(axis.wires.wires):
                    label[id(w)] = ("w", bi, ai, k)
    co, nb = gc.iteration_orders(mesh, label)
    blocks = mesh.block_list.blocks
    res = dict(verts=[[v.index for v in b.vertices] for b in blocks], co=co, nb=nb, tol=float(constants.TOL))
    res["positions"] = [[list(map(float, v.position)) for v in b.vertices] for b in blocks]
    # a Grading that receives a chop belongs to the wire whose .grading it is at that moment (undefined gradings are
    # never shared; the axis-level and the fictional average-length Gradings belong to no wire)
    all_wires = [((bi, ai, k), w) for bi, b in enumerate(blocks) for ai, ax in enumerate(b.axes)
                 for k, w in enumerate(ax.wires.wires)]
    fills = []  # calls of Grading.add_chop on a wire's grading: (wire, index, length, chop view, resulting section)
    orig_add = Grading.add_chop

    def add_chop(self, chop):
        i = len(self.specification)
        orig_add(self, chop)
        owners = [lab for lab, w in all_wires if w.grading is self]
        if len(owners) == 1:
            fills.append(dict(wire=list(owners[0]), index=i, length=float(self.length), wlen=float(dict(all_wires)[owners[0]].length),
                              chop=chop_view(chop),
                              spec=[float(self.specification[-1][0]), int(self.specification[-1][1]), float(self.specification[-1][2])]))
        elif len(owners) > 1:
            fills.append(dict(wire=list(owners[0]), index=i, length=float(self.length), chop=None, shared=len(owners),
                              spec=[float(self.specification[-1][0]), int(self.specification[-1][1]), float(self.specification[-1][2])]))

    calls = [0]
    from classy_blocks.items.block import Block
    orig_copy = Block.copy_grading
    budget = 6 * (4 * len(blocks) + 2) * max(1, len(blocks))

    def counted(self):
        calls[0] += 1
        if calls[0] > budget:
            raise gc.Livelock()
        return orig_copy(self)

    Grading.add_chop = add_chop
    Block.copy_grading = counted
    path = os.path.join(workdir, "bmd4_%d" % os.getpid())
    try:
        with warnings.catch_warnings():
            warnings.simplefilter("ignore")
            mesh.write(path)
        res["outcome"] = "ok"
    except gc.Livelock:
        res["outcome"] = "nofuel"
    except ex.UndefinedGradingsError:
        res["outcome"] = "undefined"
    except ex.InconsistentGradingsError:
        res["outcome"] = "inconsistent"
    except Exception as e:
        res["outcome"] = "error:" + type(e).__name__
        res["message"] = str(e)[:300]
    finally:
        Grading.add_chop = orig_add
        Block.copy_grading = orig_copy
    res["fills"] = fills
    # user chops as copy_preserving reads them
    uch = {}
    for bi, b in enumerate(blocks):
        for ai, ax in enumerate(b.axes):
            if type(ax.wires).__name__ == "WireChopManager":
                lst = []
                for c in ax.wires.chops:
                    r = c.results or {}
                    if r.get("count") is None or r.get(c.preserve) is None:
                        lst.append(None)
                    else:
                        lst.append([float(c.length_ratio), int(r["count"]), c.preserve, float(r[c.preserve])])
                uch[(bi, ai)] = lst
    res["uchops"] = uch
    res["wire_lengths"] = [[float(w.length) for ax in b.axes for w in ax.wires.wires] for b in blocks]
    if res["outcome"] == "ok":
        res["counts"] = [[int(ax.count) for ax in b.axes] for b in blocks]
        res["wire_specs"] = [[[[float(s[0]), int(s[1]), float(s[2])] for s in w.grading.specification]
                              for ax in b.axes for w in ax.wires.wires] for b in blocks]
        res["axis_chops"] = [[([chop_view(c) for c in ax.wires.chops] if type(ax.wires).__name__ != "WireChopManager" else None)
                              for ax in b.axes] for b in blocks]
        with open(path) as f:
            res["file"] = f.read()
        res["parsed"] = gc.parse_blocks(res["file"])
        res["simple"] = [p[2] == "simpleGrading" for p in res["parsed"]]
    if os.path.exists(path):
        os.remove(path)
    return res


# ---- direct oracle ------------------------------------------------------------------------------------

def parse_grading_items(text):
    """items of a simpleGrading/edgeGrading list: float or ((lr n E)(lr n E)...)"""
    items = []
    i = 0
    t = text.strip()
    while i < len(t):
        if t[i].isspace():
            i += 1
        elif t[i] == "(":
            depth = 0
            j = i
            while True:
                if t[j] == "(":
                    depth += 1
                elif t[j] == ")":
                    depth -= 1
                    if depth == 0:
                        break
                j += 1
            inner = t[i + 1:j]
            secs = re.findall(r"\(\s*([^\s()]+)\s+([^\s()]+)\s+([^\s()]+)\s*\)", inner)
            items.append([[float(a), float(b), float(c)] for a, b, c in secs])
            i = j + 1
        else:
            j = i
            while j < len(t) and not t[j].isspace():
                j += 1
            items.append(float(t[i:j]))
            i = j
    return items


def cells_of(L, n_total, item):
    """blockMesh's cell sizes on an edge of length L for a written grading item (n_total cells)"""
    if not isinstance(item, list):
        secs = [[1.0, float(n_total), item]]
    else:
        secs = item
    out = []
    bounds = []
    sum_n = sum(s[1] for s in secs)
    sum_l = sum(s[0] for s in secs)
    for lr, nn, E in secs:
        n = int(round(nn if isinstance(item, list) and abs(sum_n - n_total) < 0.5 else nn / sum_n * n_total))
        Ls = L * lr / sum_l
        if n <= 1:
            seq = [Ls]
        else:
            r = E ** (1.0 / (n - 1))
            if abs(r - 1) < 1e-12:
                seq = [Ls / n] * n
            else:
                first = Ls * (1 - r) / (1 - r ** n)
                seq = [first * r ** i for i in range(n)]
        bounds.append((len(out), len(out) + len(seq)))
        out += seq
    return out, bounds


def rel_close(a, b, tol):
    return abs(a - b) <= tol * max(abs(a), abs(b), 1e-300)


def is_refusal(res):
    """the relations refuse a size that cannot be realised on an edge (size >= length, no root in the bracket)"""
    msg = res.get("message") or ""
    return res["outcome"] == "error:ValueError" and ("must be between 0 and length" in msg or "Invalid grading parameters" in msg)


def direct_oracle(asm, res):
    """None or a reason string; stated on the written file + wire lengths + the user's chops only."""
    out = res["outcome"]
    if out == "nofuel":
        return "propagation does not terminate"
    if is_refusal(res):
        return None  # a preserved size that does not fit on some edge is refused with a ValueError; nothing is written
    if out.startswith("error:"):
        return "unexpected exception %s: %s" % (out, res.get("message"))
    # (0) one edge, one length: every block that has the edge measures the same Wire.length (straight, curved, moved)
    lw = len_shared_witness(res)
    if lw:
        return lw
    if out != "ok":
        # refusals: nothing is written.  With exactly one chopped direction in every family there is nothing to disagree
        # about, so a refusal of such an assembly is wrong (other refusals are judged by C01/C02)
        if all(len([x for x in fam if x in asm.chops]) == 1 for fam in gc.families(asm)):
            return "every family has exactly one chopped direction but writing is refused (%s)" % out
        return None
    parsed = res["parsed"]
    nb = len(asm.cells)
    if len(parsed) != nb:
        return "file has %d hex entries for %d blocks" % (len(parsed), nb)
    # per block: per wire (12) the written item and the cells
    wire_cells = {}
    wire_secs = {}
    for bi, (vs, n3, kind, gtext) in enumerate(parsed):
        try:
            items = parse_grading_items(gtext)
        except Exception as e:
            return "cannot parse the grading of block %d: %s" % (bi, e)
        if kind == "simpleGrading":
            if len(items) != 3:
                return "simpleGrading of block %d has %d entries" % (bi, len(items))
            items = [items[a] for a in range(3) for _k in range(4)]
        elif len(items) != 12:
            return "edgeGrading of block %d has %d entries" % (bi, len(items))
        for it in items:
            for sec in (it if isinstance(it, list) else [[1.0, 1.0, it]]):
                if not (0.0 < sec[0] <= 1.0 + 1e-9 and sec[2] > 0.0 and math.isfinite(sec[2])):
                    return "grading of block %d has a section with length ratio %r and expansion %r" % (bi, sec[0], sec[2])
        for a in range(3):
            for k in range(4):
                L = res["wire_lengths"][bi][4 * a + k]
                cells, bounds = cells_of(L, n3[a], items[4 * a + k])
                if len(cells) != n3[a]:
                    return "block %d axis %d wire %d: grading sections give %d cells, count written is %d" % (bi, a, k, len(cells), n3[a])
                wire_cells[(bi, a, k)] = cells
                wire_secs[(bi, a, k)] = bounds
    # (1) shared edges: same physical sequence
    seen = {}
    for bi, (vs, n3, kind, gtext) in enumerate(parsed):
        for a in range(3):
            for k, (c1, c2) in enumerate(gc.AXIS_PAIRS_REF[a]):
                v1, v2 = vs[c1], vs[c2]
                if v1 == v2:
                    continue
                key = frozenset((v1, v2))
                cells = wire_cells[(bi, a, k)]
                seq = cells if v1 < v2 else cells[::-1]
                if key in seen:
                    (b0, a0, k0, seq0) = seen[key]
                    if len(seq0) != len(seq) or any(not rel_close(x, y, TOL_SEQ) for x, y in zip(seq0, seq)):
                        i = next((i for i, (x, y) in enumerate(zip(seq0, seq)) if not rel_close(x, y, TOL_SEQ)), -1)
                        return ("shared edge %s: block %d (axis %d wire %d) and block %d (axis %d wire %d) give different cell "
                                "sizes (cell %d: %.6g vs %.6g)" % (sorted(key), b0, a0, k0, bi, a, k, i,
                                                                  seq0[i] if i >= 0 else float("nan"), seq[i] if i >= 0 else float("nan")))
                else:
                    seen[key] = (bi, a, k, seq)
    # (2) simpleGrading only if the four edges of every direction really need equal gradings: the cells of the four
    # wires, as realised from the single written expansion, must be what the block's own wire gradings describe
    if "wire_specs" in res:
        for bi, (vs, n3, kind, gtext) in enumerate(parsed):
            if kind != "simpleGrading":
                continue
            for a in range(3):
                s0 = res["wire_specs"][bi][4 * a]
                for k in range(1, 4):
                    sk = res["wire_specs"][bi][4 * a + k]
                    if len(sk) != len(s0) or any(not rel_close(x, y, TOL_SEQ) for p, q in zip(s0, sk) for x, y in zip(p, q)):
                        return "block %d is written with simpleGrading but wires 0 and %d of axis %d carry %r and %r" % (bi, k, a, s0, sk)
    # (3) preserve: families with exactly one chopped direction
    pos_of = {ci: p for p, ci in enumerate(asm.order)}
    for fam in gc.families(asm):
        src = [x for x in fam if x in asm.chops]
        if len(src) != 1:
            continue
        (cs, ca) = src[0]
        chops = asm.chops[(cs, ca)]
        _d, s_src = lattice_dir(asm.perms[cs], ca)
        nsec = len(chops)
        for j, kw in enumerate(chops):
            pres = kw.get("preserve", "c2c_expansion")
            ref = None
            ref_where = None
            if pres in kw and pres in ("start_size", "end_size", "c2c_expansion"):
                ref = float(kw[pres])
                ref_where = "requested"
            for (ci, a) in fam:
                bi = pos_of[ci]
                _d2, s2 = lattice_dir(asm.perms[ci], a)
                same = (s2 == s_src)
                for k in range(4):
                    cells = wire_cells[(bi, a, k)]
                    bounds = wire_secs[(bi, a, k)]
                    if len(bounds) != nsec:
                        return "block %d axis %d wire %d has %d sections, the chopped direction has %d" % (bi, a, k, len(bounds), nsec)
                    lo, hi = bounds[j] if same else bounds[nsec - 1 - j]
                    seq = cells[lo:hi] if same else cells[lo:hi][::-1]   # oriented like the chopped direction
                    if len(seq) < 2:
                        continue
                    if pres == "start_size":
                        val = seq[0]
                    elif pres == "end_size":
                        val = seq[-1]
                    else:
                        val = seq[1] / seq[0]
                    if ref is None:
                        if (ci, a) == (cs, ca) or True:
                            ref = val
                            ref_where = "block %d axis %d wire %d" % (bi, a, k)
                        continue
                    if not rel_close(val, ref, TOL_SEQ):
                        return ("preserve=%s of the chop on block %d axis %d (section %d): block %d axis %d wire %d realises %.6g, "
                                "%s is %.6g" % (pres, pos_of[cs], ca, j, bi, a, k, val, ref_where, ref))
    return None


# ---- Coq literals -------------------------------------------------------------------------------------

def q(x):
    return core.float_to_q(x)


def z(i):
    return "(%d)%%Z" % int(i)


def coq_div(s):
    return "(%s, %s, %s)" % (q(s[0]), z(s[1]), q(s[2]))


def coq_case(idx, res):
    nb = len(res["verts"])
    blks = []
    for b in range(nb):
        per_axis = []
        for a in range(3):
            lst = res["uchops"].get((b, a)) or []
            per_axis.append("[" + "; ".join("{| u_lr := %s; u_cnt := %s; u_tag := %s; u_val := %s |}" % (q(u[0]), z(u[1]), FLD[u[2]], q(u[3]))
                                            for u in lst) + "]")
        blks.append("{| b_verts := %s; b_chops := [%s] |}" % (gc.nl(res["verts"][b]), "; ".join(per_axis)))
    eor = {}
    for f in res["fills"]:
        lst = eor.setdefault(tuple(f["wire"]), [])
        while len(lst) < f["index"]:
            lst.append(0.0)
        if len(lst) == f["index"]:
            lst.append(f["spec"][2])
        else:
            lst[f["index"]] = f["spec"][2]
    eor_s = "[" + "; ".join("((%d, %d, %d), [%s])" % (w[0], w[1], w[2], "; ".join(q(e) for e in l)) for w, l in sorted(eor.items())) + "]"
    co, nbs = gc.coq_orders(res)
    o = res["outcome"]
    if o == "ok":
        counts = "[" + "; ".join("[" + "; ".join(z(c) for c in row) + "]" for row in res["counts"]) + "]"
        specs = "[" + ";\n      ".join("[" + "; ".join("[" + "; ".join(coq_div(s) for s in w) + "]" for w in blk) + "]" for blk in res["wire_specs"]) + "]"
        simple = "[" + "; ".join("true" if s else "false" for s in res["simple"]) + "]"
        chs = []
        for b in range(nb):
            row = []
            for a in range(3):
                lst = res["axis_chops"][b][a]
                if lst is None:  # chopped direction: what copy_preserving reads
                    lst = [[u[0], u[1], u[2], u[3], u[2]] for u in res["uchops"][(b, a)]]
                row.append("[" + "; ".join("(%s, %s, %s, %s, %s)" % (q(c[0]), z(c[1]), FLD[c[2]], q(c[3]), FLD[c[4]]) for c in lst) + "]")
            chs.append("[" + "; ".join(row) + "]")
        exp = "EOk %s\n     %s\n     %s\n     [%s]" % (counts, specs, simple, ";\n      ".join(chs))
    else:
        exp = {"undefined": "EUndefined", "inconsistent": "EInconsistent", "nofuel": "ENoFuel"}.get(o, "EOther")
    return ("{| k_id := %d; k_bs := [%s];\n   k_tau := %s; k_eor := %s;\n   k_co := %s;\n   k_nb := %s;\n   k_exp := %s |}"
            % (idx, ";\n     ".join(blks), q(res["tol"]), eor_s, co, nbs, exp))


def modelable(res):
    """the discrete model can be given this case: user chops resolved, every derived chop has the copy_preserving shape"""
    for lst in res["uchops"].values():
        if any(u is None or u[2] not in FLD for u in lst):
            return False
    if res["outcome"] == "ok":
        for row in res["axis_chops"]:
            for lst in row:
                if lst is not None and any(c is None or c[4] not in FLD for c in lst):
                    return False
    return True


CASE_HEADER = """From Coq Require Import List Bool Arith ZArith QArith.
From CB Require Import Model.Propagate Model.C04_Payload Proofs.C04_Transport.
Import ListNotations.
Local Open Scope nat_scope.
"""


def coq_dirs(idx, asm, res):
    """direction label (lattice sign) of every block axis: the labelling the theorems' hypothesis [oriented] is about"""
    pos_of = {ci: p for p, ci in enumerate(asm.order)}
    items = []
    for ci in range(len(asm.cells)):
        for a in range(3):
            items.append("((%d, %d), %s)" % (pos_of[ci], a, "true" if lattice_dir(asm.perms[ci], a)[1] > 0 else "false"))
    return "(%d, [%s])" % (idx, "; ".join(items))

REAL_HEADER = """From Coq Require Import Reals List.
From Interval Require Import Tactic.
From CB Require Import Base.Vec3 Model.C04_Payload Model.C04_Realise.
Open Scope R_scope.
"""


def real_goal(k, f):
    """interval goal: the section recorded in f realises the chop's value on the wire's length"""
    lr, n, fld, val, _tag = f["chop"]
    L = f.get("wlen", f["length"]) * lr   # the wire's own (edge) length, not what its Grading object believes
    E = f["spec"][2]
    R = core.float_to_R
    body = "realises_tol %s %s %s %d %s %s" % (FLD[fld], R(val), R(L), n, R(E), R(TOL_SEQ))
    return ("Goal %s.\nProof. cbv [realises_tol realised horner ratio_of INR Nat.sub Nat.pred dy]. "
            "first [ split; interval with (i_prec 80); idtac \"OK %d\" | idtac \"MISMATCH %d\" ]. Abort.\n" % (body, k, k))


# ---- the property ---------------------------------------------------------------------------------------

class C04(Prop):
    pid = "C04"
    title = "Cell-size distribution matches on shared edges and honours 'preserve'"
    prebuilt = PREBUILT
    gen_dependent_files = []
    property_files = ["Properties/C04.v"]
    trusted = [
        "hand model Model/C04_Payload.v of WireChopManager.grade / WirePropagateManager.copy_neighbours+propagate_grading / "
        "Axis.copy_grading / Chop.copy_preserving / Chop.invert / Grading.inverted / check_consistency / Block.format_grading; "
        "tied by sampled correspondence (outcome, counts, every wire's specification, simple/edge choice, chops held by every axis)",
        "Chop.calculate on a wire is an oracle of the model (recorded total expansion); every recorded call is checked against "
        "blockMesh's geometric progression by an interval goal (C03 proves the relations themselves)",
        "user chops enter as (length_ratio, results.count, preserve, results[preserve]) read from the implementation after the "
        "axis-level calculation (its correctness is C03); the direct oracle compares with the requested value where one was given",
        "edge lengths are numbers taken from Wire.length when the mesh is written (curved-edge lengths are C07/C08/C16); 'shared edge' "
        "is vertex-index equality; hypothesis len_shared (coincident wires have one length) is checked on every case, also with arcs "
        "and vertices moved after assembly: all pairs of coincident wires report the same Wire.length (rel. 1e-9) and every wire is "
        "graded on that length; likewise expansions_positive, ratios_bounded 1 and 0 <= TOL < 1 (hypotheses of C04_same_sequence)",
        "orientation hypothesis of the payload theorems (a direction label per block axis such that aligned <-> equal labels) is "
        "validated by the harness on every generated assembly (lattice direction signs), not proved for arbitrary vertex lists",
    ]
    partial = [
        "C04_same_sequence is proved with an explicit tolerance: on success the cell sequences of coincident wires agree cell by "
        "cell within kappa(tau)*|L|*M, kappa(tau) = tau(2-tau)/(1-tau) <= 3 tau, for all section counts and expansions "
        "(C04_sequences_close, C04_cell_factor), reversed when anti-aligned, and are EXACTLY equal under the premise that the wire "
        "holds the other wire's section records (what copy_neighbours establishes: C04_copied_shares_records). Exact equality "
        "without that premise is refuted (C04_same_sequence_exact_refuted: expansions 2 and 2 + 1e-8 both pass the code's check) - "
        "the tolerance is inherent in comparing floats. Not proved as an invariant: which pairs still share records in the final "
        "state (a copied wire's source can itself be overwritten later from a third wire of the same edge)",
    ]

    def cases(self, ctx):
        rng = ctx.rng
        spec = []
        for asm in load_corpus():
            spec.append((asm, None))
        for i in range(ctx.n(120, 3000)):
            asm = gen_case(rng, max_cells=ctx.n(6, 8))
            spec.append((asm, None))
            if i % 5 == 0:
                from props.C02 import make_prio
                spec.append((asm, make_prio(rng)))
        return spec

    def correspond(self, ctx):
        res = CorrResult()
        res.rule = ("jittered lattice assemblies (chains of 2..4 cells and 2x2x2 sub-lattices <= 6 cells, every block renumbered by a "
                    "random rotation so that each hop may be a flip, lattice points displaced by up to 0.19 so that all edge lengths "
                    "differ, random insertion order); one chopped direction per family (8 keyword combinations x 3 preserve modes, 25% "
                    "two-section), in 30% a second chopped direction in a family (agreeing or same count with another expansion); "
                    "native and injected iteration orders. (U) model run by vm_compute: outcome, counts, 12 wire specifications per "
                    "block, simple/edge choice, chops per axis. (N) one interval goal per Chop.calculate on a wire (<= cap). 40% with 1-3 arcs on random "
                    "block edges, 30% with 1-4 vertices moved after assembly; on every case all coincident wire pairs must report one "
                    "Wire.length (hypothesis len_shared), written expansions positive, length ratios in (0,1]. "
                    "non-trivial = >= 2 blocks and a propagated size/ratio-preserving chop; distinct by assembly json + schedule kind")
        spec = self.cases(ctx)
        done = []
        npairs = [0]
        for (asm, prio) in spec:
            r = run_impl(asm, ctx.work, prio)
            done.append((asm, prio is not None, r))
            res.evaluations += 1
            res.count("outcome=" + r["outcome"].split(":")[0])
            res.count("blocks=%d" % len(asm.cells))
            res.count("mode=" + getattr(asm, "mode", "corpus"))
            res.count("schedule=" + ("injected" if prio is not None else "native"))
            for chs in asm.chops.values():
                for kw in chs:
                    res.count("preserve=" + kw.get("preserve", "c2c_expansion"))
            flips = flips_in(asm)
            res.count("flipped_hops=%d" % min(flips, 3))
            if len(asm.cells) >= 2 and asm.chops:
                res.distinct.add(json.dumps(asm.to_json(), sort_keys=True) + str(prio is not None))
            why = direct_oracle(asm, r)
            if why:
                res.oracle_failures.append(dict(kind="assembly", assembly=asm.to_json(), injected=prio is not None,
                                                outcome=r["outcome"], why=why))
            ow = orientation_witness(asm, r)
            if ow:
                res.error = "orientation hypothesis of the theorems fails on a generated assembly: " + ow
            # hypotheses of the real-valued theorems that are discharged per run on the implementation's numbers
            if not r["outcome"].startswith("error:") and r["outcome"] != "nofuel":
                hw = len_shared_witness(r, npairs) or sequence_hypotheses_witness(r)
                if hw:
                    res.mismatches.append(dict(case=len(done) - 1, assembly=asm.to_json(), injected=prio is not None,
                                               impl_outcome=r["outcome"],
                                               why="a hypothesis of the theorems (len_shared / expansions_positive / "
                                                   "ratios_bounded) does not hold on this case: " + hw))
                if getattr(asm, "arcs", None) and getattr(asm, "moves", None):
                    res.count("len_shared checked with arcs and moved vertices")
        # (U) discrete model in Coq
        shards = []
        per = 12
        refused = [i for i, (_a, _j, r) in enumerate(done) if is_refusal(r)]
        res.count("refused(size does not fit an edge)", len(refused))
        if len(refused) > 0.15 * len(done) + 2:
            res.error = "%d of %d cases end in a ValueError of the relations (generated sizes should fit)" % (len(refused), len(done))
        ids = [i for i, (_a, _j, r) in enumerate(done) if i not in set(refused)]
        unmodelable = [i for i in ids if not modelable(done[i][2])]
        for i in unmodelable:
            asm, inj, r = done[i]
            res.mismatches.append(dict(case=i, assembly=asm.to_json(), injected=inj, impl_outcome=r["outcome"],
                                       why="a chop held by an axis does not have the shape copy_preserving builds "
                                           "(count + exactly one of start_size/end_size/c2c_expansion)", message=r.get("message")))
        ids = [i for i in ids if i not in set(unmodelable)]
        for k in range(0, len(ids), per):
            body = [CASE_HEADER, "Definition cases : list case := ["]
            body.append(";\n".join(coq_case(i, done[i][2]) for i in ids[k:k + per]))
            body.append("].")
            body.append("Definition dirs : list (nat * list (axis * bool)) := [")
            body.append(";\n".join(coq_dirs(i, done[i][0], done[i][2]) for i in ids[k:k + per]))
            body.append("].")
            body.append("Eval vm_compute in (mismatching %s cases)." % q(EPS_MODEL))
            body.append("Eval vm_compute in (map k_id (filter (fun c => negb (oriented_b (k_bs c) (dir_of_list "
                        "(match find (fun p => Nat.eqb (fst p) (k_id c)) dirs with Some p => snd p | None => [] end)))) cases)).")
            shards.append(("c04u_%d" % (k // per), "\n".join(body) + "\n"))
        # (N) interval goals
        goals = []
        seen = set()
        for i, (asm, inj, r) in enumerate(done):
            for f in r["fills"]:
                if f["chop"] is None or f["chop"][1] < 2:
                    continue
                key = (round(f.get("wlen", f["length"]), 9), tuple(f["chop"][:4]), f["spec"][2])
                if key in seen:
                    continue
                seen.add(key)
                goals.append((i, f))
        ctx.rng.shuffle(goals)
        goals = goals[: ctx.n(360, 6000)]
        gper = 40 if ctx.quick else 120
        for k in range(0, len(goals), gper):
            body = [REAL_HEADER] + [real_goal(k + j, f) for j, (_i, f) in enumerate(goals[k:k + gper])]
            shards.append(("c04n_%d" % (k // gper), "\n".join(body)))
        okn = set()
        for (name, rc, so, se) in core.run_cases_parallel(ctx, shards, timeout=600):
            if rc != 0:
                res.error = "case file %s failed: %s" % (name, se[-800:])
                return res
            if name.startswith("c04u_"):
                lists = re.findall(r"=\s*\[(.*?)\]\s*:\s*list nat", so, flags=re.S)
                if len(lists) != 2:
                    res.error = "case file %s: cannot parse Coq output %r" % (name, so[:300])
                    return res
                bad_or = [int(x) for x in lists[1].replace("\n", " ").split(";") if x.strip()]
                if bad_or:
                    res.error = ("the orientation hypothesis of the theorems (oriented_b, evaluated in Coq) fails on generated "
                                 "case(s) %r" % bad_or)
                for i in [int(x) for x in lists[0].replace("\n", " ").split(";") if x.strip()]:
                    asm, inj, r = done[i]
                    res.mismatches.append(dict(case=i, assembly=asm.to_json(), injected=inj, impl_outcome=r["outcome"],
                                               message=r.get("message"), why="discrete model and implementation disagree"))
            else:
                for m in re.finditer(r"^(OK|MISMATCH) (\d+)", so + "\n" + se, flags=re.M):
                    k = int(m.group(2))
                    okn.add(k)
                    if m.group(1) == "MISMATCH":
                        i, f = goals[k]
                        asm, inj, r = done[i]
                        res.mismatches.append(dict(case=i, assembly=asm.to_json(), injected=inj, fill=f,
                                                   why="a wire section does not realise the value of the chop it was calculated from"))
        if len(okn) != len(goals):
            res.error = "%d of %d interval goals printed no verdict" % (len(goals) - len(okn), len(goals))
        res.evaluations += len(goals)
        res.count("interval_goals", len(goals))
        res.count("len_shared: coincident wire pairs compared (Wire.length, rel. 1e-9)", npairs[0])
        res.traces = len(done)
        res.samples = [dict(assembly=a.to_json(), injected=inj, outcome=r["outcome"], counts=r.get("counts"),
                            wire_specs_block0=(r.get("wire_specs") or [None])[0]) for (a, inj, r) in done[:3]]
        return res

    def search(self, ctx, broken, corr):
        fails = []
        tried = []
        for m in corr.mismatches[:20]:
            if "assembly" in m:
                tried.append(gc.Assembly.from_json(m["assembly"]))
        rng = ctx.rng
        tried += [gen_case(rng, max_cells=4) for _ in range(ctx.n(300, 3000))]
        sigs = set()
        for asm in tried:
            r = run_impl(asm, ctx.work, None)
            why = direct_oracle(asm, r)
            if why:
                small = shrink(asm, ctx)
                r2 = run_impl(small, ctx.work, None)
                rp = dict(kind="assembly", assembly=small.to_json(), injected=False, outcome=r2["outcome"],
                          why=direct_oracle(small, r2) or why)
                s = self.signature(rp)
                if s not in sigs:
                    sigs.add(s)
                    fails.append(rp)
            if len(fails) >= 3:
                break
        return fails

    def signature(self, rp):
        why = rp.get("why") or ""
        if why.startswith("preserve="):
            cls = "preserve-not-realised"
        elif why.startswith("shared edge lengths differ"):
            cls = "shared-edge-lengths-differ"
        elif why.startswith("shared edge"):
            cls = "shared-edge-sequences-differ"
        elif "simpleGrading but" in why:
            cls = "simple-with-unequal-gradings"
        elif why.startswith("unexpected exception"):
            cls = "exception"
        elif why.startswith("every family has exactly one chopped direction"):
            cls = "well-posed-assembly-refused"
        else:
            cls = re.sub(r"[0-9.]+", "#", why)[:50]
        return "%s:%s:%s" % (self.pid, rp.get("kind"), cls)

    def replay(self, ctx, obj):
        asm = gc.Assembly.from_json(obj["assembly"])
        r = run_impl(asm, ctx.work, None)
        print("implementation outcome:", r["outcome"], r.get("counts"), r.get("message", ""))
        for bi, p in enumerate(r.get("parsed", [])):
            print("  block %d: %s ( %s )" % (bi, p[2], p[3].strip()))
        print("oracle:", direct_oracle(asm, r) or "ok")
        return 0


def flips_in(asm):
    """number of neighbouring (block, axis) pairs of one family running in opposite lattice directions"""
    n = 0
    for fam in gc.families(asm):
        signs = [lattice_dir(asm.perms[b], a)[1] for (b, a) in fam]
        n += min(signs.count(1), signs.count(-1))
    return n


def orientation_witness(asm, res):
    """the hypothesis `oriented` of the payload theorems, checked on the assembly: alignment of coincident wires
    (vertex order) is equality of the lattice direction signs.  Returns None or a description."""
    pos_of = {ci: p for p, ci in enumerate(asm.order)}
    sign = {}
    for ci in range(len(asm.cells)):
        for a in range(3):
            sign[(pos_of[ci], a)] = lattice_dir(asm.perms[ci], a)[1]
    ends = {}
    for bi, vs in enumerate(res["verts"]):
        for a in range(3):
            for k, (c1, c2) in enumerate(gc.AXIS_PAIRS_REF[a]):
                ends[(bi, a, k)] = (vs[c1], vs[c2])
    ws = list(ends)
    for w in ws:
        for c in ws:
            if w[0] != c[0] and ends[w][0] != ends[w][1]:
                if ends[w] == ends[c] and sign[w[:2]] != sign[c[:2]]:
                    return "aligned wires %r %r with different direction labels" % (w, c)
                if ends[w] == ends[c][::-1] and sign[w[:2]] == sign[c[:2]]:
                    return "anti-aligned wires %r %r with equal direction labels" % (w, c)
    return None


def wire_ends(res):
    ends = {}
    for bi, vs in enumerate(res["verts"]):
        for a in range(3):
            for k, (c1, c2) in enumerate(gc.AXIS_PAIRS_REF[a]):
                ends[(bi, a, k)] = (vs[c1], vs[c2])
    return ends


def coincident_pairs(res):
    """pairs of wires of different blocks between the same two vertices (either direction): Wire.is_coincident, the
    model's [coincident]"""
    by_edge = {}
    for w, (v1, v2) in wire_ends(res).items():
        by_edge.setdefault(frozenset((v1, v2)), []).append(w)
    for ws in by_edge.values():
        for i, w in enumerate(ws):
            for c in ws[i + 1:]:
                if w[0] != c[0]:
                    yield w, c


def len_shared_witness(res, count=None):
    """hypothesis [len_shared] of C04_preserve_realised / C04_same_sequence, on the implementation's numbers: coincident
    wires report the same Wire.length when the mesh is written (straight edges, arcs, vertices moved after assembly),
    and a wire is graded on that length.  Returns None or a description."""
    wl = res.get("wire_lengths")
    if wl is None:
        return "wire lengths were not recorded"
    n = 0
    for w, c in coincident_pairs(res):
        lw, lc = wl[w[0]][4 * w[1] + w[2]], wl[c[0]][4 * c[1] + c[2]]
        n += 1
        if not (math.isfinite(lw) and math.isfinite(lc) and rel_close(lw, lc, TOL_LEN)):
            return ("shared edge lengths differ: block %d (axis %d wire %d) measures %.12g, block %d (axis %d wire %d) measures "
                    "%.12g for the same vertex pair" % (w[0], w[1], w[2], lw, c[0], c[1], c[2], lc))
    for f in res.get("fills", []):
        if "wlen" in f:
            b, a, k = f["wire"]
            if not rel_close(f["wlen"], wl[b][4 * a + k], TOL_LEN):
                return ("shared edge lengths differ: block %d axis %d wire %d was graded on length %.12g, its edge measures %.12g "
                        "when the mesh is written" % (b, a, k, f["wlen"], wl[b][4 * a + k]))
    if count is not None:
        count[0] += n
    return None


def sequence_hypotheses_witness(res):
    """the other per-run hypotheses of C04_same_sequence: 0 <= tau < 1, every written expansion positive
    ([expansions_positive]), every length ratio in (0, 1] ([ratios_bounded 1])"""
    if not (0.0 <= res["tol"] < 1.0):
        return "constants.TOL = %r is not in [0, 1)" % res["tol"]
    for bi, blk in enumerate(res.get("wire_specs") or []):
        for wi, spec in enumerate(blk):
            for sec in spec:
                if not (sec[2] > 0.0 and math.isfinite(sec[2])):
                    return "block %d wire %d carries the total expansion %r" % (bi, wi, sec[2])
                if not (0.0 < sec[0] <= 1.0):
                    return "block %d wire %d carries the length ratio %r" % (bi, wi, sec[0])
    return None


def load_corpus():
    d = os.path.join(core.VERIF, "corpus", "C04")
    out = []
    if os.path.isdir(d):
        for fn in sorted(os.listdir(d)):
            if fn.endswith(".json"):
                with open(os.path.join(d, fn)) as f:
                    a = gc.Assembly.from_json(json.load(f)["assembly"])
                    a.mode = "corpus"
                    out.append(a)
    return out


def shrink(asm, ctx):
    """Greedy: drop cells / chops, remove jitter components while the direct oracle still fails."""
    def fails(a):
        try:
            return direct_oracle(a, run_impl(a, ctx.work, None)) is not None
        except Exception:
            return False
    cur = asm
    changed = True
    while changed:
        changed = False
        for drop in range(len(cur.cells)):
            if len(cur.cells) <= 1:
                break
            keep = [i for i in range(len(cur.cells)) if i != drop]
            remap = {old: new for new, old in enumerate(keep)}
            cand = gc.Assembly([cur.cells[i] for i in keep], [cur.perms[i] for i in keep],
                               {(remap[b], a): ch for (b, a), ch in cur.chops.items() if b in remap}, cur.jitter,
                               [remap[i] for i in cur.order if i in remap])
            if fails(cand):
                cur = cand
                changed = True
                break
        if changed:
            continue
        for key in list(cur.chops):
            cand = gc.Assembly(cur.cells, cur.perms, {k: v for k, v in cur.chops.items() if k != key}, cur.jitter, cur.order)
            if fails(cand):
                cur = cand
                changed = True
                break
    return cur


PROP = C04()
