"""C18 - Finders are exact; viewpoint re-orientation canonicalises block numbering.

Ties
 (N) sphere / plane finders: real-valued model (Model/C18_Finder.v).  The correspondence hands the model the very
     vertex lists and queries given to GeometricFinder as integer mantissas at a common binary unit; Proofs/C18_Exact.v
     proves that on such inputs the real-valued model is decided by integer arithmetic, which the case files evaluate
     with vm_compute for every vertex.
 (F) round finder: the RoundSolidShape classes at canonical placements are tabulated into Gen/C18/Tables.v (vertices,
     sketch faces, what find_core/find_shell returned); Properties/C18.v proves by vm_compute over Z that the model
     returns the same and that it is exactly the inner / rim vertex set of the end disk.  Random placements go through
     the same two checks in generated case files.
 (F) re-orienter: all 48 numberings of the unit cube are run through the real code and tabulated.
 (U) re-orienter: hull (recorded Qhull output) + alignment order -> Model/C18_Reorient.v `reorient`, evaluated by
     vm_compute and compared with Operation.point_array after the real reorient(); on every case the alignment order is
     checked against the real-valued sort key of the model, decided exactly (Proofs/C18_ExactAlign.v: rank_check_sound).
"""
import hashlib
import json
import math
import time
import warnings
from fractions import Fraction as Fr

import os

import core
import translate_np
from core import GenError, CorrResult, Prop

XYZ = [(0, 0, 0), (1, 0, 0), (1, 1, 0), (0, 1, 0), (0, 0, 1), (1, 0, 1), (1, 1, 1), (0, 1, 1)]
HEX_FACES = {"bottom": (0, 1, 2, 3), "top": (4, 5, 6, 7), "left": (0, 3, 7, 4), "right": (1, 2, 6, 5),
             "front": (0, 1, 5, 4), "back": (3, 2, 6, 7)}  # the hexahedron of Hex.v: coordinate planes
ORDER = ["front", "back", "top", "bottom", "left", "right"]  # Model.C18_Reorient.normals_order / rank_of
# neighbours (x, y, z direction) of every corner, for the Jacobian sign
NEIGH = []
for _c, (_x, _y, _z) in enumerate(XYZ):
    NEIGH.append(tuple(XYZ.index(t) for t in ((1 - _x, _y, _z), (_x, 1 - _y, _z), (_x, _y, 1 - _z))))


def _cb():
    import classy_blocks as cb  # noqa
    return cb


def _np():
    import numpy as np
    return np


def get_tol():
    from classy_blocks.util import constants
    t = float(constants.TOL)
    if not (0 < t < 1e-2):
        raise GenError("constants.TOL = %r is not a small positive number" % (t,))
    return t


# ------------------------------------------------------------------------------------------------
# literals


def R(x):
    return core.float_to_R(float(x))


def vecR(p):
    return "(%s, %s, %s)" % (R(p[0]), R(p[1]), R(p[2]))


def mant_exp(x):
    """x = m * 2**e exactly, m odd (or 0)"""
    x = float(x)
    if x == 0.0:
        return 0, 0
    if x != x or x in (float("inf"), float("-inf")):
        raise GenError("non-finite coordinate %r" % (x,))
    m, e = math.frexp(x)
    mi = int(m * (1 << 53))
    ee = e - 53
    while mi % 2 == 0:
        mi //= 2
        ee += 1
    return mi, ee


def common_exp(values):
    """smallest E >= 0 such that every value is an integer multiple of 2**-E"""
    E = 0
    for x in values:
        m, e = mant_exp(x)
        if m != 0 and -e > E:
            E = -e
    if E > 700:
        raise GenError("a coordinate needs the unit 2^-%d" % E)
    return E


def zint(x, E):
    fr = Fr(float(x)) * (1 << E)
    if fr.denominator != 1:
        raise GenError("value %r is not a multiple of 2^-%d" % (x, E))
    return int(fr.numerator)


def Z(i):
    """hexadecimal numerals (parsed much faster than long decimal ones)"""
    if abs(i) < 1000000:
        return "(%d)" % i if i < 0 else "%d" % i
    return "(-0x%x)" % (-i) if i < 0 else "0x%x" % i


def vecZ(p, E):
    return "(%s, %s, %s)" % (Z(zint(p[0], E)), Z(zint(p[1], E)), Z(zint(p[2], E)))


def nl(l):
    return "[" + "; ".join(str(int(x)) for x in l) + "]"


def bl(b):
    return "true" if b else "false"


def fl(p):
    return [float(x) for x in p]


def dyadic(x, bits=10):
    return round(x * (1 << bits)) / float(1 << bits)


# ------------------------------------------------------------------------------------------------
# meshes (programs of shape constructors)


def build_shape(spec):
    cb = _cb()
    k, a = spec["kind"], spec["args"]
    if k == "box":
        s = cb.Box(a[0], a[1])
    elif k == "cylinder":
        s = cb.Cylinder(a[0], a[1], a[2])
    elif k == "semicylinder":
        s = cb.SemiCylinder(a[0], a[1], a[2])
    elif k == "frustum":
        s = cb.Frustum(a[0], a[1], a[2], a[3])
    elif k == "elbow":
        s = cb.Elbow(a[0], a[1], a[2], a[3], a[4], a[5], a[6])
    else:
        raise ValueError(k)
    if spec.get("rotate"):
        ang, ax, org = spec["rotate"]
        s.rotate(ang, ax, org)
    if spec.get("mirror"):
        # the second half of a symmetric geometry: a shape mirrored about a coordinate plane (exact in floats)
        nrm, org = spec["mirror"]
        s.mirror(nrm, org)
    for side, name in (spec.get("patches") or {}).items():
        s.set_patch(side, name)
    return s


def build_mesh(prog):
    """prog: list of shape specs; a spec may carry chain=<'cylinder'|'frustum'> to chain a second shape on it"""
    cb = _cb()
    mesh = cb.Mesh()
    shapes = []
    for spec in prog:
        if spec.get("kind") == "merge":
            # a merged pair: the corners on the slave patch get their own vertices, at the positions of the master's
            mesh.merge_patches(spec["args"][0], spec["args"][1])
            continue
        s = build_shape(spec)
        mesh.add(s)
        shapes.append(s)
        ch = spec.get("chain")
        if ch:
            if ch[0] == "cylinder":
                mesh.add(cb.Cylinder.chain(s, ch[1], start_face=bool(ch[2])))
            else:
                mesh.add(cb.Frustum.chain(s, ch[1], ch[3], start_face=bool(ch[2])))
    with warnings.catch_warnings():
        warnings.simplefilter("ignore")
        mesh.assemble()
    verts = list(mesh.vertices)
    for i, v in enumerate(verts):
        if v.index != i:
            raise GenError("mesh.vertices is not in index order")
    return mesh, shapes, [fl(v.position) for v in verts]


def rnd_dy(rng, lo, hi, bits=3):
    return dyadic(rng.uniform(lo, hi), bits)


def gen_box(rng):
    c = [rnd_dy(rng, -4, 3) for _ in range(3)]
    d = [dyadic(rng.uniform(0.25, 2.5), 3) or 0.25 for _ in range(3)]
    return c, [c[i] + d[i] for i in range(3)]


def cross(a, b):
    return [a[1] * b[2] - a[2] * b[1], a[2] * b[0] - a[0] * b[2], a[0] * b[1] - a[1] * b[0]]


def dot(a, b):
    return a[0] * b[0] + a[1] * b[1] + a[2] * b[2]


def sub(a, b):
    return [a[0] - b[0], a[1] - b[1], a[2] - b[2]]


def add(a, b):
    return [a[0] + b[0], a[1] + b[1], a[2] + b[2]]


def mul(k, a):
    return [k * a[0], k * a[1], k * a[2]]


def vnorm(a):
    return math.sqrt(dot(a, a))


def unit(a):
    n = vnorm(a)
    if n == 0.0:
        return [0.0, 0.0, 0.0]
    return [a[0] / n, a[1] / n, a[2] / n]


def gen_axis_radius(rng):
    """integer axis and an exactly perpendicular radius vector (small integers, so dot == 0 in floats)"""
    while True:
        ax = [rng.randint(-3, 3) for _ in range(3)]
        t = [rng.randint(-3, 3) for _ in range(3)]
        r = cross(ax, t)
        if any(ax) and any(r):
            k = rng.choice([0.125, 0.25, 0.5, 1.0])
            return [float(x) for x in ax], [k * x for x in r]


def gen_round(rng, kind=None):
    spec = _gen_round(rng, kind)
    if rng.random() < 0.3:
        e = [0.0, 0.0, 0.0]
        e[rng.randrange(3)] = 1.0
        spec["mirror"] = [e, [float(rng.randint(-2, 2)) for _ in range(3)]]
    return spec


def _gen_round(rng, kind=None):
    kind = kind or rng.choice(["cylinder", "cylinder", "semicylinder", "frustum", "elbow"])
    p1 = [float(rng.randint(-4, 4)) for _ in range(3)]
    ax, rv = gen_axis_radius(rng)
    L = rng.choice([0.5, 1.0, 1.5, 2.0])
    p2 = add(p1, mul(L, ax))
    rp = add(p1, rv)
    r1 = vnorm(rv)
    if kind in ("cylinder", "semicylinder"):
        return dict(kind=kind, args=[p1, p2, rp])
    if kind == "frustum":
        return dict(kind=kind, args=[p1, p2, rp, dyadic(r1 * rng.uniform(0.3, 1.8), 6) or r1])
    # elbow: rotation axis perpendicular-ish to the normal, arc centre off the axis
    rot_axis = [float(x) for x in cross(ax, rv)]
    side = unit(rv)
    arc_center = add(p1, mul(dyadic(r1 * rng.uniform(2.0, 4.0), 4), side))
    sweep = dyadic(rng.uniform(0.3, 1.6), 6) * rng.choice([1, -1])
    return dict(kind=kind, args=[p1, rp, ax, sweep, arc_center, rot_axis, dyadic(r1 * rng.uniform(0.5, 1.5), 6) or r1])


def gen_mesh_prog(rng):
    k = rng.random()
    prog = []
    if k < 0.15:
        # two boxes face to face whose interface is a merged patch pair: two vertices at every interface corner
        c, d = gen_box(rng)
        a = rng.randrange(3)
        lo_side, hi_side = [("left", "right"), ("front", "back"), ("bottom", "top")][a]
        c2, d2 = list(c), list(d)
        c2[a] = d[a]
        d2[a] = d[a] + (dyadic(rng.uniform(0.25, 2.0), 3) or 0.25)
        prog.append(dict(kind="box", args=[c, d], patches={hi_side: "master_1"}))
        prog.append(dict(kind="box", args=[c2, d2], patches={lo_side: "slave_1"}))
        prog.append(dict(kind="merge", args=["master_1", "slave_1"]))
        return prog
    if k < 0.55:
        c, d = gen_box(rng)
        spec = dict(kind="box", args=[c, d])
        if rng.random() < 0.3:
            spec["rotate"] = [dyadic(rng.uniform(0.1, 1.4), 6), [rng.randint(1, 3), rng.randint(-2, 2), rng.randint(-2, 2)], c]
        prog.append(spec)
        n = rng.choice([0, 1, 1, 2])
        last = (c, d)
        for _ in range(n):
            if "rotate" in spec:
                break
            # a neighbour sharing a whole face (vertices get merged) or a detached box
            a = rng.randrange(3)
            c2, d2 = list(last[0]), list(last[1])
            w = dyadic(rng.uniform(0.25, 2.0), 3) or 0.25
            c2[a] = last[1][a] + (0.0 if rng.random() < 0.7 else 0.5)
            d2[a] = c2[a] + w
            prog.append(dict(kind="box", args=[c2, d2]))
            last = (c2, d2)
    else:
        prog.append(gen_round(rng, rng.choice(["cylinder", "cylinder", "semicylinder", "frustum"])))
        if rng.random() < 0.3:
            c, d = gen_box(rng)
            c = add(c, [12.0, 0, 0])
            d = add(d, [12.0, 0, 0])
            prog.append(dict(kind="box", args=[c, d]))
    return prog


# ------------------------------------------------------------------------------------------------
# sphere / plane queries, exact oracle


def frv(p):
    return [Fr(float(x)) for x in p]


def exact_dist2(a, b):
    a, b = frv(a), frv(b)
    return sum((a[i] - b[i]) ** 2 for i in range(3))


def scale_of(*vs):
    m = 1.0
    for v in vs:
        for x in v:
            m = max(m, abs(float(x)))
    return m


BOUND = 1e-9


def sphere_expect(verts, p, r, tol):
    """exact verdict per vertex and whether it is a boundary case (2.4)"""
    rr = tol if r is None else float(r)
    out = []
    for v in verts:
        d2 = exact_dist2(v, p)
        inside = rr > 0 and d2 < Fr(rr) ** 2
        d = math.sqrt(float(d2))
        boundary = abs(d - rr) <= BOUND * scale_of(v, p, [rr])
        out.append((inside, boundary))
    return out


def plane_expect(verts, o, n, tol):
    fo, fn = frv(o), frv(n)
    nn = sum(x * x for x in fn)
    out = []
    for v in verts:
        fv = frv(v)
        dn = sum((fv[i] - fo[i]) * fn[i] for i in range(3))
        on = dn * dn < Fr(tol) ** 2 * nn
        d = math.sqrt(float(dn * dn / nn))
        boundary = abs(d - tol) <= BOUND * scale_of(v, o)
        # the branch for coincident points: near its threshold either branch may be taken by the floats
        dc = math.sqrt(float(exact_dist2(v, o)))
        if abs(dc - tol) <= BOUND * scale_of(v, o):
            boundary = True
        out.append((on, boundary))
    return out


def rand_dir(rng):
    while True:
        v = [rng.gauss(0, 1) for _ in range(3)]
        if vnorm(v) > 0.1:
            return unit(v)


def gen_queries(rng, verts, tol, n):
    qs = []
    lo = [min(v[i] for v in verts) for i in range(3)]
    hi = [max(v[i] for v in verts) for i in range(3)]
    # positions held by several vertices (slave copies of a merged patch pair): an exact-position query finds all of them
    seen, dup = set(), []
    for v in verts:
        t = tuple(v)
        if t in seen and list(t) not in dup:
            dup.append(list(t))
        seen.add(t)
    for v in rng.sample(dup, min(3, len(dup))):
        qs.append(dict(kind="sphere", p=v, r=None))
    for _ in range(n):
        k = rng.random()
        vi = rng.choice(verts)
        if k < 0.22:
            # sphere centred near a vertex, radius close to the distance of another vertex
            vj = rng.choice(verts)
            off = mul(rng.choice([0.0, 0.0, 0.01, 0.3]), rand_dir(rng))
            p = add(vi, off)
            d = vnorm(sub(vj, p))
            f = rng.choice([0.5, 0.999, 1.001, 1.5, 1.0 - 1e-6, 1.0 + 1e-6, rng.uniform(0.2, 2.0)])
            qs.append(dict(kind="sphere", p=p, r=max(d, 0.05) * f))
        elif k < 0.26:
            # sphere centred on (or within TOL/2 of) a vertex with a zero or negative radius: nothing is strictly inside
            off = mul(tol * rng.choice([0.0, 0.5, 0.5]), rand_dir(rng))
            qs.append(dict(kind="sphere", p=add(vi, off), r=rng.choice([0.0, 0.0, -0.5])))
        elif k < 0.32:
            p = [rng.uniform(lo[i] - 0.5, hi[i] + 0.5) for i in range(3)]
            qs.append(dict(kind="sphere", p=p, r=rng.choice([rng.uniform(0.1, 4.0), 0.0, -1.0, 100.0])))
        elif k < 0.47:
            # default radius (TOL): inside / outside the merge tolerance of a vertex
            off = mul(tol * rng.choice([0.0, 0.3, 0.5, 0.7, 1.5, 2.0, 5.0]), rand_dir(rng))
            qs.append(dict(kind="sphere", p=add(vi, off), r=None))
        elif k < 0.62:
            # plane through three vertices, normal of arbitrary length and sign
            vj, vk = rng.choice(verts), rng.choice(verts)
            nrm = cross(sub(vj, vi), sub(vk, vi))
            if vnorm(nrm) < 1e-3:
                nrm = rand_dir(rng)
            qs.append(dict(kind="plane", o=vi, n=mul(rng.choice([1.0, -1.0, 0.125, 7.0, -300.0]), nrm)))
        elif k < 0.85:
            # coordinate / face plane through a vertex, pushed off along the normal by a multiple of TOL
            a = rng.randrange(3)
            nrm = [0.0, 0.0, 0.0]
            nrm[a] = rng.choice([1.0, -2.0, 0.5])
            if rng.random() < 0.4:
                vj, vk = rng.choice(verts), rng.choice(verts)
                c = cross(sub(vj, vi), sub(vk, vi))
                if vnorm(c) > 1e-3:
                    nrm = c
            off = tol * rng.choice([0.0, 0.3, 0.6, 0.9, 1.1, 1.5, 3.0, -0.5, -2.0])
            o = add(vi, mul(off, unit(nrm)))
            # slide the origin inside the plane so that it does not coincide with the vertex
            if rng.random() < 0.7:
                t = cross(nrm, rand_dir(rng))
                if vnorm(t) > 1e-6:
                    o = add(o, mul(rng.uniform(0.2, 2.0), unit(t)))
            qs.append(dict(kind="plane", o=o, n=nrm))
        else:
            # arbitrary plane through (or within TOL of) a vertex: the coincident-point branch
            off = mul(tol * rng.choice([0.0, 0.4, 0.8, 2.0]), rand_dir(rng))
            qs.append(dict(kind="plane", o=add(vi, off), n=mul(rng.uniform(0.1, 5.0), rand_dir(rng))))
    return qs


def run_query(mesh, q):
    """the implementation: returns the sorted list of vertex indices"""
    from classy_blocks.modify.find.geometric import GeometricFinder
    fnd = GeometricFinder(mesh)
    # every second query (chosen by the query itself, so that replays agree) is put to a finder that has answered before
    # and whose mesh has been moved since: all vertices are shifted by d, the query is asked about the shifted geometry and
    # the vertices are put back afterwards.  A finder answers about the vertices where they are now.
    d = None
    hq = int(hashlib.sha1(json.dumps(q, sort_keys=True, default=str).encode()).hexdigest()[:4], 16)
    if hq % 5 == 1:
        # the mesh is assembled anew under the finder's feet (Mesh.backport: same positions and numbering, new vertex
        # objects): a finder answers with the vertices the mesh has NOW
        try:
            fnd.find_in_sphere(list(q["p"]) if q["kind"] == "sphere" else list(q["o"]), 0.5)
        except Exception:  # noqa: BLE001
            pass
        with warnings.catch_warnings():
            warnings.simplefilter("ignore")
            mesh.backport()
    if hq % 2 == 0:
        d = [0.75, -1.25, 0.5]
        try:
            fnd.find_in_sphere(list(q["p"]) if q["kind"] == "sphere" else list(q["o"]), 0.5)
        except Exception:  # noqa: BLE001
            pass
        for v in mesh.vertices:
            v.move_to([float(v.position[i]) + d[i] for i in range(3)])
    sh = (lambda p: [float(p[i]) + d[i] for i in range(3)]) if d else (lambda p: list(p))
    try:
        if q["kind"] == "sphere":
            if q["r"] is None:
                res = fnd.find_in_sphere(sh(q["p"]))
            else:
                res = fnd.find_in_sphere(sh(q["p"]), q["r"])
        else:
            res = fnd.find_on_plane(sh(q["o"]), list(q["n"]))
        out = sorted(v.index for v in res)
        if any(v.index >= len(mesh.vertices) or v is not mesh.vertices[v.index] for v in res):
            out = [99999]  # objects that are not vertices of the mesh (any more)
    finally:
        if d:
            for v in mesh.vertices:
                v.move_to([float(v.position[i]) - d[i] for i in range(3)])
    return out


def oracle_query(verts, q, found, tol):
    """direct oracle: found == {v | dist(v,p) < r} resp. {v | dist_plane(v) < TOL}, boundary cases free"""
    exp = sphere_expect(verts, q["p"], q["r"], tol) if q["kind"] == "sphere" else plane_expect(verts, q["o"], q["n"], tol)
    fs = set(found)
    if not fs <= set(range(len(verts))) or len(fs) != len(found):
        return "result is not a set of mesh vertices", exp
    missed = [i for i, (on, b) in enumerate(exp) if on and not b and i not in fs]
    extra = [i for i, (on, b) in enumerate(exp) if (not on) and not b and i in fs]
    if missed:
        return "missed vertices %s" % missed[:6], exp
    if extra:
        return "extra vertices %s" % extra[:6], exp
    return None, exp


def reduce_dir(n):
    """integer vector with the direction of n (own unit, common factors removed)"""
    En = common_exp(n)
    nz = [zint(x, En) for x in n]
    g = math.gcd(math.gcd(abs(nz[0]), abs(nz[1])), abs(nz[2]))
    if g == 0:
        raise GenError("zero direction vector")
    return [x // g for x in nz]


def query_case(k, verts, q, found, exp, tol):
    """one query as a tuple for Proofs/C18_Exact.v (sphere_case_ok / plane_case_ok): all vertices that are not
    boundary cases, as integer mantissas at one common unit; the plane normal at a unit of its own"""
    keep = [i for i, (_on, b) in enumerate(exp) if not b]
    fs = set(found)
    mask = "[" + "; ".join(bl(i in fs) for i in keep) + "]"
    vals = [tol]
    for i in keep:
        vals += list(verts[i])
    if q["kind"] == "sphere":
        r = tol if q["r"] is None else q["r"]
        vals += list(q["p"]) + [r]
        E = common_exp(vals)
        vs = "[" + "; ".join(vecZ(verts[i], E) for i in keep) + "]"
        return "(%d%%nat, (%s, %s, %s, %s))" % (k, vecZ(q["p"], E), Z(zint(r, E)), vs, mask), len(keep)
    vals += list(q["o"])
    E = common_exp(vals)
    nz = reduce_dir(q["n"])
    vs = "[" + "; ".join(vecZ(verts[i], E) for i in keep) + "]"
    return "(%d%%nat, (%s, %s, (%s, %s, %s), %s, %s))" % (k, Z(zint(tol, E)), vecZ(q["o"], E), Z(nz[0]), Z(nz[1]), Z(nz[2]), vs, mask), len(keep)


HEADER_Z = ("From Coq Require Import List Bool ZArith.\n"
            "From CB Require Import Base.Hex Model.C18_Finder Model.C18_Reorient Proofs.C18_Exact Proofs.C18_ExactAlign.\n"
            "Import ListNotations.\nOpen Scope Z_scope.\n")


# ------------------------------------------------------------------------------------------------
# round finder


def rot_rodrigues(v, axis, ang, origin=None):
    o = origin or [0.0, 0.0, 0.0]
    k = unit(axis)
    p = sub(v, o)
    c, s = math.cos(ang), math.sin(ang)
    r = add(add(mul(c, p), mul(s, cross(k, p))), mul(dot(k, p) * (1 - c), k))
    return add(r, o)


def round_disks(spec):
    """[(centre, normal, radius)] for start and end face, from the constructor arguments only"""
    disks = _round_disks(spec)
    if spec.get("mirror"):
        e, o = spec["mirror"]

        def mp(p):
            return sub(p, mul(2 * dot(sub(p, o), e), e))

        def mv(v):
            return sub(v, mul(2 * dot(v, e), e))
        disks = [(mp(c), mv(n), r) for (c, n, r) in disks]
    return disks


def _round_disks(spec):
    k, a = spec["kind"], spec["args"]
    if k in ("cylinder", "semicylinder", "frustum"):
        p1, p2, rp = a[0], a[1], a[2]
        n = sub(p2, p1)
        r1 = vnorm(sub(rp, p1))
        r2 = a[3] if k == "frustum" else r1
        return [(p1, n, r1), (p2, n, r2)]
    c1, rp, n1, sweep, arc_c, rot_axis, r2 = a
    r1 = vnorm(sub(rp, c1))
    return [(c1, n1, r1), (rot_rodrigues(c1, rot_axis, sweep, arc_c), rot_rodrigues(n1, rot_axis, sweep), r2)]


def run_round(mesh, shape, end):
    from classy_blocks.modify.find.shape import RoundSolidFinder
    fnd = RoundSolidFinder(mesh, shape)
    core_f = sorted(v.index for v in fnd.find_core(end))
    shell_f = sorted(v.index for v in fnd.find_shell(end))
    return core_f, shell_f


def sketch_faces(shape, end):
    sk = shape.sketch_2 if end else shape.sketch_1
    cf = [[fl(p.position) for p in f.points] for f in sk.core]
    sf = [[fl(p.position) for p in f.points] for f in sk.shell]
    if not cf or not sf or any(len(f) != 4 for f in cf + sf):
        raise GenError("sketch core/shell are not lists of quads")
    return cf, sf


def oracle_round(verts, disk, core_f, shell_f):
    """direct oracle (floats): found sets are exactly the inner / rim vertices of the end disk"""
    c, n, rad = disk
    nh = unit(n)
    inner, rim = [], []
    for i, v in enumerate(verts):
        d = sub(v, c)
        ax = dot(d, nh)
        if abs(ax) > 1e-6 * rad:
            continue
        rr = vnorm(sub(d, mul(ax, nh)))
        if abs(rr - rad) <= 5e-7 * rad:
            rim.append(i)
        elif rr < rad:
            inner.append(i)
    if sorted(core_f) != inner:
        return "find_core returned %s, the inner vertices of the end face are %s" % (core_f, inner)
    if sorted(shell_f) != rim:
        return "find_shell returned %s, the rim vertices of the end face are %s" % (shell_f, rim)
    if len(rim) < 3:
        return "fewer than three rim vertices"
    return None


def round_record(rid, tol, verts, cf, sf, disk, core_f, shell_f):
    """all numbers of the case as integer mantissas at one common unit 2^-E; the normal at its own unit, reduced"""
    vals = [tol, disk[2]] + list(disk[0])
    for v in verts:
        vals += list(v)
    for f in cf + sf:
        for p_ in f:
            vals += list(p_)
    E = common_exp(vals)
    En = common_exp(disk[1])
    nz = [zint(x, En) for x in disk[1]]
    g = math.gcd(math.gcd(abs(nz[0]), abs(nz[1])), abs(nz[2]))
    if g == 0:
        raise GenError("zero normal")
    nz = [x // g for x in nz]
    faces = lambda fs: "[" + ";\n      ".join("[" + "; ".join(vecZ(p_, E) for p_ in f) + "]" for f in fs) + "]"
    return ("{| rc_id := %d; rc_exp := %d; rc_tol := %s;\n   rc_verts := [%s];\n   rc_core := %s;\n   rc_shell := %s;\n"
            "   rc_center := %s; rc_normal := (%s, %s, %s); rc_radius := %s;\n   rc_found_core := (%s)%%nat; rc_found_shell := (%s)%%nat |}"
            % (rid, E, Z(zint(tol, E)), "; ".join(vecZ(v, E) for v in verts), faces(cf), faces(sf),
               vecZ(disk[0], E), Z(nz[0]), Z(nz[1]), Z(nz[2]), Z(zint(disk[2], E)), nl(core_f), nl(shell_f)))


CANON_ROUND = [
    dict(kind="cylinder", args=[[0.0, 0.0, 0.0], [0.0, 0.0, 2.0], [1.0, 0.0, 0.0]]),
    dict(kind="semicylinder", args=[[0.0, 0.0, 0.0], [0.0, 0.0, 2.0], [1.0, 0.0, 0.0]]),
    dict(kind="frustum", args=[[0.0, 0.0, 0.0], [0.0, 0.0, 2.0], [1.0, 0.0, 0.0], 0.5]),
    dict(kind="elbow", args=[[0.0, 0.0, 0.0], [1.0, 0.0, 0.0], [0.0, 0.0, 1.0], 1.0, [3.0, 0.0, 0.0], [0.0, 1.0, 0.0], 0.75]),
    dict(kind="cylinder", args=[[1.0, -2.0, 0.5], [3.0, 0.0, 1.5], [2.0, -3.0, 0.5]], chain=["cylinder", 1.5, 0]),
    dict(kind="frustum", args=[[0.0, 0.0, 0.0], [0.0, 3.0, 0.0], [0.0, 0.0, 2.0], 3.0], chain=["frustum", 1.0, 1, 0.5]),
]


def tab_round(tol):
    rows = []
    rid = 0
    for spec in CANON_ROUND:
        mesh, shapes, verts = build_mesh([spec])
        disks = round_disks(spec)
        for end in (False, True):
            core_f, shell_f = run_round(mesh, shapes[0], end)
            cf, sf = sketch_faces(shapes[0], end)
            rows.append((rid, spec, end, verts, cf, sf, disks[1 if end else 0], core_f, shell_f))
            rid += 1
    return rows


# ------------------------------------------------------------------------------------------------
# re-orienter


def pcompose(p, q):
    return [p[q[i]] for i in range(8)]


def sym48():
    gens = [[1, 2, 3, 0, 5, 6, 7, 4], [3, 2, 6, 7, 0, 1, 5, 4], [4, 5, 6, 7, 0, 1, 2, 3]]
    acc = [list(range(8))]
    todo = [list(range(8))]
    while todo:
        p = todo.pop(0)
        for g in gens:
            q = pcompose(g, p)
            if q not in acc:
                acc.append(q)
                todo.append(q)
    if len(acc) != 48:
        raise GenError("symmetry group has %d elements" % len(acc))
    return acc


class HullRecorder:
    """records ConvexHull(points).simplices seen by the implementation (falls back to calling scipy)"""

    def __init__(self):
        self.simplices = None
        self.patched = False

    def __enter__(self):
        from classy_blocks.modify.reorient import viewpoint as vp
        self.vp = vp
        self.orig = getattr(vp, "ConvexHull", None)
        if self.orig is not None:
            rec = self

            def wrapped(points, *a, **k):
                h = rec.orig(points, *a, **k)
                rec.simplices = [[int(x) for x in s] for s in h.simplices]
                return h

            vp.ConvexHull = wrapped
            self.patched = True
        return self

    def __exit__(self, *a):
        if self.patched:
            self.vp.ConvexHull = self.orig


def run_reorient(points, observer, ceiling):
    """the implementation on a Loft with the given corner positions; returns (out positions | None, error, hull)"""
    cb = _cb()
    np = _np()
    from classy_blocks.modify.reorient.viewpoint import ViewpointReorienter
    loft = cb.Loft(cb.Face([list(p) for p in points[:4]]), cb.Face([list(p) for p in points[4:]]))
    reorienter = ViewpointReorienter(list(observer), list(ceiling))
    # one reorienter serves many blocks: for a third of the inputs (chosen by the input itself, so that replays agree) the
    # instance has already re-oriented another block - a cube on the far side of the observer - before it gets this one
    if int(hashlib.sha1(json.dumps([points, observer, ceiling]).encode()).hexdigest()[:4], 16) % 3 == 0:
        c = [sum(float(p[i]) for p in points) / 8 for i in range(3)]
        w = [2 * float(observer[i]) - c[i] for i in range(3)]
        cube = [[w[0] + dx, w[1] + dy, w[2] + dz] for (dx, dy, dz) in
                [(-.5, -.5, -.5), (.5, -.5, -.5), (.5, .5, -.5), (-.5, .5, -.5), (-.5, -.5, .5), (.5, -.5, .5), (.5, .5, .5), (-.5, .5, .5)]]
        try:
            reorienter.reorient(cb.Loft(cb.Face(cube[:4]), cb.Face(cube[4:])))
        except Exception:
            pass
    with HullRecorder() as rec:
        try:
            reorienter.reorient(loft)
        except Exception as e:  # DegenerateGeometryError, IndexError, QhullError ...
            return None, type(e).__name__, rec.simplices
    out = [fl(p) for p in np.asarray(loft.point_array)]
    hull = rec.simplices
    if hull is None:
        from scipy.spatial import ConvexHull
        hull = [[int(x) for x in s] for s in ConvexHull(np.array(points, dtype=float)).simplices]
    return out, None, hull


def match_indices(points, out):
    """each output position as index of the (exactly) equal input position; None if it is no input point"""
    idx = []
    for q in out:
        js = [j for j, p in enumerate(points) if p == q]
        idx.append(js[0] if len(js) == 1 else None)
    return idx


def face_normals_out(P):
    """outward area vectors of the six sides of the hexahedron numbered as in Hex.v"""
    c = mul(1.0 / 8, [sum(p[i] for p in P) for i in range(3)])
    res = {}
    for s, (a, b, cc, d) in HEX_FACES.items():
        n = cross(sub(P[cc], P[a]), sub(P[d], P[b]))
        fc = mul(0.25, [P[a][i] + P[b][i] + P[cc][i] + P[d][i] for i in range(3)])
        if dot(n, sub(fc, c)) < 0:
            n = mul(-1.0, n)
        res[s] = unit(n)
    return res


def view_frame(points, observer, ceiling):
    c = mul(1.0 / 8, [sum(p[i] for p in points) for i in range(3)])
    vo = unit(sub(observer, c))
    vc = unit(sub(ceiling, c))
    vc = unit(sub(vc, mul(dot(vc, vo), vo)))
    return c, vo, vc


AMBIG = 0.08


def oracle_orientation(P, observer, ceiling):
    """P numbered canonically?  returns (why | None, ambiguous?)"""
    _c, vo, vc = view_frame(P, observer, ceiling)
    fn = face_normals_out(P)
    fa = sorted(((dot(fn[s], vo), s) for s in fn), reverse=True)
    ta = sorted(((dot(fn[s], vc), s) for s in fn), reverse=True)
    amb = (fa[0][0] - fa[1][0] < AMBIG) or (ta[0][0] - ta[1][0] < AMBIG)
    for cnr in range(8):
        nx, ny, nz = NEIGH[cnr]
        x, y, z = XYZ[cnr]
        ex = mul(1 - 2 * x, sub(P[nx], P[cnr]))
        ey = mul(1 - 2 * y, sub(P[ny], P[cnr]))
        ez = mul(1 - 2 * z, sub(P[nz], P[cnr]))
        if dot(ex, cross(ey, ez)) <= 0:
            return "block is not right-handed at corner %d" % cnr, amb
    if fa[0][1] != "front":
        return "front side does not face the observer (side '%s' does)" % fa[0][1], amb
    if ta[0][1] != "top":
        return "top side does not face the ceiling point (side '%s' does)" % ta[0][1], amb
    return None, amb


def oracle_reorient(points, observer, ceiling, out, err):
    """direct oracle on one call"""
    if out is None:
        return "reorient raised %s on a convex block in general position" % err
    if sorted(map(tuple, out)) != sorted(map(tuple, points)):
        return "the eight points changed"
    why, amb = oracle_orientation(out, observer, ceiling)
    if why and not amb:
        return why
    return None


def gen_block(rng, max_tilt=0.45, max_dist=0.16):
    """a distorted convex hexahedron in canonical numbering with respect to (observer, ceiling)"""
    np = _np()
    from scipy.spatial import ConvexHull
    for _ in range(200):
        ex = rand_dir(rng)
        t = rand_dir(rng)
        ey = cross(t, ex)
        if vnorm(ey) < 0.2:
            continue
        ey = unit(ey)
        ez = cross(ex, ey)
        dims = [rng.uniform(0.6, 3.0) for _ in range(3)]
        bits = 10
        if rng.random() < 0.25:
            # sub-millimetre bars and plates (what is front / top is a matter of directions, not of size or face area)
            k = rng.choice([12, 14, 15])
            base = rng.choice([[10, 1, 1], [1, 10, 1], [1, 1, 10], [8, 8, 1], [1, 8, 8], [8, 1, 8]])
            dims = [b * rng.uniform(0.8, 1.2) * 2.0 ** -k for b in base]
            bits = 14 + k
        ctr = [rng.uniform(-3, 3) for _ in range(3)]
        amp = rng.choice([0.0, 0.05, 0.1, max_dist]) * min(dims)
        C = []
        for (x, y, z) in XYZ:
            p = add(ctr, add(add(mul((x - .5) * dims[0], ex), mul((y - .5) * dims[1], ey)), mul((z - .5) * dims[2], ez)))
            p = add(p, mul(amp * rng.random(), rand_dir(rng)))
            C.append([dyadic(q, bits) for q in p])
        try:
            h = ConvexHull(np.array(C))
        except Exception:
            continue
        if len(h.vertices) != 8 or len(h.simplices) != 12:
            continue
        views = []
        for _v in range(12):
            tilt = lambda: rng.uniform(-max_tilt, max_tilt)
            od = unit(add(mul(-1.0, ey), add(mul(tilt(), ex), mul(tilt(), ez))))
            cd = unit(add(ez, add(mul(tilt(), ex), mul(tilt(), ey))))
            if _v % 3 == 2:
                # an oblique ceiling point: 50..65 degrees off the plane perpendicular to the viewing direction, towards the
                # observer or away from it ("top" is decided in the observer's view plane, "front" by the observer alone)
                a = rng.uniform(0.87, 1.13) * rng.choice([1, -1])
                cd = unit(add(mul(math.cos(a), cd), mul(math.sin(a), od)))
            obs = [dyadic(q, 8) for q in add(ctr, mul(rng.uniform(3, 40), od))]
            cei = [dyadic(q, 8) for q in add(ctr, mul(rng.uniform(3, 40), cd))]
            why, amb = oracle_orientation(C, obs, cei)
            if why is None and not amb:
                views.append((obs, cei))
        if len(views) >= 3:
            return C, views
    raise GenError("could not generate a convex block")


def py_alignments(points, hull, observer, ceiling):
    """float mirror of Model.C18_Reorient.alignment, only used to produce the order oracle `rank`"""
    c, vo, vc = view_frame(points, observer, ceiling)
    vl = unit(cross(vo, vc))
    dirs = {"front": vo, "back": mul(-1, vo), "top": vc, "bottom": mul(-1, vc), "left": vl, "right": mul(-1, vl)}
    normals = []
    flips = []
    for (a, b, d) in hull:
        p0, p1, p2 = points[a], points[b], points[d]
        n = unit(cross(sub(p1, p0), sub(p2, p0)))
        ctr = mul(1.0 / 3, add(add(p0, p1), p2))
        fl_ = dot(sub(ctr, c), n) < 0
        if fl_:
            n = unit(cross(sub(p1, p2), sub(p0, p2)))
        normals.append(n)
        flips.append(fl_)
    al = {s: [dot(n, dirs[s]) for n in normals] for s in ORDER}
    return al


SIG_OBLIQUE = "C18:reorient:outside-45-degree-condition"


def canonical_of(points, observer, ceiling):
    """the numbering of the same eight points in which front/top/right-handed hold for this view (None if there is none)"""
    for p in sym48():
        Q = [points[p[i]] for i in range(8)]
        try:
            if oracle_orientation(Q, observer, ceiling)[0] is None:
                return Q
        except Exception:  # noqa: BLE001
            continue
    return None


def cond45(points, hull, observer, ceiling):
    """the sufficient condition under which the alignment heuristic is proved to pick the two triangles of one geometric
    face (C18_grouping_separation): every outward hull triangle's normal is within 45 degrees of the viewing direction of
    ITS OWN face.  Decided on the canonical numbering of the block for this view (`hull` is ignored: the hull of the
    canonical numbering is taken); True when nothing can be decided."""
    try:
        from scipy.spatial import ConvexHull
        C = canonical_of(points, observer, ceiling)
        if C is None:
            return True
        hc = [[int(x) for x in sx] for sx in ConvexHull(_np().array(C)).simplices]
        if len(hc) != 12:
            return True
        al = py_alignments(C, hc, observer, ceiling)
    except Exception:  # noqa: BLE001
        return True
    c45 = math.cos(math.pi / 4)
    for t, tri in enumerate(hc):
        own = [sd for sd, f in HEX_FACES.items() if set(tri) <= set(f)]
        if len(own) != 1:
            return False
        if al[own[0]][t] <= c45:
            return False
    return True


def reorient_failure(points, observer, ceiling, hull, why):
    """replay dict of a failed re-orientation; failures outside the 45-degree condition carry the signature of the open
    finding (the greedy choice takes a triangle of an adjacent face), all others are violations of their own"""
    d = dict(kind="reorient", points=points, observer=observer, ceiling=ceiling, why=why)
    if not cond45(points, hull, observer, ceiling):
        d["sig"] = SIG_OBLIQUE
        d["why"] = why + " (a hull triangle's normal is more than 45 degrees off the viewing direction of its own face)"
    return d


def load_reorient_corpus():
    import glob
    out = []
    for fn in sorted(glob.glob(os.path.join(core.VERIF, "corpus", "C18", "reorient-*.json"))):
        with open(fn) as fh:
            d = json.load(fh)
        out.append((d["points"], d["observer"], d["ceiling"]))
    return out


def rank_from(al):
    return [sorted(range(12), key=lambda t: al[s][t]) for s in ORDER]


def hull_assumption(points_canon_idx, hull):
    """monitored Qhull assumption: 12 triangles, every geometric face covered by exactly two of them.
    points_canon_idx[i] = canonical corner sitting at input index i"""
    if hull is None or len(hull) != 12:
        return False
    cnt = {s: 0 for s in HEX_FACES}
    for t in hull:
        cs = {points_canon_idx[i] for i in t}
        hit = [s for s, f in HEX_FACES.items() if cs <= set(f)]
        if len(hit) != 1 or len(cs) != 3:
            return False
        cnt[hit[0]] += 1
    return all(v == 2 for v in cnt.values())


def reo_case_text(cid, c):
    """(id, hull, rank, g, out, (observer, ceiling, points)) - coordinates as integer mantissas at one common unit"""
    out = "None" if c["out"] is None else "Some %s" % nl(c["out"])
    vals = list(c["observer"]) + list(c["ceiling"])
    for p_ in c["points"]:
        vals += list(p_)
    E = common_exp(vals)
    return "((%d, [%s], [%s], %s, %s)%%nat, (%s, %s, [%s]))" % (
        cid, "; ".join(nl(t) for t in c["hull"]), "; ".join(nl(r) for r in c["rank"]), nl(c["g"]), out,
        vecZ(c["observer"], E), vecZ(c["ceiling"], E), "; ".join(vecZ(p_, E) for p_ in c["points"]))


REO_HEADER = ("From Coq Require Import List Bool Arith ZArith.\n"
              "From CB Require Import Base.Hex Model.C18_Finder Model.C18_Reorient Proofs.C18_Reorient Proofs.C18_ExactAlign.\nImport ListNotations.\n"
              "Definition rcase := (nat * list (list nat) * list (list nat) * list nat * option (list nat) * (zvec * zvec * list zvec))%type.\n"
              "Definition cid (c : rcase) := fst (fst (fst (fst (fst c)))).\n"
              "Definition hull_of (c : rcase) := snd (fst (fst (fst (fst c)))).\n"
              "Definition rank_of_c (c : rcase) := rank_of (snd (fst (fst (fst c)))).\n"
              "Definition g_of (c : rcase) := snd (fst (fst c)).\n"
              "Definition out_of (c : rcase) := snd (fst c).\n"
              "(* the discrete model, run on the recorded hull and the order oracle, returns what the implementation returned *)\n"
              "Definition agree (c : rcase) : bool := opt_list_eqb (reorient (hull_of c) (rank_of_c c)) (out_of c).\n"
              "(* hypothesis of C18_same_points: the grouping is geometric for the labelling g *)\n"
              "Definition hyp (c : rcase) : bool :=\n"
              "  (length (hull_of c) =? 12) && match group_loop (hull_of c) (rank_of_c c) normals_order (seq 0 12) with\n"
              "  | Some qs => geometricb (g_of c) (quad_of qs) | None => false end.\n"
              "Definition concl (c : rcase) : bool := opt_list_eqb (reorient (hull_of c) (rank_of_c c)) (Some (g_of c)).\n"
              "(* the order oracle is consistent with the real-valued sort keys (Proofs/C18_ExactAlign.v: rank_check_sound) *)\n"
              "Definition rank_ok (c : rcase) : bool :=\n"
              "  let '(obs, cei, ps) := snd c in rank_check obs cei ps (hull_of c) (rank_of_c c).\n"
              "Open Scope Z_scope.\n")


# ------------------------------------------------------------------------------------------------
# Gen tables


def tab_cube():
    rows = []
    cube = [[float(x) for x in c] for c in XYZ]
    for p in sym48():
        pts = [cube[p[i]] for i in range(8)]
        out, err, _h = run_reorient(pts, [0.5, -10.0, 0.5], [0.5, 0.5, 10.0])
        if out is None:
            rows.append((p, None))
            continue
        ints = []
        for q in out:
            if any(abs(x - round(x)) > 0 for x in q):
                raise GenError("reorient changed a coordinate of the unit cube")
            ints.append([int(round(x)) for x in q])
        rows.append((p, ints))
    return rows


def emit_tables(tol, rrows, crows):
    o = ["(* GENERATED by harness/props/C18.py from the working tree of /repo -- do not edit *)",
         "From Coq Require Import List ZArith Bool.",
         "From CB Require Import Base.Hex Model.C18_Finder Model.C18_RoundSpec.",
         "Import ListNotations.", "Open Scope Z_scope.", "",
         "(* constants.TOL as the exact value of the binary64: tol_m * 2^-tol_e *)",
         "Definition tol_m : Z := %d%%Z." % mant_exp(tol)[0],
         "Definition tol_e : Z := %d%%Z." % (-mant_exp(tol)[1]), "",
         "(* RoundSolidFinder on canonical shapes: id = 2 * shape + end *)",
         "Definition round_tab : list round_case :=\n  [" + ";\n   ".join(
             round_record(rid, tol, verts, cf, sf, disk, core_f, shell_f)
             for (rid, _spec, _end, verts, cf, sf, disk, core_f, shell_f) in rrows) + "].", "",
         "Open Scope nat_scope.",
         "(* ViewpointReorienter on the unit cube seen from (0.5,-10,0.5) with ceiling (0.5,0.5,10):",
         "   (initial numbering p : new corner i was cube corner p[i], positions of corners 0..7 afterwards) *)",
         "Definition cube_tab : list (list nat * option (list (Z * Z * Z))) :=\n  [" + ";\n   ".join(
             "(%s, %s)" % (nl(p), "None" if out is None else "Some [" + "; ".join("(%s, %s, %s)" % tuple(core.coq_z(x) for x in q) for q in out) + "]")
             for (p, out) in crows) + "]."]
    return "\n".join(o) + "\n"


# ------------------------------------------------------------------------------------------------


def parse_lists(so, n):
    import re
    ms = re.findall(r"=\s*\[(.*?)\]\s*:\s*list nat", so, flags=re.S)
    if len(ms) != n:
        raise RuntimeError("cannot parse Coq output: %r" % so[:400])
    out = []
    for body in ms:
        body = body.strip()
        out.append([int(x.replace("%nat", "")) for x in body.replace("\n", " ").split(";")] if body else [])
    return out


# ------------------------------------------------------------------------------------------------
# the source itself: what harness/translate_np.py translates for this property (python ast -> Gallina, fail closed)

SRC_MODULES = {
    "classy_blocks.util.functions": "util/functions.py",
    "classy_blocks.modify.find.finder": "modify/find/finder.py",
    "classy_blocks.modify.find.geometric": "modify/find/geometric.py",
}
_F, _FB, _GF = list(SRC_MODULES)
# a finder is read as the object whose attribute self.mesh.vertices is a list of objects, each represented by its
# attribute .position (a vec): the representation of Model/C18_Finder.v
_FINDER = {"mesh.vertices": ("objects", "position")}
# (kind, module, class | None, function, {parameter: type}, Gallina name); callees before callers
SRC_ENTRIES = [
    ("fun", _F, None, "norm", {"matrix": "vec"}, "src_norm"),
    ("fun", _F, None, "unit_vector", {"vect": "vec"}, "src_unit_vector"),
    ("fun", _F, None, "point_to_plane_distance", {"origin": "vec", "normal": "vec", "point": "vec"}, "src_point_to_plane_distance"),
    ("fun", _F, None, "is_point_on_plane", {"origin": "vec", "normal": "vec", "point": "vec"}, "src_is_point_on_plane"),
    ("meth", _FB, "FinderBase", "_find_by_position", {"position": "vec", "radius": "real"}, "src_find_by_position"),
    ("meth", _FB, "FinderBase", "_find_by_position", {"position": "vec", "radius": None}, "src_find_by_position_default"),
    ("meth", _GF, "GeometricFinder", "find_in_sphere", {"position": "vec", "radius": "real"}, "src_find_in_sphere"),
    ("meth", _GF, "GeometricFinder", "find_in_sphere", {"position": "vec", "radius": None}, "src_find_in_sphere_default"),
    ("meth", _GF, "GeometricFinder", "find_on_plane", {"point": "vec", "normal": "vec"}, "src_find_on_plane"),
]


def translate_source():
    """-> (text of Gen/C18/Source.v, the translator)"""
    root = os.path.join(core.REPO, "src", "classy_blocks")
    tr = translate_np.Translator({m: os.path.join(root, rel) for m, rel in SRC_MODULES.items()})
    for (kind, m, cls, f, sig, coq) in SRC_ENTRIES:
        if kind == "fun":
            got = tr.entry(m, f, sig, coq=coq)
        else:
            got = tr.entry_method(m, cls, f, sig, attrs=_FINDER, coq=coq)
        if got != coq:
            raise GenError("%s.%s was translated as %s, not as the entry %s" % (cls or m, f, got, coq))
    text = tr.source_text("C18: " + ", ".join("%s.%s" % (cls or m.split(".")[-1], f) for (_k, m, cls, f, _s, _c) in SRC_ENTRIES)
                          + " of the working tree of /repo.")
    return text, tr


class C18(Prop):
    pid = "C18"
    title = "Finders are exact; viewpoint re-orientation canonicalises block numbering"
    prebuilt = ["Base/Hex.v", "Base/Vec3.v", "Proofs/SourceEqTac.v", "Model/C18_Finder.v", "Model/C18_RoundSpec.v", "Model/C18_Reorient.v",
                "Proofs/C18_Finder.v", "Proofs/C18_Reorient.v", "Proofs/C18_Exact.v", "Proofs/C18_ExactAlign.v"]
    gen_dependent_files = ["Gen/C18/Tables.v", "Gen/C18/Source.v", "Proofs/C18_SourceEq.v"]
    property_files = ["Properties/C18.v"]
    trusted = [
        "the numpy-vector AST translator harness/translate_np.py (functions.py: norm, unit_vector, point_to_plane_distance, "
        "is_point_on_plane; finder.py: the whole method FinderBase._find_by_position, loop included, for a given radius and for "
        "radius=None; geometric.py: GeometricFinder.find_in_sphere, find_on_plane -> Gen/C18/Source.v; Proofs/C18_SourceEq.v proves "
        "translated source = Model/C18_Finder.v for all arguments on every run, theorem C18_source_is_model, the plane finder for "
        "every non-zero normal). Its fragment: " + translate_np.FRAGMENT + ".  Its reading of python / numpy is what is trusted: "
        "floats as reals; unit_vector of the zero normal (numpy: nan and a RuntimeWarning) as 'no value' (None), the lemmas carry "
        "n <> 0; a finder is read as its list self.mesh.vertices and a vertex as its .position; `acc = set(); for v in l: if "
        "TEST: acc.add(v); return acc` is read as the sub-list of l selected by TEST (a set of vertices = sub-list of the vertex "
        "list, as in Model/C18_Finder.v); `x is None` is decided by the declared kind of the argument; self.m(...) is the m an "
        "instance of exactly that class calls (single inheritance, checked against __bases__ at run time); run-time tie: the "
        "functions / methods the library calls are the parsed ones (file, first line) and np / f / constants are the modules assumed",
        "hand-written model Model/C18_Finder.v: for the sphere and plane finders no longer trusted (proved equal to the translated "
        "source); the round finder and the re-orienter models remain tied by tabulation / sampled kernel-decided agreement",
        "scipy.spatial.ConvexHull (Qhull) is an oracle: its simplices are recorded and given to the model; monitored "
        "assumption: 12 triangles, every geometric face of the convex hexahedron covered by exactly two",
        "the order in which sorted() puts the twelve triangles is given to the discrete model as an oracle computed by the "
        "harness in floats; on every case Coq checks (rank_check, sound by C18_alignment_order) that it is strictly "
        "consistent with the real-valued alignment key of the model at the exact binary64 inputs",
        "points of a block are identified by their index (pairwise distance >> TOL is ensured by the generator)",
        "tabulation: RoundSolidFinder on 6 canonical shapes x 2 ends; ViewpointReorienter on the unit cube x 48 numberings",
        "the end disk (centre, normal, radius) of a round shape is computed by the harness from the constructor arguments",
        "floats are read as the exact reals/rationals they denote; comparisons within 1e-9 (relative to the coordinate "
        "magnitude) of a threshold are counted as boundary cases and accepted either way",
    ]
    partial = [
        "C18_grouping_partial: that the alignment heuristic picks the two triangles of the geometric face is proved under "
        "the sufficient condition 'every outward triangle normal is within 45 degrees of its face direction' "
        "(C18_grouping_separation); for a given distorted block that condition / the grouping itself is validated per "
        "case (vm_compute of geometricb on the recorded hull), not proved; Qhull is assumed",
    ]

    # -- S1 ---------------------------------------------------------------------------------------
    def generate(self, ctx):
        tol = get_tol()
        rrows = tab_round(tol)
        crows = tab_cube()
        ctx.write_gen("Tables", emit_tables(tol, rrows, crows))
        self._tabs = (tol, rrows, crows)
        # the source itself: python -> Gallina (fail closed), proved equal to the model by Proofs/C18_SourceEq.v
        text, tr = translate_source()
        tr.tie_to_runtime()
        ctx.write_gen("Source", text)
        ctx.log("S1: finder code translated: %d definitions (%s)" % (len(tr.summary), ", ".join(d["coq"] for d in tr.summary)))

    # -- S3 ---------------------------------------------------------------------------------------
    def correspond(self, ctx):
        res = CorrResult()
        rng = ctx.rng
        tol = get_tol()
        t_py = time.time()
        res.rule = ("[sphere / plane finders: the model is proved equal to the translated source for all arguments "
                    "(Proofs/C18_SourceEq.v); the samples of (a) validate the translator's reading of numpy float semantics and of "
                    "the vertex loop] "
                    "(a) random meshes of boxes/cylinders/frusta with sphere and plane queries: for every vertex (boundary "
                    "cases within 1e-9 of a threshold excluded) the verdict of the real-valued model, decided exactly on the "
                    "integer mantissas (Proofs/C18_Exact.v, vm_compute) = membership in the returned set; non-trivial = result "
                    "neither empty nor everything; (b) random round shapes x both ends: model and disk specification "
                    "(vm_compute over Z) = returned index sets; (c) 48 numberings x distorted convex blocks x viewpoints: "
                    "discrete model on the recorded hull and the order oracle (vm_compute) = Operation.point_array after "
                    "reorient, and the order oracle is consistent with the real-valued sort keys on every case "
                    "(rank_check, Proofs/C18_ExactAlign.v); distinct by canonical JSON of the input")
        shards = []
        # (a) sphere / plane -------------------------------------------------------------------
        n_mesh = ctx.n(40, 600)
        qcases = []
        for mi in range(n_mesh):
            prog = gen_mesh_prog(rng)
            mesh, _shapes, verts = build_mesh(prog)
            for q in gen_queries(rng, verts, tol, 5):
                found = run_query(mesh, q)
                why, exp = oracle_query(verts, q, found, tol)
                k = len(qcases)
                qcases.append((prog, q, found, verts, exp))
                res.evaluations += 1
                res.count("query=" + q["kind"] + ("(default radius)" if q["kind"] == "sphere" and q["r"] is None else ""))
                res.count("mesh=" + "+".join(s["kind"] for s in prog))
                nb = sum(1 for (_o, b) in exp if b)
                res.boundary += nb
                if 0 < len(found) < len(verts):
                    res.distinct.add(json.dumps([prog, q], sort_keys=True))
                    res.count("result=proper subset")
                else:
                    res.count("result=empty" if not found else "result=all")
                if why:
                    res.oracle_failures.append(dict(kind=q["kind"], prog=prog, query=q, found=found, why=why))
                if len(res.samples) < 2 and 0 < len(found) < len(verts):
                    res.samples.append(dict(kind=q["kind"], query=q, n_vertices=len(verts), found=found))
        per = ctx.n(50, 200)
        n_vgoals = 0
        for s0 in range(0, len(qcases), per):
            sph, pla = [], []
            for k in range(s0, min(s0 + per, len(qcases))):
                prog, q, found, verts, exp = qcases[k]
                text, nv = query_case(k, verts, q, found, exp, tol)
                n_vgoals += nv
                (sph if q["kind"] == "sphere" else pla).append(text)
            body = [HEADER_Z,
                    "Definition sphere_cases : list (nat * (zvec * Z * list zvec * list bool)) := [", ";\n".join(sph), "].",
                    "Definition plane_cases : list (nat * (Z * zvec * zvec * list zvec * list bool)) := [", ";\n".join(pla), "].",
                    "Eval vm_compute in (map fst (filter (fun c => negb (sphere_case_ok (snd c))) sphere_cases)).",
                    "Eval vm_compute in (map fst (filter (fun c => negb (plane_case_ok (snd c))) plane_cases))."]
            shards.append(("fz_%d" % (s0 // per), "\n".join(body) + "\n"))
        res.count("vertex verdicts of the real-valued model decided exactly", n_vgoals)
        # (b) round finder ---------------------------------------------------------------------
        n_round = ctx.n(40, 400)
        rcases = []
        for ri in range(n_round):
            spec = gen_round(rng)
            # (no chaining onto a SemiCylinder: its end face is a half disk, a chained full cylinder would put foreign
            # vertices on the other half of the same circle)
            if spec["kind"] != "semicylinder" and rng.random() < 0.3:
                spec["chain"] = ["cylinder", 1.0, rng.randrange(2)] if rng.random() < 0.5 else ["frustum", 1.0, rng.randrange(2), 0.5]
            prog = [spec]
            if rng.random() < 0.3:
                prog.append(dict(kind="box", args=[[20.0, 20.0, 20.0], [21.0, 21.5, 22.0]]))
            mesh, shapes, verts = build_mesh(prog)
            disks = round_disks(spec)
            for end in (False, True):
                core_f, shell_f = run_round(mesh, shapes[0], end)
                disk = disks[1 if end else 0]
                why = oracle_round(verts, disk, core_f, shell_f)
                try:
                    cf, sf = sketch_faces(shapes[0], end)
                except GenError:
                    raise
                rid = len(rcases)
                rcases.append((prog, end, verts, cf, sf, disk, core_f, shell_f))
                res.evaluations += 1
                res.count("round=" + spec["kind"] + ("+chain" if spec.get("chain") else ""))
                res.distinct.add(json.dumps([prog, end], sort_keys=True))
                if why:
                    res.oracle_failures.append(dict(kind="round", prog=prog, end=end, core=core_f, shell=shell_f, why=why))
                if rid == 0:
                    res.samples.append(dict(kind="round", shape=spec, end=end, core=core_f, shell=shell_f))
        per = 20
        for s0 in range(0, len(rcases), per):
            body = ["From Coq Require Import List Bool Arith ZArith.",
                    "From CB Require Import Model.C18_Finder Model.C18_RoundSpec Proofs.C18_Finder.", "Import ListNotations.", "Open Scope Z_scope.",
                    "Definition cases : list round_case := ["]
            body.append(";\n".join(round_record(k, tol, *rcases[k][2:]) for k in range(s0, min(s0 + per, len(rcases)))))
            body.append("].")
            body.append("Eval vm_compute in (map rc_id (filter (fun c => negb (rc_model_ok_fast c)) cases)).")
            body.append("Eval vm_compute in (map rc_id (filter (fun c => negb (rc_spec_ok c)) cases)).")
            shards.append(("rd_%d" % (s0 // per), "\n".join(body) + "\n"))
        # (c) re-orienter ----------------------------------------------------------------------
        perms = sym48()
        n_blocks = ctx.n(10, 150)
        n_views = ctx.n(3, 5)
        ocases = []
        hull_bad = 0
        # regression corpus first (one numbering each): inputs of recorded findings
        for (cpts, cobs, ccei) in load_reorient_corpus():
            out, err, hull = run_reorient(cpts, cobs, ccei)
            res.evaluations += 1
            res.count("reorient corpus")
            why = oracle_reorient(cpts, cobs, ccei, out, err)
            if why:
                if hull is None:
                    from scipy.spatial import ConvexHull
                    hull = [[int(x) for x in sx] for sx in ConvexHull(_np().array(cpts)).simplices]
                res.oracle_failures.append(reorient_failure(cpts, cobs, ccei, hull, why))
        for bi in range(n_blocks):
            # every third block is looked at from far off its faces' directions (the side that faces the observer is then
            # well aligned with two viewing axes at once)
            C, views = gen_block(rng, max_tilt=(0.9 if bi % 3 == 2 else 0.45))
            views = views[:n_views]
            for (obs, cei) in views:
                outs = set()
                for pi, p in enumerate(perms):
                    pts = [C[p[i]] for i in range(8)]
                    out, err, hull = run_reorient(pts, obs, cei)
                    res.evaluations += 1
                    g = [p.index(k) for k in range(8)]  # input index of canonical corner k
                    why = oracle_reorient(pts, obs, cei, out, err)
                    if out is not None:
                        outs.add(json.dumps(out))
                    out_idx = None
                    if out is not None:
                        out_idx = match_indices(pts, out)
                        if any(i is None for i in out_idx):
                            out_idx = [9 if i is None else i for i in out_idx]
                    if hull is None:
                        from scipy.spatial import ConvexHull
                        hull = [[int(x) for x in s] for s in ConvexHull(_np().array(pts)).simplices]
                    if not hull_assumption(p, hull):
                        hull_bad += 1
                    al = py_alignments(pts, hull, obs, cei) if len(hull) == 12 else None
                    rank = rank_from(al) if al else [[] for _ in ORDER]
                    cid = len(ocases)
                    ocases.append(dict(points=pts, observer=obs, ceiling=cei, perm=p, hull=hull, rank=rank, g=g, out=out_idx, err=err))
                    res.count("numbering=" + ("rotation" if pi < 48 and _orientation(p) > 0 else "mirrored"))
                    res.distinct.add(json.dumps([pts, obs, cei]))
                    if why:
                        res.oracle_failures.append(reorient_failure(pts, obs, cei, hull, why))
                    if cid == 5:
                        res.samples.append(dict(kind="reorient", points=pts, observer=obs, ceiling=cei, new_numbering=out_idx))
                if len(outs) > 1:
                    f_ind = dict(kind="reorient-independence", canonical=C, observer=obs, ceiling=cei,
                                 why="the 48 initial numberings give %d different results" % len(outs))
                    try:
                        from scipy.spatial import ConvexHull
                        hc = [[int(x) for x in sx] for sx in ConvexHull(_np().array(C)).simplices]
                        if not cond45(C, hc, obs, cei):
                            f_ind["sig"] = SIG_OBLIQUE
                    except Exception:  # noqa: BLE001
                        pass
                    res.oracle_failures.append(f_ind)
        if hull_bad:
            res.notes.append("Qhull assumption not met on %d cases" % hull_bad)
            res.count("hull assumption violated", hull_bad)
        per = ctx.n(180, 480)
        for s0 in range(0, len(ocases), per):
            body = [REO_HEADER, "Definition cases : list rcase := ["]
            body.append(";\n".join(reo_case_text(k, ocases[k]) for k in range(s0, min(s0 + per, len(ocases)))))
            body.append("].")
            body.append("Eval vm_compute in (map cid (filter (fun c => negb (agree c)) cases)).")
            body.append("Eval vm_compute in (map cid (filter (fun c => negb (hyp c)) cases)).")
            body.append("Eval vm_compute in (map cid (filter (fun c => hyp c && negb (concl c)) cases)).")
            body.append("Eval vm_compute in (map cid (filter (fun c => negb (rank_ok c)) cases)).")
            shards.append(("ro_%d" % (s0 // per), "\n".join(body) + "\n"))
        # run everything -----------------------------------------------------------------------
        ctx.log("S3: %d queries, %d round cases, %d reorient cases in %d files" % (len(qcases), len(rcases), len(ocases), len(shards)))
        t_coq = time.time()
        results = core.run_cases_parallel(ctx, shards, timeout=1500)
        ctx.log("S3: case files took %.1fs wall (python part before: %.1fs)" % (time.time() - t_coq, t_coq - t_py))
        hyp_fail, thm_fail, rank_fail = [], [], []
        for (name, rc, so, se) in results:
            if rc != 0:
                res.error = "case file %s failed to compile: %s" % (name, se[-800:])
                return res
            if name.startswith("fz_"):
                s_bad, p_bad = parse_lists(so, 2)
                for k in s_bad + p_bad:
                    prog, q, found, verts, exp = qcases[k]
                    res.mismatches.append(dict(kind=q["kind"] + "-model", prog=prog, query=q, impl=found))
            elif name.startswith("rd_"):
                m_bad, s_bad = parse_lists(so, 2)
                for k in m_bad:
                    prog, end, verts, cf, sf, disk, core_f, shell_f = rcases[k]
                    res.mismatches.append(dict(kind="round-model", prog=prog, end=end, impl_core=core_f, impl_shell=shell_f))
                for k in s_bad:
                    prog, end, verts, cf, sf, disk, core_f, shell_f = rcases[k]
                    res.mismatches.append(dict(kind="round-spec", prog=prog, end=end, impl_core=core_f, impl_shell=shell_f))
            elif name.startswith("ro_"):
                a_bad, h_bad, t_bad, r_bad = parse_lists(so, 4)
                for k in a_bad:
                    c = ocases[k]
                    res.mismatches.append(dict(kind="reorient-model", points=c["points"], observer=c["observer"],
                                               ceiling=c["ceiling"], impl=c["out"], err=c["err"]))
                hyp_fail += h_bad
                thm_fail += t_bad
                rank_fail += r_bad
        if thm_fail:
            res.error = "theorem C18_same_points contradicted by the model on cases %s (statement or harness wrong)" % thm_fail[:5]
            return res
        res.count("grouping hypothesis validated (geometricb)", len(ocases) - len(hyp_fail))
        if hyp_fail:
            res.count("grouping hypothesis not met", len(hyp_fail))
            res.notes.append("grouping not geometric on %d reorient cases (first %s)" % (len(hyp_fail), hyp_fail[:3]))
        res.count("order oracle consistent with the real-valued keys (rank_check)", len(ocases) - len(rank_fail))
        if rank_fail:
            # exact ties / near ties between a chosen and another triangle: the float order of the harness is then not
            # the strict order of the real keys; tolerated as boundary cases when rare, a mismatch otherwise
            res.boundary += len(rank_fail)
            res.count("order oracle not strictly consistent (tie)", len(rank_fail))
            res.notes.append("order oracle not strictly consistent with the real keys on %d cases (first %s)" % (len(rank_fail), rank_fail[:3]))
            if len(rank_fail) > max(2, len(ocases) // 100):
                for k in rank_fail[:5]:
                    c = ocases[k]
                    res.mismatches.append(dict(kind="alignment-order", points=c["points"], observer=c["observer"], ceiling=c["ceiling"],
                                               note="the order oracle is not the order of the real-valued alignment key"))
        res.traces = len(qcases) + len(rcases) + len(ocases)
        return res

    # -- S4 ---------------------------------------------------------------------------------------
    def search(self, ctx, broken, corr):
        fails = []
        tol = get_tol()
        rng = ctx.rng
        # 1. mismatching correspondence cases, judged by the direct oracle
        for m in corr.mismatches[:40]:
            try:
                r = self._judge(m, tol)
            except Exception as e:
                ctx.log("search: judging a mismatch raised %s" % e)
                continue
            if r:
                fails.append(r)
        if fails:
            return fails[:5]
        # 2. the tabulated domain
        try:
            for (rid, spec, end, verts, cf, sf, disk, core_f, shell_f) in tab_round(tol):
                why = oracle_round(verts, disk, core_f, shell_f)
                if why:
                    fails.append(dict(kind="round", prog=[spec], end=end, core=core_f, shell=shell_f, why=why))
            cube = [[float(x) for x in c] for c in XYZ]
            for (p, out) in tab_cube():
                if out is None or [list(map(float, q)) for q in out] != cube:
                    fails.append(dict(kind="reorient", points=[cube[p[i]] for i in range(8)], observer=[0.5, -10.0, 0.5],
                                      ceiling=[0.5, 0.5, 10.0], why="unit cube not numbered canonically"))
                    break
        except Exception as e:
            ctx.log("search: tabulation raised %s" % e)
        if fails:
            return fails[:5]
        # 3. seeded random search with the direct oracle only
        for _ in range(400):
            prog = gen_mesh_prog(rng)
            mesh, _s, verts = build_mesh(prog)
            for q in gen_queries(rng, verts, tol, 6):
                found = run_query(mesh, q)
                why, _e = oracle_query(verts, q, found, tol)
                if why:
                    fails.append(dict(kind=q["kind"], prog=prog, query=q, found=found, why=why))
            if len(fails) >= 3:
                return fails
        perms = sym48()
        for _ in range(60):
            C, views = gen_block(rng)
            for (obs, cei) in views[:3]:
                for p in perms:
                    pts = [C[p[i]] for i in range(8)]
                    out, err, _h = run_reorient(pts, obs, cei)
                    why = oracle_reorient(pts, obs, cei, out, err)
                    if why:
                        fails.append(dict(kind="reorient", points=pts, observer=obs, ceiling=cei, why=why))
                        break
            if len(fails) >= 3:
                return fails
        return fails

    def _judge(self, m, tol):
        k = m["kind"]
        if k in ("sphere-model", "plane-model"):
            mesh, _s, verts = build_mesh(m["prog"])
            found = run_query(mesh, m["query"])
            why, _e = oracle_query(verts, m["query"], found, tol)
            return dict(kind=m["query"]["kind"], prog=m["prog"], query=m["query"], found=found, why=why) if why else None
        if k in ("round-model", "round-spec"):
            mesh, shapes, verts = build_mesh(m["prog"])
            core_f, shell_f = run_round(mesh, shapes[0], m["end"])
            why = oracle_round(verts, round_disks(m["prog"][0])[1 if m["end"] else 0], core_f, shell_f)
            return dict(kind="round", prog=m["prog"], end=m["end"], core=core_f, shell=shell_f, why=why) if why else None
        if k in ("reorient-model", "alignment-order"):
            out, err, _h = run_reorient(m["points"], m["observer"], m["ceiling"])
            why = oracle_reorient(m["points"], m["observer"], m["ceiling"], out, err)
            return dict(kind="reorient", points=m["points"], observer=m["observer"], ceiling=m["ceiling"], why=why) if why else None
        return None

    def signature(self, rp):
        if rp.get("sig"):
            return rp["sig"]
        why = rp.get("why", "")
        for key in ("missed", "extra", "find_core", "find_shell", "right-handed", "front side", "top side", "raised",
                    "eight points", "different results", "unit cube"):
            if key in why:
                return "C18:%s:%s" % (rp.get("kind"), key)
        return "C18:%s:%s" % (rp.get("kind"), why[:40])

    def replay(self, ctx, obj):
        tol = get_tol()
        k = obj.get("kind")
        if k in ("sphere", "plane"):
            mesh, _s, verts = build_mesh(obj["prog"])
            found = run_query(mesh, obj["query"])
            why, exp = oracle_query(verts, obj["query"], found, tol)
            print("implementation: found vertices", found)
            print("specification :", [i for i, (on, _b) in enumerate(exp) if on], "(boundary:", [i for i, (_o, b) in enumerate(exp) if b], ")")
            print("oracle:", why or "ok")
        elif k == "round":
            mesh, shapes, verts = build_mesh(obj["prog"])
            core_f, shell_f = run_round(mesh, shapes[0], obj["end"])
            print("implementation: core", core_f, "shell", shell_f)
            print("oracle:", oracle_round(verts, round_disks(obj["prog"][0])[1 if obj["end"] else 0], core_f, shell_f) or "ok")
        elif k == "reorient":
            out, err, _h = run_reorient(obj["points"], obj["observer"], obj["ceiling"])
            print("implementation:", out if out is not None else "raised " + str(err))
            print("oracle:", oracle_reorient(obj["points"], obj["observer"], obj["ceiling"], out, err) or "ok")
        elif k == "reorient-independence":
            outs = {}
            for p in sym48():
                pts = [obj["canonical"][p[i]] for i in range(8)]
                out, err, _h = run_reorient(pts, obj["observer"], obj["ceiling"])
                outs.setdefault(json.dumps(out), []).append(p)
            print("implementation: %d distinct results over the 48 numberings" % len(outs))
            print("oracle:", "ok" if len(outs) == 1 else "results depend on the initial numbering")
        else:
            print("nothing to replay for", k)
        return 0


def _orientation(p):
    o = XYZ[p[0]]
    a = sub(XYZ[p[1]], o)
    b = sub(XYZ[p[3]], o)
    c = sub(XYZ[p[4]], o)
    return dot(a, cross(b, c))


PROP = C18()
