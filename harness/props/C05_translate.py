"""C05 source tie: python [ast] of lists/vertex_list.py -> Gallina (coq/Gen/C05/Source.v), fail closed.

Translated on every run: DuplicatedEntry.__init__ (+ the property DuplicatedEntry.point), VertexList.find_duplicated,
VertexList.find_unique, VertexList.add (specialised to `slave_patches` being a list: the statement
`if slave_patches is None: ...` is not executed for such arguments, whatever its body).

Representation (assumptions, the same as the hand model Model/C05_VertexList.v and harness/props/C05.py use):
  * a position (NPPointType) is a point of Z^3 in units of 2^-E (`zpoint`); a `Point` is its position;
    `f.norm(a - b) < constants.TOL` is the exact comparison  zdist2 a b * tol_den < tol_num  with
    tol_num/tol_den = (Fraction(constants.TOL) * 2^E)^2 exactly (`<=` likewise, kept distinct: s_norm_le);
  * a patch name is its rank under sorted() among the names of the program (C05.name_numbers); `sorted(l)` and
    `l.sort()` are the sorted rearrangement `sort`, `==` on name lists is decidable equality of the lists;
  * a Vertex is the record (position, index); `Vertex.from_point(point, n)` = mkV position n (items/vertex.py is
    not translated); a DuplicatedEntry is (vertex, patches); VertexList = (vertices, duplicated);
  * lists have value semantics: `x.sort()` on a parameter rebinds it and is handed back to the caller (the caller's
    list IS mutated: add passes it on to DuplicatedEntry afterwards); the list given to add is not referenced
    elsewhere (Mesh._add_vertices passes a fresh list(...));
  * a function returning `option R`: None = `raise VertexNotFoundError`.
Supported statement shapes: docstring; `<names param>.sort()`; `for x in self.<list>:` whose body is made of
`if <test>:` (no else) and a final `return <expr>`; `raise VertexNotFoundError(...)` after the loop;
`try: v = self.<search method>(...)` / `except VertexNotFoundError:` with assignments and `self.<list>.append(...)`;
`return <expr>`.  Anything else raises GenError.
"""
import ast
import os
from fractions import Fraction

from core import GenError

REL = os.path.join("classy_blocks", "lists", "vertex_list.py")
EXC = "VertexNotFoundError"
ANN = {"NPPointType": "pos", "List[str]": "names", "Optional[List[str]]": "names", "Point": "point", "Vertex": "vertex"}
COQT = {"pos": "zpoint", "names": "list nat", "point": "zpoint", "vertex": "vertex zpoint", "entry": "dupe zpoint",
        "vertices": "list (vertex zpoint)", "entries": "list (dupe zpoint)", "nat": "nat", "bool": "bool"}
ATTR = {("entry", "vertex"): ("vertex", "dvertex"), ("entry", "patches"): ("names", "dpatches"),
        ("vertex", "position"): ("pos", "vpos"), ("point", "position"): ("pos", None)}
SELF_ATTR = {"vertices": ("vertices", "self_vertices"), "duplicated": ("entries", "self_duplicated")}
ELEM = {"vertices": "vertex", "entries": "entry"}


def bad(node, why):
    raise GenError("C05_translate: unsupported python at line %s: %s [%s]" % (getattr(node, "lineno", "?"), why, ast.unparse(node)[:120]))


def strip_doc(body):
    if body and isinstance(body[0], ast.Expr) and isinstance(body[0].value, ast.Constant) and isinstance(body[0].value.value, str):
        return body[1:]
    return body


def is_exc(node):
    """VertexNotFoundError or VertexNotFoundError(...)"""
    if isinstance(node, ast.Call):
        node = node.func
    return isinstance(node, ast.Name) and node.id == EXC


class Tr:
    def __init__(self, tree):
        self.classes = {c.name: {f.name: f for f in c.body if isinstance(f, ast.FunctionDef)} for c in tree.body if isinstance(c, ast.ClassDef)}
        self.search = {}  # method name -> dict(coq, self_attrs, ptypes, mutated, rtype)
        self.ctor = None
        self.uses = set()

    # ---- expressions --------------------------------------------------------------------------
    def ex(self, n, env):
        if isinstance(n, ast.Name):
            if n.id not in env:
                bad(n, "unbound name")
            return env[n.id]
        if isinstance(n, ast.Attribute):
            if isinstance(n.value, ast.Name) and n.value.id == "self" and env.get("self") == ("vlist", None):
                if n.attr not in SELF_ATTR:
                    bad(n, "unknown attribute of VertexList")
                self.uses.add(n.attr)
                return SELF_ATTR[n.attr]
            t, c = self.ex(n.value, env)
            if (t, n.attr) in ATTR:
                t2, proj = ATTR[(t, n.attr)]
                return (t2, c if proj is None else "(%s %s)" % (proj, c))
            if t == "entry":  # a @property of DuplicatedEntry
                f = self.classes.get("DuplicatedEntry", {}).get(n.attr)
                if f is not None and [ast.unparse(d) for d in f.decorator_list] == ["property"]:
                    body = strip_doc(f.body)
                    if len(body) == 1 and isinstance(body[0], ast.Return) and body[0].value is not None:
                        return self.ex(body[0].value, {"self": (t, c)})
            bad(n, "unknown attribute of a %s" % t)
        if isinstance(n, ast.Call) and not n.keywords:
            fn = ast.unparse(n.func)
            args = [self.ex(a, env) for a in n.args]
            ts = [a[0] for a in args]
            if fn == "len" and ts in (["vertices"], ["entries"], ["names"]):
                return ("nat", "(length %s)" % args[0][1])
            if fn == "sorted" and ts == ["names"]:
                return ("names", "(s_sorted %s)" % args[0][1])
            if fn == "list" and ts == ["names"]:  # a copy: lists have value semantics here
                return args[0]
            if fn == "Vertex.from_point" and ts == ["point", "nat"]:
                return ("vertex", "(mkV %s %s)" % (args[0][1], args[1][1]))
            if fn == "DuplicatedEntry" and ts == ["vertex", "names"] and self.ctor:
                return ("entry", "(src_DuplicatedEntry %s %s)" % (args[0][1], args[1][1]))
            bad(n, "unsupported call")
        if isinstance(n, ast.Compare) and len(n.ops) == 1:
            op, l, r = n.ops[0], n.left, n.comparators[0]
            if isinstance(op, (ast.Lt, ast.LtE)) and ast.unparse(r) == "constants.TOL" and isinstance(l, ast.Call) \
                    and ast.unparse(l.func) == "f.norm" and len(l.args) == 1 and not l.keywords \
                    and isinstance(l.args[0], ast.BinOp) and isinstance(l.args[0].op, ast.Sub):
                a, b = self.ex(l.args[0].left, env), self.ex(l.args[0].right, env)
                if (a[0], b[0]) == ("pos", "pos"):
                    return ("bool", "(%s %s %s)" % ("s_norm_lt" if isinstance(op, ast.Lt) else "s_norm_le", a[1], b[1]))
            if isinstance(op, ast.Eq):
                a, b = self.ex(l, env), self.ex(r, env)
                if (a[0], b[0]) == ("names", "names"):
                    return ("bool", "(s_names_eq %s %s)" % (a[1], b[1]))
            bad(n, "unsupported comparison")
        if isinstance(n, ast.BoolOp) and isinstance(n.op, ast.And):
            vs = [self.ex(v, env) for v in n.values]
            if all(v[0] == "bool" for v in vs):
                out = vs[0][1]
                for v in vs[1:]:
                    out = "(andb %s %s)" % (out, v[1])
                return ("bool", out)
        bad(n, "unsupported expression")

    # ---- DuplicatedEntry.__init__ -------------------------------------------------------------
    def do_ctor(self):
        f = self.classes.get("DuplicatedEntry", {}).get("__init__")
        if f is None:
            raise GenError("C05_translate: DuplicatedEntry.__init__ not found")
        env = self.params(f, skip_self=True)
        got = {}
        for s in strip_doc(f.body):
            if not (isinstance(s, ast.Assign) and len(s.targets) == 1 and ast.unparse(s.targets[0]) in ("self.vertex", "self.patches")):
                bad(s, "DuplicatedEntry.__init__: only self.vertex = / self.patches = ")
            name = s.targets[0].attr
            if name in got:
                bad(s, "assigned twice")
            got[name] = self.ex(s.value, env)
        if sorted(got) != ["patches", "vertex"] or got["vertex"][0] != "vertex" or got["patches"][0] != "names":
            raise GenError("C05_translate: DuplicatedEntry.__init__ must set vertex (a Vertex) and patches (a list of names)")
        self.ctor = True
        return "Definition src_DuplicatedEntry %s : dupe zpoint :=\n  mkD %s %s.\n" % (self.binders(f, env), got["vertex"][1], got["patches"][1])

    def params(self, f, skip_self=False):
        a = f.args
        if a.vararg or a.kwarg or a.kwonlyargs or a.posonlyargs or not a.args or a.args[0].arg != "self":
            bad(f, "signature")
        env = {} if skip_self else {"self": ("vlist", None)}
        for p in a.args[1:]:
            t = ANN.get(ast.unparse(p.annotation)) if p.annotation is not None else None
            if t is None:
                bad(f, "parameter %s: unsupported annotation" % p.arg)
            env[p.arg] = (t, "v_" + p.arg)
        return env

    def binders(self, f, env):
        return " ".join("(%s : %s)" % (env[p.arg][1], COQT[env[p.arg][0]]) for p in f.args.args[1:])

    # ---- search methods: [sort()]* ; for ... ; raise VertexNotFoundError --------------------------
    def loop_body(self, stmts, env, rts):
        if not stmts:
            return "None"
        s, rest = stmts[0], stmts[1:]
        if isinstance(s, ast.Return) and s.value is not None:
            if rest:
                bad(rest[0], "statement after return")
            t, c = self.ex(s.value, env)
            rts.add(t)
            return "Some %s" % c
        if isinstance(s, ast.If) and not s.orelse:
            t, c = self.ex(s.test, env)
            if t != "bool":
                bad(s.test, "test is not a boolean")
            here = "(if %s then %s else None)" % (c, self.loop_body(s.body, env, rts))
            if not rest:
                return here
            return "(match %s with Some r => Some r | None => %s end)" % (here, self.loop_body(rest, env, rts))
        bad(s, "unsupported statement in a search loop")

    def do_search(self, cls, name):
        f = self.classes.get(cls, {}).get(name)
        if f is None:
            raise GenError("C05_translate: %s.%s not found" % (cls, name))
        env = self.params(f)
        body = strip_doc(f.body)
        mutated = []
        lets = ""
        while body and isinstance(body[0], ast.Expr):
            c = body[0].value
            if not (isinstance(c, ast.Call) and not c.args and not c.keywords and isinstance(c.func, ast.Attribute) and c.func.attr == "sort"
                    and isinstance(c.func.value, ast.Name) and env.get(c.func.value.id, ("", ""))[0] == "names"):
                bad(body[0], "only <list of names>.sort() before the loop")
            p = c.func.value.id
            if p not in mutated:
                mutated.append(p)
            lets += "  let v_%s := s_sorted v_%s in\n" % (p, p)
            body = body[1:]
        if len(mutated) > 1:
            bad(f, "more than one parameter sorted in place")
        if not (len(body) == 2 and isinstance(body[0], ast.For) and isinstance(body[1], ast.Raise) and is_exc(body[1].exc) and body[1].cause is None):
            bad(f, "expected: for ...: ... ; raise %s" % EXC)
        loop = body[0]
        if loop.orelse or not isinstance(loop.target, ast.Name):
            bad(loop, "loop shape")
        self.uses = set()
        it = self.ex(loop.iter, env)
        if it[0] not in ELEM:
            bad(loop.iter, "not a list of the VertexList")
        env2 = dict(env)
        env2[loop.target.id] = (ELEM[it[0]], "v_" + loop.target.id)
        rts = set()
        fn = self.loop_body(loop.body, env2, rts)
        if len(rts) != 1:
            bad(loop, "the loop must return values of one type")
        rt = rts.pop()
        attrs = sorted(self.uses)
        res = "s_first (fun v_%s : %s => %s) %s" % (loop.target.id, COQT[ELEM[it[0]]], fn, it[1])
        if mutated:
            res = "(%s, v_%s)" % (res, mutated[0])
        rty = "option (%s)" % COQT[rt]
        if mutated:
            rty = "(%s * %s)" % (rty, COQT[env[mutated[0]][0]])
        sb = " ".join("(%s : %s)" % (SELF_ATTR[a][1], COQT[SELF_ATTR[a][0]]) for a in attrs)
        self.search[name] = dict(attrs=attrs, ptypes=[env[p.arg][0] for p in f.args.args[1:]], rtype=rt,
                                 mutated=[i for i, p in enumerate(f.args.args[1:]) if p.arg in mutated])
        return "Definition src_%s %s %s : %s :=\n%s  %s.\n" % (name, sb, self.binders(f, env), rty, lets, res)

    # ---- VertexList.add, slave_patches a list ------------------------------------------------------
    def seq(self, stmts, env, in_handler=False):
        """-> coq term of type (vlist zpoint * R); with in_handler the statements are followed by the continuation K (a python
        function env -> term)"""
        if not stmts:
            if in_handler:
                return in_handler(env)
            bad(ast.Pass(), "function may end without return")
        s, rest = stmts[0], stmts[1:]
        if isinstance(s, ast.Return) and s.value is not None and not in_handler:
            t, c = self.ex(s.value, env)
            if t != "vertex":
                bad(s, "add must return a Vertex")
            return "(mkVL self_vertices self_duplicated, %s)" % c
        if isinstance(s, ast.If) and ast.unparse(s.test) == "slave_patches is None" and env.get("slave_patches", ("",))[0] == "names":
            return self.seq(rest, env, in_handler)  # specialisation: slave_patches is a list, the branch is not executed
        if isinstance(s, ast.Assign) and len(s.targets) == 1 and isinstance(s.targets[0], ast.Name):
            t, c = self.ex(s.value, env)
            env2 = dict(env)
            env2[s.targets[0].id] = (t, "v_" + s.targets[0].id)
            return "let v_%s := %s in\n    %s" % (s.targets[0].id, c, self.seq(rest, env2, in_handler))
        if isinstance(s, ast.Expr) and isinstance(s.value, ast.Call) and isinstance(s.value.func, ast.Attribute) and s.value.func.attr == "append" \
                and len(s.value.args) == 1 and not s.value.keywords:
            lt, lc = self.ex(s.value.func.value, env)
            if lt not in ELEM or not ast.unparse(s.value.func.value).startswith("self."):
                bad(s, "append to something that is not a list of the VertexList")
            t, c = self.ex(s.value.args[0], env)
            if t != ELEM[lt]:
                bad(s, "appended value has the wrong type")
            return "let %s := %s ++ [%s] in\n    %s" % (lc, lc, c, self.seq(rest, env, in_handler))
        if isinstance(s, ast.Try) and not in_handler:
            if s.orelse or s.finalbody or len(s.handlers) != 1 or s.handlers[0].name or not is_exc(s.handlers[0].type) or isinstance(s.handlers[0].type, ast.Call):
                bad(s, "try shape")
            if not (len(s.body) == 1 and isinstance(s.body[0], ast.Assign) and len(s.body[0].targets) == 1 and isinstance(s.body[0].targets[0], ast.Name)
                    and isinstance(s.body[0].value, ast.Call) and not s.body[0].value.keywords and isinstance(s.body[0].value.func, ast.Attribute)
                    and ast.unparse(s.body[0].value.func.value) == "self" and s.body[0].value.func.attr in self.search):
                bad(s, "try body must be v = self.<search method>(...)")
            v = s.body[0].targets[0].id
            call = s.body[0].value
            info = self.search[call.func.attr]
            args = [self.ex(a, env) for a in call.args]
            if [a[0] for a in args] != info["ptypes"]:
                bad(call, "argument types")
            pat, env_after = "r", dict(env)
            for i in info["mutated"]:
                if not isinstance(call.args[i], ast.Name):
                    bad(call, "a list sorted in place by the callee must be passed as a variable")
                pat = "'(r, v_%s)" % call.args[i].id
            app = "src_%s %s %s" % (call.func.attr, " ".join(SELF_ATTR[a][1] for a in info["attrs"]), " ".join(a[1] for a in args))

            def K(e):
                if e.get(v, ("",))[0] != info["rtype"]:
                    bad(s, "the handler does not assign %s" % v)
                return self.seq(rest, e)
            ok_env = dict(env_after)
            ok_env[v] = (info["rtype"], "v_" + v)
            return ("let %s := %s in\n  match r with\n  | Some v_%s =>\n    %s\n  | None =>\n    %s\n  end"
                    % (pat, app, v, K(ok_env), self.seq(s.handlers[0].body, env_after, K)))
        bad(s, "unsupported statement")

    def do_add(self):
        f = self.classes.get("VertexList", {}).get("add")
        if f is None:
            raise GenError("C05_translate: VertexList.add not found")
        env = self.params(f)
        if [p.arg for p in f.args.args[1:]] != ["point", "slave_patches"] or env["point"][0] != "point" or env["slave_patches"][0] != "names":
            bad(f, "signature of add")
        body = self.seq(strip_doc(f.body), env)
        return ("Definition src_add (self : vlist zpoint) %s : vlist zpoint * vertex zpoint :=\n  let self_vertices := vertices self in\n"
                "  let self_duplicated := duplicated self in\n  %s.\n" % (self.binders(f, env), body))


PRELUDE = """(* GENERATED by harness/props/C05_translate.py from %(rel)s of the working tree -- do not edit *)
From Coq Require Import List ZArith Bool Arith.
From CB Require Import Model.C05_VertexList.
Import ListNotations.

(* constants.TOL = %(tol)r ; lattice unit 2^-%(E)d ; (TOL * 2^%(E)d)^2 = tol_num / tol_den exactly *)
Definition tol_num : Z := %(num)d%%Z.
Definition tol_den : Z := %(den)d%%Z.
(* f.norm(a - b) < constants.TOL  /  <= constants.TOL *)
Definition s_norm_lt (a b : zpoint) : bool := (zdist2 a b * tol_den <? tol_num)%%Z.
Definition s_norm_le (a b : zpoint) : bool := (zdist2 a b * tol_den <=? tol_num)%%Z.
(* sorted(l), l.sort() on names numbered by their rank under sorted() *)
Definition s_sorted (l : list nat) : list nat := sort l.
(* == on lists of names *)
Definition s_names_eq (a b : list nat) : bool := if list_eq_dec Nat.eq_dec a b then true else false.
(* for x in l: <body that returns or falls through> ; raise VertexNotFoundError   (None = raised) *)
Fixpoint s_first {A R : Type} (f : A -> option R) (l : list A) : option R :=
  match l with
  | [] => None
  | x :: t => match f x with Some r => Some r | None => s_first f t end
  end.

"""


def translate(root, tol, E):
    """root = the src directory of the working tree; -> text of Gen/C05/Source.v"""
    path = os.path.join(root, REL)
    try:
        tree = ast.parse(open(path).read())
    except (OSError, SyntaxError) as e:
        raise GenError("C05_translate: cannot parse %s: %s" % (path, e))
    T2 = (Fraction(float(tol)) * (1 << E)) ** 2
    tr = Tr(tree)
    out = [PRELUDE % dict(rel=REL, tol=tol, E=E, num=T2.numerator, den=T2.denominator)]
    out.append(tr.do_ctor())
    out.append(tr.do_search("VertexList", "find_duplicated"))
    out.append(tr.do_search("VertexList", "find_unique"))
    out.append(tr.do_add())
    return "\n".join(out)


if __name__ == "__main__":
    import sys
    print(translate(sys.argv[1] if len(sys.argv) > 1 else "/repo/src", 1e-7, 30))
