"""C09 - Transforming or copying an entity equals transforming its output geometry.

Ties
 (F) Gen/C09/Tables.v, regenerated on every run from the working tree:
     - which ElementBase subclasses override a transformation method (introspection),
     - alias-freeness (no leaf object reachable twice along `parts`) of every entity class of the catalogue,
       measured on live objects,
     - which helper (functions.rotate/scale/mirror, Point.*, Array.*) writes to an array passed to it.
 (U) traversal: the leaf calls (which Point/Array object, which method, which origin) made by
     translate/rotate/scale/mirror/transform on a live entity are logged by instrumentation and compared, inside
     Coq (vm_compute), with `visits` of Model/C09_Transform.v run on the extracted heap graph; the face swap of
     Operation.mirror is compared through the graph extracted afterwards.
 (N) leaves: sampled leaf calls (value before, arguments, value after) are compared with the real-valued
     model of the leaf by the `interval` tactic to 1e-9.
Direct oracle: observable output (vertices, arc third points, spline lists, lengths, axes) of the transformed
entity against the affine image of the output of the untransformed entity; a transformation list against the
sequence of method calls on the same entity (fix C09-9: entity.transform([...]) is the method calls, own overrides
of Angle / CircleCurve / SplineRound included; only an operation mirrored through a list is not inverted); copy
independence; geometry labels defined; helper arguments unmodified.
"""
import json
import math
import re
import warnings

import os

import core
import translate_np
from core import GenError, CorrResult, Prop

TOL_CLOSED = 1e-9
TOL_MINIMIZE = 1e-4


def _np():
    import numpy as np
    return np


# ------------------------------------------------------------------------------------------------
# random dyadic data (exactly representable; read identically by Coq)


def dq(rng, lo, hi, den=8):
    return rng.randint(int(lo * den), int(hi * den)) / den


def dvec(rng, lo=-3, hi=3, den=8):
    return [dq(rng, lo, hi, den) for _ in range(3)]


def nonzero_vec(rng, lo=-3, hi=3):
    while True:
        v = dvec(rng, lo, hi)
        if sum(x * x for x in v) >= 0.5:
            return v


AXES = [[0, 0, 1], [0, 0, 2.5], [1, 0, 0], [0, -3, 0], [1, 2, 2], [2, -3, 6], [0.5, 1, -1], [1, 1, 1], [4, 0, 3], [-1, 4, 8]]
ANGLES = [0.5, -0.75, 1.25, 2.0, -2.5, 3.0, 0.125, math.pi / 2, -math.pi / 3]


def gen_tf(rng, kind=None, zero_origin_p=0.12, none_origin_p=0.12):
    kind = kind or rng.choice(["translate", "rotate", "scale", "mirror"])

    def origin():
        r = rng.random()
        if r < none_origin_p:
            return None
        if r < none_origin_p + zero_origin_p:
            return [0.0, 0.0, 0.0]
        return nonzero_vec(rng)

    if kind == "translate":
        return ["translate", nonzero_vec(rng)]
    if kind == "rotate":
        ax = rng.choice(AXES) if rng.random() < 0.6 else nonzero_vec(rng)
        return ["rotate", rng.choice(ANGLES), [float(x) for x in ax], origin()]
    if kind == "scale":
        return ["scale", rng.choice([0.5, 2.0, 1.5, 0.75, 3.0, 1.25]), origin()]
    ax = rng.choice(AXES) if rng.random() < 0.6 else nonzero_vec(rng)
    return ["mirror", [float(x) for x in ax], origin()]


def gen_tlist(rng, n=None):
    n = n or rng.choice([1, 1, 1, 2, 2, 3])
    return [gen_tf(rng) for _ in range(n)]


# ------------------------------------------------------------------------------------------------
# entity catalogue: JSON specs -> live objects


def mk_curve(spec):
    from classy_blocks.construct.curves.analytic import CircleCurve, LineCurve
    from classy_blocks.construct.curves.discrete import DiscreteCurve
    from classy_blocks.construct.curves.interpolated import LinearInterpolatedCurve, SplineInterpolatedCurve
    k = spec[0]
    if k == "discrete":
        return DiscreteCurve(spec[1])
    if k == "linear":
        return LinearInterpolatedCurve(spec[1], equalize=spec[2]) if len(spec) > 2 else LinearInterpolatedCurve(spec[1])
    if k == "splinei":
        return SplineInterpolatedCurve(spec[1], equalize=spec[2]) if len(spec) > 2 else SplineInterpolatedCurve(spec[1])
    if k == "linecurve":
        return LineCurve(spec[1], spec[2])
    if k == "circle":
        return CircleCurve(spec[1], spec[2], spec[3], tuple(spec[4]))
    raise ValueError(k)


def mk_edge(spec):
    from classy_blocks.construct import edges as E
    if spec is None:
        return None
    k = spec[0]
    if k == "line":
        return E.Line()
    if k == "arc":
        return E.Arc(spec[1])
    if k == "origin":
        return E.Origin(spec[1], spec[2])
    if k == "angle":
        return E.Angle(spec[1], spec[2])
    if k == "spline":
        return E.Spline(spec[1])
    if k == "polyline":
        return E.PolyLine(spec[1])
    if k == "project":
        return E.Project(spec[1])
    if k == "curve":
        return E.OnCurve(mk_curve(spec[1]), n_points=spec[2])
    raise ValueError(k)


def mk_face(spec):
    import classy_blocks as cb
    _f, pts, eds = spec
    return cb.Face(pts, [mk_edge(e) for e in eds])


SKETCHES = ["Grid", "MappedSketch", "OneCoreDisk", "QuarterDisk", "HalfDisk", "FourCoreDisk", "WrappedDisk", "Oval",
            "Annulus", "QuarterSplineDisk", "HalfSplineDisk", "SplineDisk", "QuarterSplineRing", "HalfSplineRing", "SplineRing"]


def frame_from(spec_frame):
    """an orthonormal frame (e1, e2, e3) and a centre from dyadic data: rotation of the standard frame"""
    np = _np()
    from classy_blocks.util import functions as f
    c, axis, ang = spec_frame
    R = f.rotation_matrix(np.array(axis, dtype=float), ang)
    return np.array(c, dtype=float), R[:, 0], R[:, 1], R[:, 2]


def mk_sketch(spec):
    np = _np()
    from classy_blocks.construct.flat.sketches import annulus, disk, grid, mapped, spline_round
    _s, cls, fr, par = spec
    c, e1, e2, e3 = frame_from(fr)
    r = par.get("r", 1.0)
    if cls == "Grid":
        # Grid lives in the xy-plane by construction: build it there and move it rigidly
        g = grid.Grid([0, 0, 0], [par["lx"], par["ly"], 0], par["n1"], par["n2"])
        return g
    if cls == "MappedSketch":
        pos = [c + e1 * p[0] + e2 * p[1] for p in par["pos"]]
        return mapped.MappedSketch(pos, par["quads"])
    if cls in ("OneCoreDisk", "QuarterDisk", "HalfDisk", "FourCoreDisk"):
        return getattr(disk, cls)(c, c + e1 * r, e3)
    if cls == "WrappedDisk":
        return disk.WrappedDisk(c, c - e1 * r - e2 * r, r * 0.6, e3)
    if cls == "Oval":
        return disk.Oval(c, c + e1 * par.get("d", 1.5), e3, r)
    if cls == "Annulus":
        return annulus.Annulus(c, c + e1 * r, e3, r * par.get("inner", 0.5), par.get("n", 8))
    if cls in ("QuarterSplineDisk", "HalfSplineDisk", "SplineDisk"):
        return getattr(spline_round, cls)(c, c + e1 * r, c + e2 * r * par.get("asp", 1.5), par.get("s1", 0.25), par.get("s2", 0.125))
    if cls in ("QuarterSplineRing", "HalfSplineRing", "SplineRing"):
        return getattr(spline_round, cls)(c, c + e1 * r, c + e2 * r * par.get("asp", 1.5),
                                          par.get("s1", 0.25), par.get("s2", 0.125), par.get("w1", 0.5), par.get("w2", 0.375))
    raise ValueError(cls)


SHAPES = ["Cylinder", "SemiCylinder", "Frustum", "Elbow", "ExtrudedRing", "RevolvedRing", "EighthSphere", "Hemisphere",
          "ExtrudedShape", "RevolvedShape", "LoftedShape", "Shell"]


def mk_shape(spec):
    np = _np()
    import classy_blocks as cb
    from classy_blocks.construct.shape import ExtrudedShape, LoftedShape, RevolvedShape
    _s, cls, fr, par = spec
    c, e1, e2, e3 = frame_from(fr)
    r = par.get("r", 1.0)
    h = par.get("h", 2.0)
    if cls in ("Cylinder", "SemiCylinder"):
        return getattr(cb, cls)(c, c + e3 * h, c + e1 * r)
    if cls == "Frustum":
        return cb.Frustum(c, c + e3 * h, c + e1 * r, r * par.get("r2", 0.5))
    if cls == "Elbow":
        return cb.Elbow(c, c + e1 * r, e3, par.get("sweep", 1.0), c + e1 * 3 * r, e2, r * par.get("r2", 0.75))
    if cls == "ExtrudedRing":
        return cb.ExtrudedRing(c, c + e3 * h, c + e1 * r, r * par.get("inner", 0.5), par.get("n", 8))
    if cls == "RevolvedRing":
        # cross-section in the plane (e3 = ring axis, e1 = radial)
        q = [c + e3 * a + e1 * b for (a, b) in par.get("section", [(0, 1), (1, 1), (1, 2), (0, 2.5)])]
        return cb.RevolvedRing(c, c + e3 * h, cb.Face(q), par.get("n", 4))
    if cls in ("EighthSphere", "Hemisphere"):
        from classy_blocks.construct.shapes import sphere
        return getattr(sphere, cls)(c, c + e1 * r, e3)
    if cls == "ExtrudedShape":
        return ExtrudedShape(mk_sketch(["sketch", par["sketch"], fr, par]), h)
    if cls == "RevolvedShape":
        sk = mk_sketch(["sketch", par["sketch"], fr, par])
        return RevolvedShape(sk, par.get("sweep", 1.0), e2, c + e1 * 4 * r)
    if cls == "LoftedShape":
        sk = mk_sketch(["sketch", par["sketch"], fr, par])
        sk2 = sk.copy().translate(e3 * h).scale(0.75)
        mid = sk.copy().translate(e3 * h / 2 + e1 * 0.25)
        return LoftedShape(sk, sk2, mid)
    if cls == "Shell":
        box = cb.Box(c - 0.5, c + 0.5)
        return cb.Shell([box.get_face("top"), box.get_face("right")], par.get("t", 0.25))
    raise ValueError(cls)


STACKS = ["ExtrudedStack", "RevolvedStack", "TransformedStack"]
ASSEMBLIES = ["NJoint", "TJoint", "LJoint", "CuspCylinder"]


def mk_stack(spec):
    import classy_blocks as cb
    from classy_blocks.base import transforms as tr
    from classy_blocks.construct.stack import ExtrudedStack, RevolvedStack, TransformedStack
    _s, cls, fr, par = spec
    c, e1, e2, e3 = frame_from(fr)
    sk = mk_sketch(["sketch", par["sketch"], fr, par])
    n = par.get("repeats", 2)
    if cls == "ExtrudedStack":
        return ExtrudedStack(sk, par.get("h", 2.0), n)
    if cls == "RevolvedStack":
        return RevolvedStack(sk, par.get("sweep", 1.0), e2, c + e1 * 4, n)
    if cls == "TransformedStack":
        return TransformedStack(sk, [tr.Translation(e3 * 1.0), tr.Rotation(e3, 0.25, c)], n,
                                [tr.Translation(e3 * 0.5), tr.Rotation(e3, 0.125, c)])
    raise ValueError(cls)


def mk_assembly(spec):
    from classy_blocks.construct.assemblies import joints
    _s, cls, fr, par = spec
    c, e1, e2, e3 = frame_from(fr)
    r = par.get("r", 0.5)
    if cls == "NJoint":
        return joints.NJoint(c - e3 * 2, c, c - e3 * 2 + e1 * r, par.get("branches", 4))
    if cls == "TJoint":
        return joints.TJoint(c - e3 * 2, c, c - e3 * 2 + e1 * r)
    if cls == "LJoint":
        return joints.LJoint(c - e3 * 2, c, c - e3 * 2 + e1 * r)
    if cls == "CuspCylinder":
        return joints.CuspCylinder(c, c + e3 * 2, c + e1 * r, par.get("al", 0.5), par.get("ar", 0.75))
    raise ValueError(cls)


def mk_entity(spec):
    import classy_blocks as cb
    from classy_blocks.construct.array import Array
    from classy_blocks.construct.point import Point
    from classy_blocks.items.edges.factory import factory
    from classy_blocks.items.vertex import Vertex
    k = spec[0]
    if k == "point":
        return Point(spec[1])
    if k == "array":
        return Array(spec[1])
    if k == "edgedata":
        return mk_edge(spec[1])
    if k == "edgeitem":
        return factory.create(Vertex(spec[1], 0), Vertex(spec[2], 1), mk_edge(spec[3]))
    if k == "curve":
        return mk_curve(spec[1])
    if k == "face":
        return mk_face(spec)
    if k == "loft":
        op = cb.Loft(mk_face(spec[1]), mk_face(spec[2]))
        for i, e in enumerate(spec[3]):
            if e is not None:
                op.add_side_edge(i, mk_edge(e))
        return op
    if k == "box":
        return cb.Box(spec[1], spec[2])
    if k == "extrude":
        return cb.Extrude(mk_face(spec[1]), spec[2])
    if k == "revolve":
        return cb.Revolve(mk_face(spec[1]), spec[2], spec[3], spec[4])
    if k == "wedge":
        return cb.Wedge(mk_face(spec[1]), spec[2])
    if k == "sketch":
        return mk_sketch(spec)
    if k == "shape":
        return mk_shape(spec)
    if k == "stack":
        return mk_stack(spec)
    if k == "assembly":
        return mk_assembly(spec)
    raise ValueError(k)


# ---- generators of specs -----------------------------------------------------------------------

EDGE_KINDS = ["arc", "origin", "angle", "spline", "polyline", "curve:discrete", "curve:linear", "curve:splinei",
              "curve:linecurve", "curve:circle", "project", "line"]


def lerp(a, b, t):
    return [a[i] + (b[i] - a[i]) * t for i in range(3)]


def gen_edge_between(rng, p1, p2, kind=None, perp_angle=False):
    """An edge specification that makes geometric sense between p1 and p2 (general position)."""
    np = _np()
    kind = kind or rng.choice(EDGE_KINDS)
    a = np.array(p1, dtype=float)
    b = np.array(p2, dtype=float)
    d = b - a
    L = float(np.linalg.norm(d))
    # a direction not parallel to the chord
    while True:
        w = np.array(nonzero_vec(rng), dtype=float)
        n = np.cross(d, w)
        if np.linalg.norm(n) > 0.3 * L * np.linalg.norm(w):
            break
    n = n / np.linalg.norm(n)  # unit, perpendicular to the chord
    if kind == "line":
        return ["line"]
    if kind == "project":
        return ["project", "geo"]
    if kind == "arc":
        off = dq(rng, 1, 4) / 8 * L
        return ["arc", list(map(float, (a + b) / 2 + n * off + d * dq(rng, -1, 1) / 8))]
    if kind == "origin":
        if rng.random() < 0.5:
            o = (a + b) / 2 + n * L * dq(rng, 4, 12) / 8  # equidistant up to rounding
        else:
            o = (a + b) / 2 + n * L * dq(rng, 4, 12) / 8 + d * dq(rng, -1, 1) / 8  # needs the centre adjustment
        return ["origin", list(map(float, o)), rng.choice([1, 1, 1, 1.25])]
    if kind == "angle":
        if perp_angle or rng.random() < 0.7:
            ax = np.cross(d, n)  # perpendicular to the chord
            ax = ax * dq(rng, 1, 3)
        else:
            ax = np.cross(d, n) + d * dq(rng, -2, 2) / 8
        return ["angle", rng.choice([0.5, 1.0, -1.0, 1.5, 2.0, -2.5, 0.25]), list(map(float, ax))]
    m = rng.randint(2, 5)
    pts = []
    for i in range(m):
        t = (i + 1) / (m + 1)
        pts.append(list(map(float, a + d * t + n * L * 0.25 * math.sin(math.pi * t) + np.cross(d, n) * 0.05 * t)))
    if kind == "spline":
        return ["spline", pts]
    if kind == "polyline":
        return ["polyline", pts]
    if kind.startswith("curve:"):
        ck = kind.split(":")[1]
        full = [list(map(float, a - d * 0.25))] + [list(map(float, a))] + pts + [list(map(float, b))] + [list(map(float, b + d * 0.25))]
        if ck in ("discrete", "linear", "splinei"):
            # non-default construction options must survive copies and transformations, too (unevenly spaced points:
            # with equalize=False the parameter is the point index, not the chord length)
            opt = [False] if (ck != "discrete" and rng.random() < 0.4) else []
            return ["curve", [ck, full] + opt, rng.randint(3, 6)]
        if ck == "linecurve":
            return ["curve", ["linecurve", list(map(float, a - d * 0.5)), list(map(float, b + d * 0.5))], rng.randint(3, 6)]
        if ck == "circle":
            # a circle through a and b: centre on the bisector
            o = (a + b) / 2 + n * L * dq(rng, 3, 8) / 8
            nrm = np.cross(a - o, b - o)
            if rng.random() < 0.5:
                bounds = [0.0, 2 * math.pi]
            else:
                bounds = [0.0, 2.5]  # clipped: contains the arc a -> b (angle < pi/2 .. ) when started at a
            # the start of the edge sits at parameter 0.4, away from the seam 0 = 2 pi of the full circle (the closest-
            # parameter search is discontinuous there: either side is a legitimate answer, DESIGN 2.4)
            Rm = affine_of(["rotate", -0.4, list(map(float, nrm)), [0.0, 0.0, 0.0]], [0.0, 0.0, 0.0])[0]
            rim = o + Rm @ (a - o)
            return ["curve", ["circle", list(map(float, o)), list(map(float, rim)), list(map(float, nrm * dq(rng, 1, 3))), bounds], rng.randint(3, 6)]
    raise ValueError(kind)


def gen_quad(rng, c=None, size=1.0):
    """A roughly planar, convex quadrangle in general position."""
    np = _np()
    from classy_blocks.util import functions as f
    c = np.array(c if c is not None else dvec(rng), dtype=float)
    R = f.rotation_matrix(np.array(rng.choice(AXES), dtype=float), rng.choice(ANGLES))
    base = [(-1, -1), (1, -1), (1, 1), (-1, 1)]
    pts = []
    for (x, y) in base:
        p = c + R[:, 0] * (x + dq(rng, -2, 2) / 8) * size + R[:, 1] * (y + dq(rng, -2, 2) / 8) * size + R[:, 2] * dq(rng, -1, 1) / 8 * size
        pts.append([float(round(v * 64) / 64) for v in p])
    return pts, R[:, 2]


def gen_face_spec(rng, kinds=None, c=None):
    pts, _n = gen_quad(rng, c)
    eds = []
    for i in range(4):
        k = (kinds[i] if kinds else (rng.choice(EDGE_KINDS) if rng.random() < 0.6 else "line"))
        eds.append(None if k == "line" and rng.random() < 0.5 else gen_edge_between(rng, pts[i], pts[(i + 1) % 4], k))
    return ["face", pts, eds]


def gen_loft_spec(rng, face_kinds=None, side_kinds=None):
    np = _np()
    pts, n = gen_quad(rng)
    h = dq(rng, 8, 20) / 8
    top = [[float(round((p[j] + n[j] * h + dq(rng, -1, 1) / 8) * 64) / 64) for j in range(3)] for p in pts]
    fk = face_kinds or [rng.choice(EDGE_KINDS) if rng.random() < 0.4 else "line" for _ in range(8)]
    sk = side_kinds or [rng.choice(EDGE_KINDS) if rng.random() < 0.5 else "line" for _ in range(4)]
    f1 = ["face", pts, [gen_edge_between(rng, pts[i], pts[(i + 1) % 4], fk[i]) for i in range(4)]]
    f2 = ["face", top, [gen_edge_between(rng, top[i], top[(i + 1) % 4], fk[4 + i]) for i in range(4)]]
    sides = [gen_edge_between(rng, pts[i], top[i], sk[i], perp_angle=True) for i in range(4)]
    return ["loft", f1, f2, sides]


def gen_frame(rng):
    return [dvec(rng), [float(x) for x in rng.choice(AXES)], rng.choice(ANGLES)]


def gen_sketch_par(rng, cls):
    par = {"r": rng.choice([1.0, 0.75, 1.5])}
    if cls == "Grid":
        par.update(lx=rng.choice([1.0, 2.0]), ly=rng.choice([1.0, 1.5]), n1=rng.randint(1, 3), n2=rng.randint(1, 2))
    if cls == "MappedSketch":
        par.update(pos=[[0, 0], [1, 0], [2.25, 0.125], [0, 1], [1.125, 1.25], [2, 1]], quads=[[0, 1, 4, 3], [1, 2, 5, 4]])
    return par


def gen_entity_spec(rng, klass):
    """klass: one of the entity classes of the catalogue (string)."""
    if klass == "point":
        return ["point", dvec(rng)]
    if klass == "array":
        return ["array", [dvec(rng) for _ in range(rng.randint(2, 5))]]
    if klass.startswith("edgedata:"):
        p1, p2 = dvec(rng), nonzero_vec(rng)
        p2 = [p1[i] + p2[i] for i in range(3)]
        return ["edgedata", gen_edge_between(rng, p1, p2, klass.split(":", 1)[1])]
    if klass.startswith("edgeitem:"):
        p1, p2 = dvec(rng), nonzero_vec(rng)
        p2 = [p1[i] + p2[i] for i in range(3)]
        return ["edgeitem", p1, p2, gen_edge_between(rng, p1, p2, klass.split(":", 1)[1])]
    if klass.startswith("curve:"):
        p1, p2 = dvec(rng), nonzero_vec(rng)
        p2 = [p1[i] + p2[i] for i in range(3)]
        return ["curve", gen_edge_between(rng, p1, p2, klass)[1]]
    if klass == "face":
        return gen_face_spec(rng)
    if klass.startswith("face:"):
        k = klass.split(":", 1)[1]
        return gen_face_spec(rng, [k, "line", k, rng.choice(EDGE_KINDS)])
    if klass == "loft":
        return gen_loft_spec(rng)
    if klass.startswith("loft:"):
        k = klass.split(":", 1)[1]
        return gen_loft_spec(rng, [k, "line", "line", k, "line", k, "line", "line"], [k, k, "line", k])
    if klass == "box":
        a = dvec(rng)
        return ["box", a, [a[i] + dq(rng, 4, 16) / 8 for i in range(3)]]
    if klass == "extrude":
        return ["extrude", gen_face_spec(rng), dq(rng, 4, 16) / 8]
    if klass == "revolve":
        fs = gen_face_spec(rng, ["line", "arc", "line", "line"])
        return ["revolve", fs, rng.choice([0.5, 1.0, 0.75]), [float(x) for x in rng.choice(AXES)], [fs[1][0][i] + [5.0, 4.0, -6.0][i] for i in range(3)]]
    if klass == "wedge":
        # Wedge wants a face in the xy-plane
        x0, y0 = dq(rng, 0, 2), dq(rng, 1, 2)
        pts = [[x0, y0, 0], [x0 + 1, y0, 0], [x0 + 1, y0 + 0.5, 0], [x0, y0 + 0.75, 0]]
        return ["wedge", ["face", pts, [None, None, None, None]], 0.1]
    if klass.startswith("sketch:"):
        cls = klass.split(":")[1]
        return ["sketch", cls, gen_frame(rng), gen_sketch_par(rng, cls)]
    if klass.startswith("shape:"):
        cls = klass.split(":")[1]
        par = {"r": rng.choice([1.0, 0.75]), "h": rng.choice([2.0, 1.5])}
        if cls in ("ExtrudedShape", "RevolvedShape", "LoftedShape"):
            sk = klass.split(":")[2] if klass.count(":") > 1 else rng.choice(["MappedSketch", "OneCoreDisk", "Annulus", "QuarterDisk"])
            par.update(gen_sketch_par(rng, sk))
            par["sketch"] = sk
        return ["shape", cls, gen_frame(rng), par]
    if klass.startswith("stack:"):
        cls = klass.split(":")[1]
        sk = rng.choice(["MappedSketch", "OneCoreDisk", "Annulus"])
        par = gen_sketch_par(rng, sk)
        par.update(sketch=sk, repeats=rng.randint(2, 3))
        return ["stack", cls, gen_frame(rng), par]
    if klass.startswith("assembly:"):
        cls = klass.split(":")[1]
        return ["assembly", cls, gen_frame(rng), {"r": 0.5, "branches": rng.choice([3, 4])}]
    raise ValueError(klass)


LEAF_CLASSES = ["point", "array"]
EDGE_CLASSES = ["edgedata:" + k for k in ("arc", "origin", "angle", "spline", "polyline", "curve:discrete", "curve:circle")] + \
               ["edgeitem:" + k for k in EDGE_KINDS if k not in ("line", "project")]
CURVE_CLASSES = ["curve:discrete", "curve:linear", "curve:splinei", "curve:linecurve", "curve:circle"]
FACE_CLASSES = ["face"] + ["face:" + k for k in EDGE_KINDS if k not in ("line", "project")]
OP_CLASSES = ["loft"] + ["loft:" + k for k in EDGE_KINDS if k not in ("line",)] + ["box", "extrude", "revolve", "wedge"]
SKETCH_CLASSES = ["sketch:" + s for s in SKETCHES]
SHAPE_CLASSES = ["shape:" + s for s in SHAPES]
STACK_CLASSES = ["stack:" + s for s in STACKS]
ASSEMBLY_CLASSES = ["assembly:" + s for s in ASSEMBLIES]
ALL_CLASSES = LEAF_CLASSES + EDGE_CLASSES + CURVE_CLASSES + FACE_CLASSES + OP_CLASSES + SKETCH_CLASSES + SHAPE_CLASSES + \
    STACK_CLASSES + ASSEMBLY_CLASSES


# transformation lists on entities that handle a transformation themselves (always generated, on every run, in the
# traversal correspondence and in the direct oracle): a list must be the sequence of method calls on the entity -
# bare Angle edge data (Angle.translate/rotate/scale/mirror), bare CircleCurve (CircleCurve.mirror), spline-round
# sketches (SplineRound.scale / QuarterSplineRing.scale), the leaves (own default origin); an operation mirrored
# through a list (mirrored, not inverted) and operations inside a shape / stack (mirrored and inverted)
FORCED_LIST_CASES = (
    [("edgedata:angle", [k]) for k in ("translate", "rotate", "scale", "mirror")] +
    [("edgedata:angle", ["rotate", "translate", "mirror"]), ("edgedata:angle", ["scale", "translate"]),
     ("edgeitem:angle", ["mirror", "translate"]),
     ("curve:circle", ["mirror"]), ("curve:circle", ["mirror", "rotate"]), ("curve:circle", ["translate", "mirror", "scale"]),
     ("edgedata:curve:circle", ["mirror"]), ("edgeitem:curve:circle", ["mirror"])] +
    [("sketch:" + c, ["scale"]) for c in SKETCHES if "Spline" in c] +
    [("sketch:QuarterSplineDisk", ["translate", "scale"]), ("sketch:SplineRing", ["scale", "rotate"]),
     ("point", ["rotate"]), ("point", ["scale"]), ("array", ["rotate"]), ("array", ["scale", "mirror"]),
     ("loft", ["mirror"]), ("loft:angle", ["mirror", "translate"]), ("loft:spline", ["rotate", "mirror"]), ("box", ["mirror"]),
     ("shape:Cylinder", ["mirror"]), ("shape:RevolvedRing", ["mirror", "rotate"]), ("stack:ExtrudedStack", ["mirror"])])


# ------------------------------------------------------------------------------------------------
# applying transformations; the affine map they name


def mk_tr(t):
    from classy_blocks.base import transforms as tr
    if t[0] == "translate":
        return tr.Translation(t[1])
    if t[0] == "rotate":
        return tr.Rotation(t[2], t[1], t[3])
    if t[0] == "scale":
        return tr.Scaling(t[1], t[2])
    if t[0] == "mirror":
        return tr.Mirror(t[1], t[2])
    raise ValueError(t[0])


def apply_method(e, t):
    if t[0] == "translate":
        return e.translate(t[1])
    if t[0] == "rotate":
        return e.rotate(t[1], t[2], t[3])
    if t[0] == "scale":
        return e.scale(t[1], t[2])
    if t[0] == "mirror":
        return e.mirror(t[1], t[2])
    raise ValueError(t[0])


def resolved_origin(e, t):
    """The origin the documentation promises when None is passed (centre before the call; zero for mirror;
    Point.rotate/scale and Array.rotate/scale document the zero origin).  A transformation list is the sequence of
    method calls on the entity (fix C09-9), so the same defaults hold for entity.transform([...])."""
    np = _np()
    if t[0] == "translate":
        return None
    o = t[-1]
    if o is not None:
        return [float(x) for x in o]
    if t[0] == "mirror":
        return [0.0, 0.0, 0.0]
    from classy_blocks.construct.array import Array
    from classy_blocks.construct.point import Point
    if isinstance(e, (Point, Array)):
        return [0.0, 0.0, 0.0]  # documented default of the leaves
    with warnings.catch_warnings():
        warnings.simplefilter("ignore")
        c = e.center
    return [float(x) for x in np.array(c, dtype=float)]


def affine_of(t, origin):
    """(L, b, k, sigma, Q): x -> L x + b with L = k Q, Q orthogonal, cross(Qx,Qy) = sigma Q(cross x y).
    Written from the textbook definitions, not from the library."""
    np = _np()
    I = np.eye(3)
    if t[0] == "translate":
        return I, np.array(t[1], dtype=float), 1.0, 1.0, I
    o = np.array(origin, dtype=float)
    if t[0] == "scale":
        L = I * t[1]
        return L, o - L @ o, float(t[1]), 1.0, I
    if t[0] == "mirror":
        n = np.array(t[1], dtype=float)
        H = I - 2 * np.outer(n, n) / float(n @ n)
        return H, o - H @ o, 1.0, -1.0, H
    if t[0] == "rotate":
        u = np.array(t[2], dtype=float)
        u = u / math.sqrt(float(u @ u))
        th = t[1]
        K = np.array([[0, -u[2], u[1]], [u[2], 0, -u[0]], [-u[1], u[0], 0]])
        R = math.cos(th) * I + math.sin(th) * K + (1 - math.cos(th)) * np.outer(u, u)
        return R, o - R @ o, 1.0, 1.0, R
    raise ValueError(t[0])


def compose(maps):
    """maps applied in order -> one (L, b, k, sigma, Q)"""
    np = _np()
    L, b, k, s, Q = np.eye(3), np.zeros(3), 1.0, 1.0, np.eye(3)
    for (L2, b2, k2, s2, Q2) in maps:
        L, b, k, s, Q = L2 @ L, L2 @ b + b2, k * k2, s * s2, Q2 @ Q
    return L, b, k, s, Q


def transform_entity(e, tlist, mode):
    """Apply tlist by method calls or as one transformation list; returns the affine map that was asked for."""
    maps = []
    if mode == "method":
        for t in tlist:
            o = resolved_origin(e, t)
            maps.append(affine_of(t, o))
            with warnings.catch_warnings():
                warnings.simplefilter("ignore")
                apply_method(e, t)
    else:
        # a list is the sequence of method calls: default origins are resolved one after the other, on the entity
        # as transformed so far - read the centre the implementation reports before each step on a twin that is
        # moved step by step *by method calls* (the expectation does not go through transform())
        twin = e.copy() if any(t[0] in ("rotate", "scale") and t[-1] is None for t in tlist) else None
        for t in tlist:
            o = resolved_origin(twin if twin is not None else e, t)
            maps.append(affine_of(t, o))
            if twin is not None:
                with warnings.catch_warnings():
                    warnings.simplefilter("ignore")
                    apply_method(twin, t)
        with warnings.catch_warnings():
            warnings.simplefilter("ignore")
            e.transform([mk_tr(t) for t in tlist])
    return compose(maps)


# ------------------------------------------------------------------------------------------------
# observation of the output geometry


def _edge_obs(edge):
    """kind, shape points, length, axis of one Edge item"""
    np = _np()
    kind = edge.kind
    pts = []
    axis = None
    if kind in ("arc", "origin", "angle"):
        pts = [[float(x) for x in edge.third_point.position]]
        if kind == "angle":
            axis = [float(x) * (1 if edge.data.angle > 0 else -1) for x in edge.data.axis.components]
    elif kind in ("spline", "polyLine", "curve"):
        pts = [[float(x) for x in p] for p in np.array(edge.point_array)]
    return dict(kind=kind, pts=pts, length=float(edge.length), axis=axis,
                label=list(edge.data.label) if kind == "project" else None)


def observe(e, spec_kind):
    """Canonical output geometry: verts, edges [(i, j, obs)], labels used / defined."""
    np = _np()
    import classy_blocks as cb
    from classy_blocks.items.edges.factory import factory
    from classy_blocks.items.vertex import Vertex
    with warnings.catch_warnings():
        warnings.simplefilter("ignore")
        if spec_kind == "point":
            return dict(verts=[[float(x) for x in e.position]], edges=[], ordered=True)
        if spec_kind == "array":
            return dict(verts=[[float(x) for x in p] for p in e.points], edges=[], ordered=True)
        if spec_kind == "curve":
            pts = np.array(e.discretize())
            return dict(verts=[[float(x) for x in p] for p in pts], edges=[], ordered=True, length=float(e.length))
        if spec_kind == "edgedata":
            k = e.kind
            if k == "arc":
                return dict(verts=[[float(x) for x in e.point.position]], edges=[], ordered=True)
            if k == "origin":
                return dict(verts=[[float(x) for x in e.origin.position]], edges=[], ordered=True)
            if k == "angle":
                return dict(verts=[], edges=[], ordered=True, direction=[float(x) for x in e.axis.components])
            if k in ("spline", "polyLine", "curve"):
                pts = np.array(e.curve.discretize())
                return dict(verts=[[float(x) for x in p] for p in pts], edges=[], ordered=True)
            return dict(verts=[], edges=[], ordered=True)
        if spec_kind == "edgeitem":
            verts = [[float(x) for x in e.vertex_1.position], [float(x) for x in e.vertex_2.position]]
            return dict(verts=verts, edges=[(0, 1, _edge_obs(e))], ordered=True)
        if spec_kind in ("face", "sketch"):
            faces = [e] if spec_kind == "face" else list(e.faces)
            verts, edges = [], []
            for face in faces:
                base = len(verts)
                vs = [Vertex(p.position, base + i) for i, p in enumerate(face.points)]
                verts += [[float(x) for x in v.position] for v in vs]
                for i in range(4):
                    ed = factory.create(vs[i], vs[(i + 1) % 4], face.edges[i])
                    if ed.kind != "line":
                        edges.append((base + i, base + (i + 1) % 4, _edge_obs(ed)))
            out = dict(verts=verts, edges=edges, ordered=False)
            # lengths a sketch keeps beside its points (SplineRound: straight sides, widths; radii derived from them)
            scal = {}
            for a in SKETCH_SCALARS:
                if spec_kind == "sketch" and hasattr(e, a):
                    scal[a] = float(getattr(e, a))
            if scal:
                out["scalars"] = scal
            return out
        # operations and anything made of them: the assembled mesh
        mesh = cb.Mesh()
        mesh.add(e)
        mesh.assemble()
        verts = [[float(x) for x in v.position] for v in mesh.vertex_list.vertices]
        edges = [(ed.vertex_1.index, ed.vertex_2.index, _edge_obs(ed)) for ed in mesh.edge_list.edges]
        used = set()
        for fc in mesh.face_list.faces:
            used.add(fc.label)
        for ed in mesh.edge_list.edges:
            if ed.kind == "project":
                used.update(ed.data.label)
        for v in mesh.vertex_list.vertices:
            used.update(v.projected_to)
        defined = set(mesh.geometry_list.geometry.keys())
        sections = dict(vertices=mesh.vertex_list.description, edges=mesh.edge_list.description,
                        faces=mesh.face_list.description, patches=mesh.patch_list.description,
                        geometry=mesh.geometry_list.description)
        out = dict(verts=verts, edges=edges, ordered=False, used=sorted(used), defined=sorted(defined), sections=sections)
        from classy_blocks.construct.operations.operation import Operation
        if isinstance(e, Operation):
            # which face is the bottom and which the top (Operation.mirror swaps them, a listed Mirror does not)
            out["faces_bt"] = [[[float(x) for x in p.position] for p in fc.points] for fc in (e.bottom_face, e.top_face)]
        return out


SKETCH_SCALARS = ("side_1", "side_2", "width_1", "width_2", "r_1", "r_2", "r_1_outer", "r_2_outer")


def _size(obs):
    np = _np()
    if not obs["verts"]:
        return 1.0
    v = np.array(obs["verts"])
    return float(max(1.0, np.abs(v).max()))


def oracle_transform(obs0, obs1, amap):
    """obs1 must be the image of obs0 under x -> L x + b.  Returns None or a reason."""
    np = _np()
    L, b, k, sigma, Q = amap
    size = max(_size(obs0), _size(obs1))
    tol = TOL_CLOSED * size * 10
    v0 = np.array(obs0["verts"], dtype=float).reshape(-1, 3)
    v1 = np.array(obs1["verts"], dtype=float).reshape(-1, 3)
    if len(v0) != len(v1):
        return "vertex-count: %d vertices before, %d after the transformation" % (len(v0), len(v1))
    img = v0 @ L.T + b if len(v0) else v0
    vmap = {}
    if obs0.get("ordered"):
        for i in range(len(v0)):
            d = float(np.linalg.norm(img[i] - v1[i]))
            if d > tol:
                return "position: point %d is %s, affine image is %s (off by %.3g)" % (i, v1[i].tolist(), img[i].tolist(), d)
            vmap[i] = i
        if "direction" in obs0:
            d0 = np.array(obs0["direction"])
            d1 = np.array(obs1["direction"])
            exp = Q @ d0
            if float(np.linalg.norm(np.cross(exp, d1))) > 1e-9 or abs(float(np.linalg.norm(d1)) - float(np.linalg.norm(d0))) > 1e-9:
                return "direction: axis %s, expected +-%s (rotated/reflected, not displaced)" % (d1.tolist(), exp.tolist())
        if "length" in obs0:
            if abs(obs1["length"] - abs(k) * obs0["length"]) > 1e-6 * max(1.0, obs0["length"]) * abs(k):
                return "length: curve length %.12g, expected %.12g" % (obs1["length"], abs(k) * obs0["length"])
        return None
    taken = set()
    for i in range(len(v0)):
        d = np.linalg.norm(v1 - img[i], axis=1)
        j = int(np.argmin(d))
        if d[j] > tol:
            return "position: image %s of vertex %d is no vertex of the transformed entity (nearest off by %.3g)" % (img[i].tolist(), i, float(d[j]))
        # several coincident vertices (faces of a sketch list their own): take the first free one
        cands = [int(x) for x in np.where(d <= tol)[0] if int(x) not in taken]
        if not cands:
            return "position: vertices collapse under the transformation"
        vmap[i] = cands[0]
        taken.add(cands[0])
    e0 = obs0["edges"]
    e1 = obs1["edges"]
    if len(e0) != len(e1):
        return "edge-count: %d curved edges before, %d after" % (len(e0), len(e1))

    def key(i, j, pos):
        return None

    used1 = set()
    for (i0, j0, o0) in e0:
        pi, pj = img[i0], img[j0]
        found = None
        for idx, (i1, j1, o1) in enumerate(e1):
            if idx in used1 or o1["kind"] != o0["kind"]:
                continue
            a, c = v1[i1], v1[j1]
            if np.linalg.norm(a - pi) <= tol and np.linalg.norm(c - pj) <= tol:
                found = (idx, False)
                break
            if np.linalg.norm(a - pj) <= tol and np.linalg.norm(c - pi) <= tol:
                found = (idx, True)
                break
        if not found:
            return "edge-missing: no %s edge between the images of vertices %d and %d" % (o0["kind"], i0, j0)
        idx, rev = found
        used1.add(idx)
        o1 = e1[idx][2]
        etol = tol if o0["kind"] != "curve" else TOL_MINIMIZE * size
        p0 = np.array(o0["pts"], dtype=float).reshape(-1, 3)
        p1 = np.array(o1["pts"], dtype=float).reshape(-1, 3)
        if len(p0) != len(p1):
            return "edge-shape: %s edge has %d points, before %d" % (o0["kind"], len(p1), len(p0))
        if len(p0):
            ip = p0 @ L.T + b
            if rev:
                ip = ip[::-1]
            dev = float(np.abs(ip - p1).max())
            if dev > etol:
                return "edge-shape: %s edge %d-%d: points %s, affine image of the original %s (off by %.3g%s)" % (
                    o0["kind"], i0, j0, p1.tolist()[:2], ip.tolist()[:2], dev, ", direction reversed" if rev else "")
        ltol = (1e-9 if o0["kind"] != "curve" else 1e-4) * max(1.0, abs(k) * o0["length"])
        if not (rev and o0["kind"] == "curve") and abs(o1["length"] - abs(k) * o0["length"]) > ltol:
            return "edge-length: %s edge %d-%d has length %.12g, expected |ratio| x original = %.12g" % (
                o0["kind"], i0, j0, o1["length"], abs(k) * o0["length"])
        if o0["axis"] is not None:
            exp = sigma * (Q @ np.array(o0["axis"])) * (-1 if rev else 1)
            got = np.array(o1["axis"])
            # the axis is a direction: compare up to length
            if float(np.linalg.norm(np.cross(exp, got))) > 1e-9 * float(np.linalg.norm(exp)) * float(np.linalg.norm(got)):
                return "direction: angle-edge axis %s, expected parallel to %s (rotated/reflected, not displaced)" % (got.tolist(), exp.tolist())
        if o0["label"] != o1["label"]:
            return "edge-label: %r became %r" % (o0["label"], o1["label"])
    for a, x0 in sorted(obs0.get("scalars", {}).items()):
        x1 = obs1.get("scalars", {}).get(a)
        if x1 is None or abs(abs(x1) - abs(k) * abs(x0)) > tol:
            return "scalar-length: %s is %r, expected |ratio| x original = %.12g" % (a, x1, abs(k) * abs(x0))
    if "used" in obs1:
        missing = [l for l in obs1["used"] if l is not None and l not in obs1["defined"] and l != "geo"]
        if missing:
            return "geometry-undefined: projected to %r but only %r defined" % (missing, obs1["defined"])
    return None


def oracle_face_order(obs0, obs1, amap, swapped):
    """Bottom and top face of a transformed operation: the images of the original bottom and top face, swapped
    when the operation was turned over (Operation.mirror: `bottom and top face are swapped after mirroring`;
    Operation.transform with a Mirror: mirrored only, `use Operation.invert() to put it back in shape`)."""
    np = _np()
    L, b = amap[0], amap[1]
    tol = TOL_CLOSED * max(_size(obs0), _size(obs1)) * 10
    for which, name in ((0, "bottom"), (1, "top")):
        src = np.array(obs0["faces_bt"][1 - which if swapped else which], dtype=float)
        got = np.array(obs1["faces_bt"][which], dtype=float)
        if src.shape != got.shape or float(np.abs(src @ L.T + b - got).max()) > tol:
            return "face-order: the %s face is not the image of the original %s face (%s)" % (
                name, ("top" if which == 0 else "bottom") if swapped else name,
                "an odd number of mirror() calls swaps the faces" if swapped else "faces keep their places")
    return None


# ------------------------------------------------------------------------------------------------
# heap graph of a live entity, call log of the leaves


class Graph:
    def __init__(self):
        self.ids = {}
        self.objs = []  # keep alive

    def nid(self, o):
        k = id(o)
        if k not in self.ids:
            self.ids[k] = len(self.ids)
            self.objs.append(o)
        return self.ids[k]


def extract(e, g):
    """Tree of the entity along `parts` (Coq syntax of Model.C09_Transform.node) as nested tuples."""
    from classy_blocks.construct.array import Array
    from classy_blocks.construct.edges import Angle
    from classy_blocks.construct.operations.operation import Operation
    from classy_blocks.construct.point import Point
    if isinstance(e, Point):
        return ("P", g.nid(e))
    if isinstance(e, Array):
        return ("A", g.nid(e))
    if isinstance(e, Angle):
        return ("X", g.nid(e.axis))
    if isinstance(e, Operation):
        return ("O", extract(e.bottom_face, g), extract(e.top_face, g), [extract(s, g) for s in e.side_edges])
    parts = list(e.parts)
    if len(parts) == 1 and parts[0] is e:
        raise GenError("unknown leaf class %s (parts == [self])" % type(e).__name__)
    return ("G", [extract(p, g) for p in parts])


def coq_node(t):
    if t[0] == "P":
        return "NPoint %d" % t[1]
    if t[0] == "A":
        return "NArray %d" % t[1]
    if t[0] == "X":
        return "NAngle %d" % t[1]
    if t[0] == "G":
        return "NGroup [" + "; ".join(coq_node(x) for x in t[1]) + "]"
    return "NOper (%s) (%s) [%s]" % (coq_node(t[1]), coq_node(t[2]), "; ".join(coq_node(x) for x in t[3]))


def tree_leaves(t):
    if t[0] in ("P", "A", "X"):
        return [t[1]]
    if t[0] == "G":
        return [i for x in t[1] for i in tree_leaves(x)]
    return tree_leaves(t[1]) + tree_leaves(t[2]) + [i for x in t[3] for i in tree_leaves(x)]


class CallLog:
    """Wraps the leaf methods of Point and Array; restores them on exit."""
    METHODS = ("translate", "rotate", "scale", "mirror")

    def __init__(self):
        self.events = []

    def __enter__(self):
        np = _np()
        from classy_blocks.construct.array import Array
        from classy_blocks.construct.point import Point
        self.saved = []
        log = self.events

        def value(o):
            return np.array(o.position if isinstance(o, Point) else o.points, dtype=float).copy()

        for cls in (Point, Array):
            for m in self.METHODS:
                orig = cls.__dict__.get(m)
                if orig is None:
                    raise GenError("%s.%s is gone" % (cls.__name__, m))
                self.saved.append((cls, m, orig))

                def wrapper(self_, *a, _orig=orig, _m=m, **kw):
                    before = value(self_)
                    args = list(a)
                    if _m != "translate":
                        need = 3 if _m == "rotate" else 2
                        while len(args) < need:
                            args.append(None)
                        if "origin" in kw:
                            args[need - 1] = kw["origin"]
                        for key, pos in (("angle", 0), ("axis", 1), ("ratio", 0), ("normal", 0)):
                            if key in kw and ((_m == "rotate" and key in ("angle", "axis")) or (_m == "scale" and key == "ratio") or (_m == "mirror" and key == "normal")):
                                args[pos] = kw[key]
                    elif "displacement" in kw:
                        args = [kw["displacement"]]
                    args = [None if x is None else (float(x) if np.ndim(x) == 0 else [float(y) for y in np.array(x, dtype=float)]) for x in args]
                    r = _orig(self_, *a, **kw)
                    log.append(dict(obj=id(self_), keep=self_, m=_m, args=args, before=before, after=value(self_),
                                    is_array=not isinstance(self_, Point)))
                    return r
                setattr(cls, m, wrapper)
        return self

    def __exit__(self, *exc):
        for cls, m, orig in self.saved:
            setattr(cls, m, orig)
        return False


def _same(a, b):
    np = _np()
    if a is None or b is None:
        return a is None and b is None
    return bool(np.array_equal(np.array(a, dtype=float), np.array(b, dtype=float)))


def classify(ev, t):
    """0 as given, 1 zero origin, 2 scale(-1, 0), None: does not belong to t"""
    m, a = ev["m"], ev["args"]
    if m == t[0]:
        if m == "translate":
            if _same(a[0], t[1]):
                return 0
        elif m == "rotate":
            if a[0] == t[1] and _same(a[1], t[2]):
                if _same(a[2], t[3]):
                    return 0
                if a[2] is not None and not any(a[2]):
                    return 1
        elif m == "scale":
            if a[0] == t[1]:
                if _same(a[1], t[2]):
                    return 0
                if a[1] is not None and not any(a[1]):
                    return 1
        elif m == "mirror":
            if _same(a[0], t[1]):
                if _same(a[1], t[2]):
                    return 0
                if a[1] is not None and not any(a[1]):
                    return 1
    if m == "scale" and a[0] == -1.0 and a[1] is not None and not any(a[1]):
        return 2
    return None


def classify_events(events, tlist, g):
    """codes (id, op) in call order; events that fit no transformation of the list get op 9"""
    out = []
    ptr = 0
    for ev in events:
        i = g.ids.get(ev["obj"], 999)
        c = None
        for j in range(ptr, len(tlist)):
            c = classify(ev, tlist[j])
            if c is not None:
                if c != 2:
                    ptr = j
                break
        out.append((i, 9 if c is None else c))
        ev["code"] = 9 if c is None else c
        ev["t"] = tlist[min(ptr, len(tlist) - 1)]
    return out


KIND_CODE = {"translate": 0, "rotate": 1, "scale": 2, "mirror": 3}


def gen_tf_explicit(rng, kind=None):
    """transformation with an explicit non-zero origin (traversal correspondence)"""
    t = gen_tf(rng, kind, zero_origin_p=0.0, none_origin_p=0.0)
    return t


def run_traversal_case(spec, tlist, mode):
    """-> (tree before, codes, tree after, events)"""
    e = mk_entity(spec)
    g = Graph()
    with warnings.catch_warnings():
        warnings.simplefilter("ignore")
        tree0 = extract(e, g)
        with CallLog() as log:
            if mode == "method":
                for t in tlist:
                    apply_method(e, t)
            else:
                e.transform([mk_tr(t) for t in tlist])
        codes = classify_events(log.events, tlist, g)
        tree1 = extract(e, g)
    return tree0, codes, tree1, log.events, g


def R(x):
    return core.float_to_R(x)


def Rv(v):
    return "(%s, %s, %s)" % (R(v[0]), R(v[1]), R(v[2]))


def coq_tf(t):
    if t[0] == "translate":
        return "TTranslate %s" % Rv(t[1])
    if t[0] == "rotate":
        return "TRotate %s %s %s" % (R(t[1]), Rv(t[2]), Rv(t[3]))
    if t[0] == "scale":
        return "TScale %s %s" % (R(t[1]), Rv(t[2]))
    return "TMirror %s %s" % (Rv(t[1]), Rv(t[2]))


UNFOLD = ("cbv [leaf_point leaf_row zero_origin pt_rotate f_rotate arr_rotate_row rot_matrix_apply rodrigues unitv "
          "f_scale f_mirror arr_mirror_row mirror_vM mirror_vMT norm norm2 dot cross vadd vsub vscale vzero vx vy vz fst snd dy]")


def leaf_goal(k, ev, row):
    """interval goal: the model of the leaf call agrees with what the implementation computed (1e-9)"""
    np = _np()
    t = ev["t"]
    code = ev["code"]
    before = ev["before"] if not ev["is_array"] else ev["before"][row]
    after = ev["after"] if not ev["is_array"] else ev["after"][row]
    fn = "leaf_row" if ev["is_array"] else "leaf_point"
    if code == 0:
        # origin actually passed (None has been resolved by the callee to zero)
        tt = list(t)
        expr = "%s (%s) %s" % (fn, coq_tf(tt), Rv(before))
    elif code == 1:
        expr = "%s (zero_origin (%s)) %s" % (fn, coq_tf(t), Rv(before))
    else:
        expr = "f_scale %s (-1) vzero" % Rv(before)
    tol = 1e-9 * max(1.0, float(np.abs(after).max()))
    tl = R(float.fromhex(float(tol).hex()))
    return ("Goal let r := %s in Rabs (vx r - %s) <= %s /\\ Rabs (vy r - %s) <= %s /\\ Rabs (vz r - %s) <= %s.\n"
            "Proof. %s. first [ (repeat split; interval with (i_prec 80)); idtac \"OK %d\" | idtac \"MISMATCH %d\" ]. Abort.\n"
            % (expr, R(after[0]), tl, R(after[1]), tl, R(after[2]), tl, UNFOLD, k, k))


# ------------------------------------------------------------------------------------------------
# (F) tables


TRANSFORM_METHODS = ["translate", "rotate", "scale", "mirror", "transform", "copy"]


def tab_overrides():
    import importlib
    import pkgutil
    import classy_blocks
    from classy_blocks.base.element import ElementBase
    for m in pkgutil.walk_packages(classy_blocks.__path__, "classy_blocks."):
        try:
            importlib.import_module(m.name)
        except Exception as ex:  # pragma: no cover
            raise GenError("cannot import %s: %s" % (m.name, ex))

    def subs(c):
        out = set()
        for s in c.__subclasses__():
            out.add(s)
            out |= subs(s)
        return out
    rows = []
    for c in sorted(subs(ElementBase), key=lambda c: (c.__module__, c.__name__)):
        ov = [n for n in TRANSFORM_METHODS if n in c.__dict__]
        rows.append((c.__name__, ov))
    if len(rows) < 20:
        raise GenError("only %d ElementBase subclasses found" % len(rows))
    return rows


HELPER_FORMS = ["float-array", "int-array", "list"]


def tab_helper_writes():
    """Does a helper write to an array handed to it?  (helper, argument, container form) -> modified?"""
    np = _np()
    from classy_blocks.construct.array import Array
    from classy_blocks.construct.point import Point
    from classy_blocks.util import functions as f

    def mk(form, v):
        if form == "float-array":
            return np.array(v, dtype=float)
        if form == "int-array":
            return np.array(v, dtype=int)
        return list(v)

    def same(a, b):
        return type(a) is type(b) and bool(np.array_equal(np.array(a), np.array(b))) and (not hasattr(a, "dtype") or a.dtype == b.dtype)

    P, O, N, AX, D = [3, -2, 5], [1, 4, -2], [2, -1, 2], [1, 2, 2], [2, 0, -7]
    calls = {
        "functions.rotate": (lambda a: f.rotate(a["point"], 0.75, a["axis"], a["origin"]), dict(point=P, axis=AX, origin=O)),
        "functions.scale": (lambda a: f.scale(a["point"], 1.5, a["origin"]), dict(point=P, origin=O)),
        "functions.mirror": (lambda a: f.mirror(a["point"], a["normal"], a["origin"]), dict(point=P, normal=N, origin=O)),
        "Point.translate": (lambda a: Point([1.0, 2.0, 3.0]).translate(a["displacement"]), dict(displacement=D)),
        "Point.rotate": (lambda a: Point([1.0, 2.0, 3.0]).rotate(0.75, a["axis"], a["origin"]), dict(axis=AX, origin=O)),
        "Point.scale": (lambda a: Point([1.0, 2.0, 3.0]).scale(1.5, a["origin"]), dict(origin=O)),
        "Point.mirror": (lambda a: Point([1.0, 2.0, 3.0]).mirror(a["normal"], a["origin"]), dict(normal=N, origin=O)),
        "Array.translate": (lambda a: Array([[1.0, 2.0, 3.0], [0, 1, 0]]).translate(a["displacement"]), dict(displacement=D)),
        "Array.rotate": (lambda a: Array([[1.0, 2.0, 3.0], [0, 1, 0]]).rotate(0.75, a["axis"], a["origin"]), dict(axis=AX, origin=O)),
        "Array.scale": (lambda a: Array([[1.0, 2.0, 3.0], [0, 1, 0]]).scale(1.5, a["origin"]), dict(origin=O)),
        "Array.mirror": (lambda a: Array([[1.0, 2.0, 3.0], [0, 1, 0]]).mirror(a["normal"], a["origin"]), dict(normal=N, origin=O)),
        "Point(position)": (lambda a: Point(a["position"]).translate([1, 1, 1]).scale(2, [0, 0, 1]).mirror([0, 0, 1], [0, 0, 3]), dict(position=P)),
        "Array(points)": (lambda a: Array(a["points"]).translate([1, 1, 1]).scale(2, [0, 0, 1]).mirror([0, 0, 1], [0, 0, 3]), dict(points=[P, O])),
    }
    rows = []
    for name, (fn, argspec) in calls.items():
        for form in HELPER_FORMS:
            args = {k: mk(form, v) for k, v in argspec.items()}
            keep = {k: (v.copy() if hasattr(v, "copy") and not isinstance(v, list) else json.loads(json.dumps(v))) for k, v in args.items()}
            status = "ok"
            try:
                with warnings.catch_warnings():
                    warnings.simplefilter("ignore")
                    fn(args)
            except Exception as ex:
                status = "raised " + type(ex).__name__
            for k in argspec:
                rows.append((name, k, form, not same(args[k], keep[k]), status))
    return rows


def tab_class_graphs(rng):
    """One live object per catalogue class: its heap graph, and the graph of its copy (joint id numbering)."""
    rows = []
    for cl in ALL_CLASSES:
        spec = gen_entity_spec(rng, cl)
        with warnings.catch_warnings():
            warnings.simplefilter("ignore")
            try:
                e = mk_entity(spec)
            except Exception as ex:
                raise GenError("cannot build %s: %s: %s" % (cl, type(ex).__name__, ex))
            g = Graph()
            t0 = extract(e, g)
            c = e.copy()
            t1 = extract(c, g)
        rows.append((cl, spec, t0, t1))
    return rows


def emit_tables(over, writes, graphs):
    o = ["(* GENERATED by harness/props/C09.py from the working tree of /repo -- do not edit *)",
         "From Coq Require Import List String Bool.\nFrom CB Require Import Model.C09_Transform.\nImport ListNotations.\nOpen Scope string_scope.\n",
         "(* ElementBase subclass, transformation methods it defines itself *)",
         "Definition tab_overrides : list (string * list string) :=\n  [" + ";\n   ".join(
             '("%s", [%s])' % (c, "; ".join('"%s"' % m for m in ms)) for c, ms in over) + "].",
         "(* helper, argument, container form, argument modified by the call? *)",
         "Definition tab_helper_writes : list (string * string * string * bool) :=\n  [" + ";\n   ".join(
             '("%s", "%s", "%s", %s)' % (h, a, f, "true" if w else "false") for (h, a, f, w, _s) in writes) + "].",
         "(* catalogue class, heap graph of a live object, heap graph of its copy() (same id numbering) *)",
         "Definition tab_class_graphs : list (string * node * node) :=\n  [" + ";\n   ".join(
             '("%s", %s, %s)' % (cl, coq_node(t0), coq_node(t1)) for (cl, _s, t0, t1) in graphs) + "]."]
    return "\n".join(o) + "\n"


# ------------------------------------------------------------------------------------------------
# direct oracle on whole cases


def normalise_labels(obs):
    """geometry labels carry id(); rename them in order of first appearance"""
    s = json.dumps(obs, sort_keys=True)
    seen = {}

    def rep(m):
        seen.setdefault(m.group(0), "sphere_#%d" % len(seen))
        return seen[m.group(0)]
    return json.loads(re.sub(r"sphere_\d+", rep, s))


def check_transform_case(case):
    """case: dict(klass, spec, tlist, mode).  Returns None or a reason (direct oracle)."""
    spec, tlist, mode = case["spec"], case["tlist"], case["mode"]
    try:
        e0 = mk_entity(spec)
        obs0 = normalise_labels(observe(e0, spec[0]))
    except Exception as ex:
        return "build-error: %s: %s" % (type(ex).__name__, str(ex)[:150])
    try:
        e1 = mk_entity(spec)
        amap = transform_entity(e1, tlist, mode)
        obs1 = normalise_labels(observe(e1, spec[0]))
    except Exception as ex:
        return "exception: %s: %s" % (type(ex).__name__, str(ex)[:150])
    why = oracle_transform(obs0, obs1, amap)
    if why is None and "faces_bt" in obs0:
        n_mirror = sum(1 for t in tlist if t[0] == "mirror")
        why = oracle_face_order(obs0, obs1, amap, swapped=(mode == "method" and n_mirror % 2 == 1))
    if mode == "list":
        # entity.transform([t1, t2, ...]) must be entity.<t1>(...).<t2>(...) on ANY entity, own overrides included
        # (an operation mirrored through a list is not inverted: same geometry, side edges running the other way -
        # the comparison accepts an edge listed from its other end)
        np = _np()
        try:
            e2 = mk_entity(spec)
            transform_entity(e2, tlist, "method")
            obs2 = normalise_labels(observe(e2, spec[0]))
        except Exception as ex:
            return "exception: %s: %s" % (type(ex).__name__, str(ex)[:150])
        diff = oracle_transform(obs2, obs1, (np.eye(3), np.zeros(3), 1.0, 1.0, np.eye(3)))
        if diff:
            return "list-differs: transform([...]) is not the sequence of method calls (what follows compares the result of the list with the result of the method calls, which stands for the `original`, under the identity map): %s%s" % (
                diff, " [against the affine image of the original: %s]" % why if why else "")
    return why


def _ops_faces_points(e):
    """operations, faces and points reachable from an entity (for the addressing-independence check of copies)"""
    from classy_blocks.construct.flat.face import Face
    from classy_blocks.construct.operations.operation import Operation
    from classy_blocks.construct.point import Point
    ops, faces, points = [], [], []
    if isinstance(e, Operation):
        ops = [e]
    elif hasattr(e, "operations"):
        try:
            ops = list(e.operations)
        except Exception:  # noqa: BLE001
            ops = []
    if isinstance(e, Face):
        faces = [e]
    elif hasattr(e, "faces") and not ops:
        try:
            faces = list(e.faces)
        except Exception:  # noqa: BLE001
            faces = []
    for o in ops:
        faces += [o.bottom_face, o.top_face]
    if isinstance(e, Point):
        points = [e]
    for f_ in faces:
        points += list(f_.points)
    return ops, faces, points


def addressing_snapshot(e):
    """patches, projections of sides / faces / edges / points as the entity holds them (what assembly will read)"""
    ops, faces, points = _ops_faces_points(e)
    snap = []
    for o in ops:
        snap.append(("patches", sorted((str(k), str(v)) for k, v in o.patch_names.items())))
        snap.append(("side_projects", [None if x is None else str(x) for x in o.side_projects]))
        snap.append(("side_edges", [(ed.kind, sorted(map(str, getattr(ed, "label", []) or []))) for ed in o.side_edges]))
    for f_ in faces:
        snap.append(("face", None if f_.projected_to is None else str(f_.projected_to), None if f_.patch_name is None else str(f_.patch_name),
                     [(ed.kind, sorted(map(str, getattr(ed, "label", []) or []))) for ed in f_.edges]))
    for p_ in points:
        snap.append(("point", sorted(map(str, p_.projected_to))))
    return snap


def mutate_addressing(c):
    """address everything addressable on the copy"""
    ops, faces, points = _ops_faces_points(c)
    for o in ops:
        for side in ("bottom", "top", "left", "right", "front", "back"):
            o.set_patch(side, "zz_copy_" + side)
        o.project_side("front", "gz_copy", edges=True, points=True)
        o.project_side("left", "gz_copy2", edges=False, points=False)
        o.project_corner(6, "gz_copy")
    if not ops:
        for f_ in faces:
            f_.project("gz_copy", edges=True, points=True)
        if not faces:
            for p_ in points:
                p_.project("gz_copy")


def check_copy_case(case):
    """copy() is equivalent, independent, and writes the same mesh."""
    np = _np()
    spec = case["spec"]
    try:
        e = mk_entity(spec)
        obs_e = observe(e, spec[0])
        c = e.copy()
        obs_c = observe(c, spec[0])
    except Exception as ex:
        return "exception: %s: %s" % (type(ex).__name__, str(ex)[:150])
    I = (np.eye(3), np.zeros(3), 1.0, 1.0, np.eye(3))
    if "used" in obs_c:
        missing = [l for l in obs_c["used"] if l is not None and l != "geo" and l not in obs_c["defined"]]
        if missing:
            return "geometry-undefined: the copy is projected to %r but defines %r" % (missing, obs_c["defined"])
    why = oracle_transform(normalise_labels(obs_e), normalise_labels(obs_c), I)
    if why:
        return "copy-differs: " + why
    if "sections" in obs_c and normalise_labels(obs_e["sections"]) != normalise_labels(obs_c["sections"]):
        return "copy-differs: the copy writes a different mesh"
    # independence: leaves disjoint, transforming the copy leaves the original alone
    g = Graph()
    with warnings.catch_warnings():
        warnings.simplefilter("ignore")
        la = set(tree_leaves(extract(e, g)))
        lb = set(tree_leaves(extract(c, g)))
        if la & lb:
            return "copy-shares: %d leaf objects are shared between original and copy" % len(la & lb)
        try:
            amap = transform_entity(c, case.get("tlist", [["translate", [1.0, 2.0, 3.0]], ["mirror", [1.0, 1.0, 0.0], [0.0, 0.0, 2.0]]]), "method")
            obs_c2 = observe(c, spec[0])
            obs_e2 = observe(e, spec[0])
        except Exception as ex:
            return "exception: %s: %s" % (type(ex).__name__, str(ex)[:150])
    why = oracle_transform(normalise_labels(obs_e), normalise_labels(obs_e2), I)
    if why:
        return "copy-shares: transforming the copy changed the original: " + why
    # independence of the addressing state: patches and projections given to the copy stay with the copy
    try:
        with warnings.catch_warnings():
            warnings.simplefilter("ignore")
            fresh = mk_entity(spec)
            c3 = fresh.copy()
            before = addressing_snapshot(fresh)
            mutate_addressing(c3)
            after = addressing_snapshot(fresh)
    except Exception as ex:
        return "exception: %s: %s" % (type(ex).__name__, str(ex)[:150])
    if before != after:
        diff = [(a, b) for a, b in zip(before, after) if a != b][:2]
        return "copy-shares: patches/projections assigned to the copy appear on the original: %r" % (diff,)
    why = oracle_transform(normalise_labels(obs_e), normalise_labels(obs_c2), amap)
    if why and not why.startswith("geometry-undefined"):
        return "copy-aliased: the transformed copy is not the image of the original: " + why
    # the other direction: the original has been evaluated (whatever it caches is valid), a copy is taken and left alone,
    # the original is transformed and evaluated again - the copy still is what it was
    try:
        with warnings.catch_warnings():
            warnings.simplefilter("ignore")
            e4 = mk_entity(spec)
            observe(e4, spec[0])
            c4 = e4.copy()
            transform_entity(e4, [["translate", [-2.0, 1.0, 0.5]], ["rotate", 0.75, [1.0, 2.0, -1.0], [0.5, 0.0, 1.0]]], "method")
            observe(e4, spec[0])
            obs_c4 = observe(c4, spec[0])
    except Exception as ex:
        return "exception: %s: %s" % (type(ex).__name__, str(ex)[:150])
    why = oracle_transform(normalise_labels(obs_e), normalise_labels(obs_c4), I)
    if why and not why.startswith("geometry-undefined"):
        return "copy-shares: transforming (and evaluating) the original changed an untouched copy: " + why
    return None


def shrink_transform_case(case):
    """smallest sub-list (and mode) that still fails"""
    tl = case["tlist"]
    best = case
    for n in (1, 2):
        if n >= len(tl):
            break
        import itertools
        for idx in itertools.combinations(range(len(tl)), n):
            c = dict(case, tlist=[tl[i] for i in idx])
            why = check_transform_case(c)
            if why:
                c["why"] = why
                return c
    return best


def oracle_tables(over, writes, graphs):
    fails = []
    for (h, a, f, w, status) in writes:
        if w:
            fails.append(dict(kind="helper", helper=h, argument=a, form=f, why="argument-modified: %s changes the %s passed as `%s`" % (h, f, a)))
    for (cl, spec, t0, t1) in graphs:
        l0 = tree_leaves(t0)
        if len(set(l0)) != len(l0):
            case = dict(kind="transform", klass=cl, spec=spec, tlist=[["translate", [1.0, 0.5, -2.0]]], mode="method")
            why = check_transform_case(case)
            fails.append(dict(case, why=why or "alias: %d leaf objects are reachable twice along parts" % (len(l0) - len(set(l0)))))
        if set(l0) & set(tree_leaves(t1)):
            fails.append(dict(kind="copy", klass=cl, spec=spec, why=check_copy_case(dict(spec=spec)) or "copy-shares: leaves shared"))
    return fails


def _oracle_job(job):
    """one direct-oracle evaluation (run in a forked worker); job = (kind, case)"""
    kind, case = job
    try:
        if kind == "transform":
            why = check_transform_case(case)
            if why:
                return dict(shrink_transform_case(dict(case, why=why)))
            return None
        why = check_copy_case(case)
        return dict(case, why=why) if why else None
    except Exception as ex:  # pragma: no cover
        return dict(case, why="harness-exception: %s: %s" % (type(ex).__name__, str(ex)[:200]))


def run_oracle_jobs(jobs, workers=12):
    """The oracle cases are independent: evaluate them in forked workers (falls back to the serial loop)."""
    if len(jobs) < 8:
        return [_oracle_job(j) for j in jobs]
    try:
        import multiprocessing as mp
        from concurrent.futures import ProcessPoolExecutor
        with ProcessPoolExecutor(max_workers=workers, mp_context=mp.get_context("fork")) as ex:
            return list(ex.map(_oracle_job, jobs, chunksize=4))
    except Exception:  # pragma: no cover
        return [_oracle_job(j) for j in jobs]


# ------------------------------------------------------------------------------------------------
# the source itself: what harness/translate_np.py translates for this property (python ast -> Gallina, fail closed)

SRC_MODULES = {
    "classy_blocks.util.functions": "util/functions.py",
    "classy_blocks.construct.point": "construct/point.py",
    "classy_blocks.construct.array": "construct/array.py",
}
_F, _P, _A = list(SRC_MODULES)
_POINT = {"position": "vec"}  # a Point is its attribute .position
_ARRAY = {"points": "vec"}    # an Array is read ROW-WISE: .points stands for one row of the (N, 3) array (numpy broadcasting)
# (module, class | None, function, {parameter: type}, attributes of self, result attribute, Gallina name); callees first
SRC_ENTRIES = [
    (_F, None, "norm", {"matrix": "vec"}, None, None, "src_norm"),
    (_F, None, "unit_vector", {"vect": "vec"}, None, None, "src_unit_vector"),
    (_F, None, "scale", {"point": "vec", "ratio": "real", "origin": "vec"}, None, None, "src_scale"),
    (_F, None, "mirror_matrix", {"normal": "vec"}, None, None, "src_mirror_matrix"),
    (_F, None, "mirror", {"point": "vec", "normal": "vec", "origin": "vec"}, None, None, "src_mirror"),
    (_P, "Point", "translate", {"displacement": "vec"}, _POINT, "position", "src_Point_translate"),
    (_P, "Point", "scale", {"ratio": "real", "origin": "vec"}, _POINT, "position", "src_Point_scale"),
    (_P, "Point", "scale", {"ratio": "real", "origin": None}, _POINT, "position", "src_Point_scale_default"),
    (_P, "Point", "mirror", {"normal": "vec", "origin": "vec"}, _POINT, "position", "src_Point_mirror"),
    (_P, "Point", "mirror", {"normal": "vec", "origin": None}, _POINT, "position", "src_Point_mirror_default"),
    (_A, "Array", "translate", {"displacement": "vec"}, _ARRAY, "points", "src_Array_translate"),
    (_A, "Array", "scale", {"ratio": "real", "origin": "vec"}, _ARRAY, "points", "src_Array_scale"),
    (_A, "Array", "scale", {"ratio": "real", "origin": None}, _ARRAY, "points", "src_Array_scale_default"),
    (_A, "Array", "mirror", {"normal": "vec", "origin": "vec"}, _ARRAY, "points", "src_Array_mirror"),
    (_A, "Array", "mirror", {"normal": "vec", "origin": None}, _ARRAY, "points", "src_Array_mirror_default"),
]


def translate_source():
    """-> (text of Gen/C09/Source.v, the translator)"""
    root = os.path.join(core.REPO, "src", "classy_blocks")
    tr = translate_np.Translator({m: os.path.join(root, rel) for m, rel in SRC_MODULES.items()})
    for (m, cls, f, sig, attrs, result, coq) in SRC_ENTRIES:
        if cls is None:
            got = tr.entry(m, f, sig, coq=coq)
        else:
            got = tr.entry_method(m, cls, f, sig, attrs=attrs, result=result, coq=coq)
        if got != coq:
            raise GenError("%s.%s was translated as %s, not as the entry %s" % (cls or m, f, got, coq))
    text = tr.source_text("C09: " + ", ".join("%s.%s" % (cls or m.split(".")[-1], f) for (m, cls, f, _s, _a, _r, _c) in SRC_ENTRIES)
                          + " of the working tree of /repo.")
    return text, tr


class C09(Prop):
    pid = "C09"
    title = "Transforming or copying an entity equals transforming its output geometry"
    prebuilt = ["Base/Vec3.v", "Proofs/SourceEqTac.v", "Model/C09_Transform.v", "Proofs/C09_Leaves.v", "Proofs/C09_Commute.v", "Proofs/C09_Equivariance.v",
                "Proofs/C09_Traverse.v", "Proofs/C09_Heap.v", "Proofs/C09_ArcLength.v", "Proofs/C09_Main.v", "Proofs/C09_Output.v",
                "Model/C09_Sphere.v", "Proofs/C09_Sphere.v"]
    gen_dependent_files = ["Gen/C09/Tables.v", "Gen/C09/Source.v", "Proofs/C09_SourceEq.v"]
    property_files = ["Properties/C09.v"]
    trusted = [
        "the numpy-vector AST translator harness/translate_np.py (functions.py: norm, unit_vector, scale, mirror_matrix, mirror; "
        "point.py: Point.translate / scale / mirror; array.py: Array.translate / scale / mirror, each also for origin=None "
        "-> Gen/C09/Source.v; Proofs/C09_SourceEq.v proves translated source = leaf_point / leaf_row of Model/C09_Transform.v for "
        "all arguments on every run, theorem C09_source_is_model; mirror: for every non-zero normal = valid (TMirror n o)). Its "
        "fragment: " + translate_np.FRAGMENT + ".  Its reading of python / numpy is what is trusted: floats as reals; unit_vector "
        "of the zero normal (numpy: nan and a RuntimeWarning) as 'no value' (None); a Point is its .position; a method ending "
        "with `return self` is read as the value of the declared attribute on return (self.position += d and self.position = e "
        "re-bind it; aliasing of arrays is not modelled); an Array is read ROW-WISE (self.points = one row of the (N, 3) array; "
        "numpy broadcasting applies + d, origin + (rows - origin) * ratio and np.dot(rows - origin, M.T) + origin to every row "
        "independently); a 3 x 3 array literal is the triple of its rows, v.dot(M) / np.dot(v, M) the row vector times the "
        "matrix, M.T the transpose; `origin is None` is decided by the declared kind of the argument (origin=None is a "
        "specialisation of its own); run-time tie: the functions / methods the library calls are the parsed ones (file, first "
        "line) and np / f / DTYPE are the objects assumed",
        "hand-written leaf models of Model/C09_Transform.v: for translate / scale / mirror of Point and Array and functions.scale / "
        "mirror_matrix / mirror no longer trusted (proved equal to the translated source); for rotate (Point.rotate, Array.rotate, "
        "functions.rotate / rotation_matrix: scipy.linalg.expm, outside the translator's fragment) still tied by sampled, "
        "kernel-decided numeric agreement only (interval, 1e-9)",
        "scipy.linalg.expm of a skew matrix is modelled by Rodrigues' formula (validated by the interval correspondence of every rotate leaf call)",
        "numpy element-wise arithmetic modelled as real arithmetic (agreement checked to 1e-9 by `interval`; for the translated leaves "
        "this now validates the translator's reading)",
        "heap-graph extraction: Point/Array/Angle/Operation are recognised by isinstance, every other ElementBase through `parts`; "
        "leaf calls are observed by wrapping Point.* and Array.* (writes that bypass these methods - CircleCurve.mirror's flip of `atop`, "
        "the row reversal of Spline.reverse, the scalar sides/widths scaled by SplineRound.scale - are invisible to the call log and "
        "covered by the direct oracle only, for method calls and for transformation lists alike)",
        "tabulation: class graphs and helper write-sets are measured on one live object / call per class and container form",
        "traversal and leaf correspondences are sampled (random entities and transformations), not exhaustive",
        "not modelled, compared by the direct oracle only: `origin` arcs with a non-equidistant centre (adjust branch), interpolated "
        "curves (scipy splines), CircleCurve points, get_closest_param (scipy minimize, 1e-4), shear",
    ]
    partial = []  # no *_partial theorem is left; what the model does not cover is listed in `trusted`

    # -- S1 ------------------------------------------------------------------------------------
    def generate(self, ctx):
        import random
        over = tab_overrides()
        writes = tab_helper_writes()
        graphs = tab_class_graphs(random.Random(12345))
        ctx.write_gen("Tables", emit_tables(over, writes, graphs))
        self._tables = (over, writes, graphs)
        # the source itself: python -> Gallina (fail closed), proved equal to the leaf models by Proofs/C09_SourceEq.v
        text, tr = translate_source()
        tr.tie_to_runtime()
        ctx.write_gen("Source", text)
        ctx.log("S1: leaf code translated: %d definitions (%s)" % (len(tr.summary), ", ".join(d["coq"] for d in tr.summary)))
        known = {"Point", "Array", "Angle", "Operation", "CircleCurve", "SplineRound", "QuarterSplineRing", "Face", "Sketch",
                 "EighthSphere", "Hemisphere"}
        self._unknown_overrides = [c for c, ms in over if ms and c not in known]

    # -- S3 ------------------------------------------------------------------------------------
    def correspond(self, ctx):
        import time
        T0 = time.time()
        res = CorrResult()
        rng = ctx.rng
        res.rule = ("[leaves translate / scale / mirror of Point and Array: the model is proved equal to the translated source for all "
                    "arguments (Proofs/C09_SourceEq.v); the samples of (N) validate the translator's reading (floats as reals, "
                    "row-wise Arrays) and remain the only tie of the rotate leaves] "
                    "(U) entity of a catalogue class x 1-3 transformations with explicit non-zero origins x {method, list}: leaf-call log "
                    "(object, given/zero-origin/negation) and heap graph afterwards against Model.run_kinds, by vm_compute; "
                    "(N) sampled leaf calls: value after the call against the real-valued leaf model, by interval (1e-9); "
                    "non-trivial = at least one leaf call; distinct by (spec, transformation list, mode). "
                    "A list is modelled as the sequence of method calls on the entity itself (list_visits = method_visits; a "
                    "top-level operation is mirrored but not inverted); lists on bare Angle edge data, bare CircleCurve (Mirror), "
                    "spline-round sketches (Scaling), leaves and operations are generated on every run. "
                    "Oracle cases additionally use None and zero origins and compare every list case with the method calls. "
                    "(S) EighthSphere/Hemisphere under 1..3 of translate/rotate/scale/mirror/copy (method or list): the shape's "
                    "searchableSphere has the transformed centre and radius and the corners of the projected sides lie on it.")
        if getattr(self, "_unknown_overrides", None):
            res.notes.append("classes overriding a transformation method that the model does not special-case "
                             "(behaviour still compared through the call log): %s" % ", ".join(self._unknown_overrides))
        n_trav = ctx.n(260, 2000)
        n_oracle = ctx.n(240, 3000)
        n_leaf = ctx.n(160, 6000)
        leaf_cap = ctx.n(12, 150)  # goals per (leaf class, method, origin handling)
        classes = list(ALL_CLASSES)
        # (U) traversal cases
        trav = []
        leaf_pool = []
        forced = [f for f in FORCED_LIST_CASES if f[0] in classes]
        if len(forced) < 20 or not any("Spline" in f[0] for f in forced):
            raise GenError("the catalogue lost the entities with own transformation overrides (%d forced list cases)" % len(forced))
        for i in range(-len(forced), n_trav):
            if i < 0:
                cl, kinds = forced[i + len(forced)]
                spec = gen_entity_spec(rng, cl)
                tl = [gen_tf_explicit(rng, k) for k in kinds]
                mode = "list"
                res.count("forced-list:" + cl)
            else:
                cl = classes[i % len(classes)] if i < 2 * len(classes) else rng.choice(classes)
                spec = gen_entity_spec(rng, cl)
                tl = [gen_tf_explicit(rng) for _ in range(rng.choice([1, 1, 2, 3]))]
                if i < len(classes):
                    tl = [gen_tf_explicit(rng, "mirror")] + tl[:1]
                mode = "method" if (i % 2 == 0) else "list"
            try:
                t0, codes, t1, events, _g = run_traversal_case(spec, tl, mode)
            except GenError:
                raise
            except Exception as ex:
                res.oracle_failures.append(dict(kind="transform", klass=cl, spec=spec, tlist=tl, mode=mode,
                                                why="exception: %s: %s" % (type(ex).__name__, str(ex)[:150])))
                continue
            trav.append(dict(klass=cl, spec=spec, tlist=tl, mode=mode, t0=t0, codes=codes, t1=t1))
            res.evaluations += 1
            res.count("traversal:" + cl.split(":")[0])
            res.count("mode=" + mode)
            for t in tl:
                res.count("tf=" + t[0])
            if codes:
                res.distinct.add(json.dumps([spec, tl, mode]))
            for ev in events:
                if ev["code"] != 9:
                    leaf_pool.append(ev)
                    res.count("leafop=%d" % ev["code"])
        res.traces = len(trav)
        ctx.log("S3: %d traversal cases run in %.1fs" % (len(trav), time.time() - T0))
        shards = []
        per = ctx.n(65, 250)
        for k in range(0, len(trav), per):
            chunk = trav[k:k + per]
            body = ["From Coq Require Import List Bool Arith.", "From CB Require Import Model.C09_Transform.", "Import ListNotations.",
                    "Definition cases : list (nat * (bool * list nat * node) * (list (nat * nat) * node)) := ["]
            body.append(";\n".join("(%d, (%s, [%s], %s), ([%s], %s))" % (
                k + j, "true" if c["mode"] == "method" else "false", "; ".join(str(KIND_CODE[t[0]]) for t in c["tlist"]),
                coq_node(c["t0"]), "; ".join("(%d, %d)" % x for x in c["codes"]), coq_node(c["t1"])) for j, c in enumerate(chunk)))
            body.append("].")
            body.append("Definition agree (c : nat * (bool * list nat * node) * (list (nat * nat) * node)) : bool :=\n"
                        "  let '(_, (m, ks, n), (codes, n1)) := c in\n"
                        "  let '(vs, n') := run_kinds m (map kind_code ks) n in codes_eqb (visit_codes vs) codes && node_eqb n' n1.")
            body.append("Eval vm_compute in (map (fun c => fst (fst c)) (filter (fun c => negb (agree c)) cases)).")
            shards.append(("trav_%d" % (k // per), "\n".join(body) + "\n"))
        # (N) leaf goals: systematic coverage of (class of leaf, method, op) first, then random
        rng.shuffle(leaf_pool)
        chosen, seen = [], {}
        for ev in leaf_pool:
            key = (ev["is_array"], ev["m"], ev["code"])
            if seen.get(key, 0) < leaf_cap:
                seen[key] = seen.get(key, 0) + 1
                chosen.append(ev)
            if len(chosen) >= n_leaf:
                break
        # spread the goals over the files by cost (a rotate goal costs about five times a translate goal)
        n_files = max(1, min(ctx.n(12, 16), (len(chosen) + 7) // 8))
        files = [[] for _ in range(n_files)]
        load = [0.0] * n_files
        order = sorted(range(len(chosen)), key=lambda i: -{"rotate": 5, "mirror": 2}.get(chosen[i]["m"], 1))
        for i in order:
            j = load.index(min(load))
            files[j].append(i)
            load[j] += {"rotate": 5, "mirror": 2}.get(chosen[i]["m"], 1)
        for j, idxs in enumerate(files):
            body = ["From Coq Require Import Reals List.", "From Interval Require Import Tactic.",
                    "From CB Require Import Base.Vec3 Model.C09_Transform.", "Open Scope R_scope."]
            for i in idxs:
                ev = chosen[i]
                row = 0 if not ev["is_array"] else rng.randrange(len(ev["before"]))
                ev["row"] = row
                body.append(leaf_goal(i, ev, row))
            shards.append(("leaf_%d" % j, "\n".join(body) + "\n"))
        for ev in chosen:
            res.evaluations += 1
            res.count("leaf:%s.%s" % ("Array" if ev["is_array"] else "Point", ev["m"]))
            res.distinct.add(json.dumps([ev["m"], ev["args"], [float(x) for x in _np().ravel(ev["before"])][:3]]))
        res.samples = [dict(klass=c["klass"], mode=c["mode"], tlist=c["tlist"], leaf_calls=c["codes"][:12]) for c in trav[:3]]
        T1 = time.time()
        outs = core.run_cases_parallel(ctx, shards)
        ctx.log("S3: %d Coq case files in %.1fs" % (len(shards), time.time() - T1))
        T1 = time.time()
        ok_ids, bad_ids = set(), set()
        for (name, rc, so, se) in outs:
            if rc != 0:
                res.error = "case file %s failed to compile: %s" % (name, se[-800:])
                return res
            if name.startswith("trav_"):
                m = re.search(r"=\s*\[(.*?)\]\s*:\s*list nat", so, flags=re.S)
                if not m:
                    res.error = "cannot parse the output of %s: %r" % (name, so[:300])
                    return res
                for x in [y for y in m.group(1).replace("\n", " ").split(";") if y.strip()]:
                    c = trav[int(x)]
                    res.mismatches.append(dict(kind="traversal", klass=c["klass"], spec=c["spec"], tlist=c["tlist"], mode=c["mode"],
                                               impl_calls=c["codes"][:40]))
            else:
                for m in re.finditer(r"^(OK|MISMATCH) (\d+)", so, flags=re.M):
                    (ok_ids if m.group(1) == "OK" else bad_ids).add(int(m.group(2)))
        if len(ok_ids) + len(bad_ids) != len(chosen):
            res.error = "%d leaf goals printed no verdict" % (len(chosen) - len(ok_ids) - len(bad_ids))
            return res
        for i in sorted(bad_ids):
            ev = chosen[i]
            res.mismatches.append(dict(kind="leaf", leaf="%s.%s" % ("Array" if ev["is_array"] else "Point", ev["m"]), args=ev["args"],
                                       before=[float(x) for x in _np().ravel(ev["before"])],
                                       after=[float(x) for x in _np().ravel(ev["after"])], op=ev["code"]))
        # direct oracle: transformation cases with all kinds of origins, copy cases, tables
        jobs = []
        for i in range(-len(forced), n_oracle):
            if i < 0:
                cl, kinds = forced[i + len(forced)]
                # default (None) origins wherever the transformation has one for every second forced case
                case = dict(kind="transform", klass=cl, spec=gen_entity_spec(rng, cl), mode="list",
                            tlist=[gen_tf(rng, k, none_origin_p=(0.5 if i % 2 else 0.0)) for k in kinds])
                res.count("oracle-forced-list:" + cl)
            else:
                cl = classes[i % len(classes)] if i < 2 * len(classes) else rng.choice(classes)
                spec = gen_entity_spec(rng, cl)
                case = dict(kind="transform", klass=cl, spec=spec, tlist=gen_tlist(rng), mode=rng.choice(["method", "list"]))
                if i < len(classes):
                    case["tlist"] = [gen_tf(rng, "mirror")]
            jobs.append(("transform", case))
            res.evaluations += 1
            res.count("oracle:" + cl.split(":")[0])
            if any(t[0] != "translate" and t[-1] is None for t in case["tlist"]):
                res.boundary += 1
        # rotate / scale about the DEFAULT origin (origin=None: the entity's own centre, which some entities compute from the very
        # data that is being transformed) on every curve class, bare and inside edge data, by method call and by list
        k = 0
        for cl in classes:
            if not (cl.startswith("curve:") or cl.startswith("edgedata:curve:") or cl in ("edgedata:spline", "edgedata:polyline")):
                continue
            for kind in ("rotate", "scale"):
                k += 1
                case = dict(kind="transform", klass=cl, spec=gen_entity_spec(rng, cl), mode=("method" if k % 2 else "list"),
                            tlist=[gen_tf(rng, kind, zero_origin_p=0.0, none_origin_p=1.0)])
                jobs.append(("transform", case))
                res.evaluations += 1
                res.boundary += 1
                res.count("oracle-default-origin:" + cl)
        for cl in classes:
            jobs.append(("copy", dict(kind="copy", klass=cl, spec=gen_entity_spec(rng, cl))))
            res.evaluations += 1
            res.count("oracle:copy")
        for r in run_oracle_jobs(jobs):
            if r:
                res.oracle_failures.append(r)
        # (S) the searchableSphere of sphere shapes under transformation (direct oracle only)
        res.oracle_failures += self.sphere_stream(ctx, res, ctx.n(60, 1200))
        if getattr(self, "_tables", None):
            res.oracle_failures += oracle_tables(*self._tables)
        ctx.log("S3: oracle cases in %.1fs" % (time.time() - T1))
        return res

    def sphere_stream(self, ctx, res, n):
        from props import C09_sphere
        out, seen = [], set()
        import glob
        corpus = []
        for fn in sorted(glob.glob(os.path.join(core.VERIF, "corpus", "C09", "sphere-*.json"))):
            with open(fn) as fh:
                corpus.append(json.load(fh)["case"])
        for k in range(n + len(corpus)):
            c = corpus[k] if k < len(corpus) else C09_sphere.gen_case(ctx.rng)
            res.evaluations += 1
            res.count("sphere-geometry:%s:%s" % (c["cls"], c["mode"]))
            res.distinct.add("sphere:" + json.dumps(c, sort_keys=True))
            f = C09_sphere.check(c)
            if f and f["sig"] not in seen:
                seen.add(f["sig"])
                small = C09_sphere.shrink(c, f["sig"])
                out.append(C09_sphere.check(small) or f)
        return out

    # -- S4 ------------------------------------------------------------------------------------
    def search(self, ctx, broken, corr):
        fails = []
        import random
        try:
            tabs = getattr(self, "_tables", None) or (tab_overrides(), tab_helper_writes(), tab_class_graphs(random.Random(12345)))
            fails += oracle_tables(*tabs)
        except Exception as ex:
            ctx.log("search: tabulation failed: %s" % ex)
        seen = set()
        for m in corr.mismatches:
            if m["kind"] == "traversal":
                key = (m["klass"], m["mode"], tuple(t[0] for t in m["tlist"]))
                if key in seen or len(seen) > 12:
                    continue
                seen.add(key)
                # the mismatching program itself, then the same entity under every single transformation kind
                cands = [dict(kind="transform", klass=m["klass"], spec=m["spec"], tlist=m["tlist"], mode=m["mode"])]
                for t in m["tlist"]:
                    cands.append(dict(kind="transform", klass=m["klass"], spec=m["spec"], tlist=[t], mode=m["mode"]))
                for c in cands:
                    why = check_transform_case(c)
                    if why:
                        fails.append(shrink_transform_case(dict(c, why=why)))
                        break
            elif m["kind"] == "leaf":
                r = self._leaf_replay(m)
                if r:
                    fails.append(r)
        if not fails:
            # seeded random search with the direct oracle
            rng = ctx.rng
            for i in range(ctx.n(400, 4000)):
                cl = rng.choice(ALL_CLASSES)
                case = dict(kind="transform", klass=cl, spec=gen_entity_spec(rng, cl), tlist=gen_tlist(rng), mode=rng.choice(["method", "list"]))
                why = check_transform_case(case)
                if why:
                    fails.append(shrink_transform_case(dict(case, why=why)))
                    if len(fails) >= 3:
                        break
        return fails

    def _leaf_replay(self, m):
        """A leaf call that disagrees with the model: state the failure on the implementation with the textbook map."""
        np = _np()
        from classy_blocks.construct.array import Array
        from classy_blocks.construct.point import Point
        cls, meth = m["leaf"].split(".")
        before = np.array(m["before"], dtype=float).reshape(-1, 3)
        t = {"translate": lambda a: ["translate", a[0]], "rotate": lambda a: ["rotate", a[0], a[1], a[2] or [0.0, 0.0, 0.0]],
             "scale": lambda a: ["scale", a[0], a[1] or [0.0, 0.0, 0.0]], "mirror": lambda a: ["mirror", a[0], a[1] or [0.0, 0.0, 0.0]]}[meth](m["args"])
        spec = ["point", before[0].tolist()] if cls == "Point" else ["array", before.tolist()]
        case = dict(kind="transform", klass=spec[0], spec=spec, tlist=[t], mode="method")
        why = check_transform_case(case)
        return dict(case, why=why) if why else None

    # -- S5 helpers ----------------------------------------------------------------------------
    def signature(self, rp):
        """Root cause where the replay itself shows it, otherwise (kind, class, transformation kinds, symptom)."""
        if rp.get("sig"):
            return rp["sig"]
        kind = rp.get("kind", "?")
        full = rp.get("why") or ""
        why = full.split(":")[0]
        klass = rp.get("klass", "")
        kinds = [t[0] for t in rp.get("tlist", [])]
        if kind == "copy" and why == "geometry-undefined" and klass.split(":")[-1] in ("EighthSphere", "Hemisphere"):
            # geometry_label is f"sphere_{id(self)}": the copy's faces keep the label of the original
            return "C09:copy:geometry-undefined:sphere"
        if kind == "transform" and rp.get("mode") == "list" and why == "list-differs":
            # entity.transform([...]) is not the sequence of method calls on that entity (before fix C09-9 the calls
            # went to the parts: Angle.*, CircleCurve.mirror, SplineRound.scale and the leaves' default origin bypassed)
            return "C09:transform-list:not-the-method-calls:%s" % klass
        if kind == "transform" and "scale" in kinds and why == "scalar-length" and klass.endswith("SplineRing"):
            # QuarterSplineRing.scale scales side_1/side_2 and then calls SplineRound.scale, which scales them again
            return "C09:scale:spline-ring-sides-scaled-twice"
        if kind == "transform" and "mirror" in kinds and why == "edge-shape" and "direction reversed" in full:
            # Operation.mirror swaps the faces (invert) but leaves the side edges running the old way
            return "C09:mirror:operation-side-edge-not-reversed"
        if kind == "helper":
            return "C09:helper:%s:%s" % (rp.get("helper"), rp.get("argument"))
        return "C09:%s:%s:%s:%s" % (kind, klass, "+".join(kinds), why)

    def replay(self, ctx, obj):
        kind = obj.get("kind")
        if kind == "transform":
            why = check_transform_case(obj)
            print("implementation: %s %s on %s" % (obj["mode"], obj["tlist"], obj["klass"]))
            print("oracle:", why or "ok")
        elif kind == "copy":
            print("oracle:", check_copy_case(obj) or "ok")
        elif kind == "sphere":
            from props import C09_sphere
            print("input:", json.dumps(obj["case"]))
            try:
                print("implementation:", json.dumps(C09_sphere.run_case(obj["case"])["geometry"]))
            except Exception as e:  # noqa: BLE001
                print("implementation raised", type(e).__name__, e)
            f = C09_sphere.check(obj["case"])
            print("oracle:", (f["why"], f["sig"]) if f else "ok")
        elif kind == "helper":
            rows = [r for r in tab_helper_writes() if r[0] == obj["helper"] and r[1] == obj["argument"] and r[2] == obj["form"]]
            print("implementation: modified =", [r[3] for r in rows])
            print("oracle:", "argument-modified" if any(r[3] for r in rows) else "ok")
        else:
            print("nothing to replay:", obj.get("kind"))
        return 0


PROP = C09()
