"""C14 - The block quality measure depends only on the cell's shape.

Tie (F): the side tables (HexCell/QuadCell.get_side_points), the corner pairs that
CellBase.get_edge_lengths really measures, the guard (value and the way it enters) and the q_scale
constants are obtained *behaviourally* on every run and written to coq/Gen/C14/Tables.v;
Properties/C14.v proves the finite facts the symbolic theorems need (inward side cycles, the 24/4
renumberings map sides to sides and the measured edge set onto itself) about those tables.
Tie (N): on random cells (alone and inside small grids) the value CellBase.quality returns is
compared inside Coq with the real-valued model of Model/C14_Quality.v by the verified interval
evaluator of Proofs/C14_IEval.v (vm_compute of a boolean whose soundness theorem says
|model - implementation| <= tol).
Direct oracle (independent of the model): rigid motion / uniform scaling / renumbering leave
CellBase.quality and GridBase.quality unchanged; stretching a cube never lowers the value and the
three directions agree.
"""
import itertools
import json
import math
import sys

import numpy as np

import core
from core import GenError, CorrResult, Prop

XYZ = [(0, 0, 0), (1, 0, 0), (1, 1, 0), (0, 1, 0), (0, 0, 1), (1, 0, 1), (1, 1, 1), (0, 1, 1)]
DEFAULT_W = dict(w_no=(1.25, 0.35, 0.8), w_in=(1.5, 0.25, 0.15), w_as=(3.0, 2.5, 3.0))
REF_EDGES = sorted((a, b) for a in range(8) for b in range(a + 1, 8)
                   if sum(1 for k in range(3) if XYZ[a][k] != XYZ[b][k]) == 1)

RTOL = 1e-9          # DESIGN 2.4: closed-form float arithmetic
RTOL_BOUNDARY = 1e-5  # a cosine within 1e-7 of +-1: arccos amplifies rounding by 1/sqrt(2 delta)
MARGIN = 1e-7


# ------------------------------------------------------------------------------------------------
# implementation access


def _grids():
    from classy_blocks.optimize.grid import HexGrid, QuadGrid
    return HexGrid, QuadGrid


def make_grid(kind, points, addressing):
    HexGrid, QuadGrid = _grids()
    cls = HexGrid if kind == "hex" else QuadGrid
    return cls(np.array(points, dtype=float), [list(a) for a in addressing])


def living_grid(kind, warm, points, addressing):
    """a grid that was created and evaluated on the positions `warm` and whose points were then moved, one by one through
    GridBase.update as the optimizer does, to `points`: quality is a function of where the points are now"""
    g = make_grid(kind, warm, addressing)
    try:
        float(g.quality)
        for c in g.cells:
            float(c.quality)
    except Exception:  # noqa: BLE001
        pass
    P = np.asarray(points, dtype=float)
    for i in range(len(P)):
        try:
            g.update(i, P[i])
        except Exception:  # noqa: BLE001  (an intermediate configuration may be degenerate)
            g.points[i] = P[i]
    return g


def impl_cell_quality(kind, points, addressing, ci=0, warm=None):
    """('ok', value) or ('error', class name)"""
    try:
        g = make_grid(kind, points, addressing) if warm is None else living_grid(kind, warm, points, addressing)
        v = float(g.cells[ci].quality)
    except Exception as e:  # the library turns numpy warnings into ValueError("Degenerate Cell")
        return ("error", type(e).__name__)
    if not math.isfinite(v):
        return ("error", "nonfinite")
    return ("ok", v)


def impl_grid_quality(kind, points, addressing, warm=None):
    try:
        g = make_grid(kind, points, addressing) if warm is None else living_grid(kind, warm, points, addressing)
        v = float(g.quality)
    except Exception as e:
        return ("error", type(e).__name__)
    if not math.isfinite(v):
        return ("error", "nonfinite")
    return ("ok", v)


# ------------------------------------------------------------------------------------------------
# symmetry groups (independent restatement; Properties/C14.v uses Base/Hex.v rot24)


def hex_rotations():
    """24 renumberings: new corner i is old corner p[i]."""
    out = []
    for perm in itertools.permutations(range(3)):
        for signs in itertools.product((1, -1), repeat=3):
            M = np.zeros((3, 3))
            for r in range(3):
                M[r, perm[r]] = signs[r]
            if round(float(np.linalg.det(M))) != 1:
                continue
            p = []
            for i in range(8):
                d = M @ (np.array(XYZ[i]) - 0.5) + 0.5
                p.append(XYZ.index(tuple(int(round(x)) for x in d)))
            out.append(p)
    assert len({tuple(p) for p in out}) == 24
    return out


HEX_ROT = hex_rotations()
QUAD_ROT = [[(i + k) % 4 for i in range(4)] for k in range(4)]


def rotations(kind):
    return HEX_ROT if kind == "hex" else QUAD_ROT


def renumber(addr, p):
    return [addr[p[i]] for i in range(len(addr))]


# ------------------------------------------------------------------------------------------------
# S1: behavioural tabulation

PROBE8 = np.array([[0.03, -0.02, 0.01], [1.31, 0.07, -0.05], [1.17, 1.43, 0.09], [-0.11, 1.19, 0.13],
                   [0.05, 0.12, 1.57], [1.29, -0.09, 1.71], [1.41, 1.37, 1.93], [0.08, 1.23, 1.49]])
PROBE4 = np.array([[0.03, -0.02, 0.01], [1.31, 0.07, 0.0], [1.17, 1.43, 0.02], [-0.11, 1.19, 0.0]])


def _row_index(points, row):
    d = np.linalg.norm(points - row, axis=1)
    j = int(np.argmin(d))
    if d[j] > 1e-12:
        raise GenError("a returned side point is no corner of the probe cell")
    return j


def tab_sides(kind):
    pts = PROBE8 if kind == "hex" else PROBE4
    n = len(pts)
    g = make_grid(kind, pts, [list(range(n))])
    cell = g.cells[0]
    nsides = len(cell.side_names)
    T = []
    for i in range(nsides):
        sp = np.asarray(cell.get_side_points(i), dtype=float)
        if sp.ndim != 2 or sp.shape[1] != 3:
            raise GenError("get_side_points returned shape %r" % (sp.shape,))
        T.append([_row_index(pts, r) for r in sp])
    return T


def tab_edges(kind):
    pts = PROBE8 if kind == "hex" else PROBE4
    n = len(pts)
    g = make_grid(kind, pts, [list(range(n))])
    lens = np.asarray(g.cells[0].get_edge_lengths(), dtype=float).ravel()
    dist = {}
    for a in range(n):
        for b in range(a + 1, n):
            dist[(a, b)] = float(np.linalg.norm(pts[b] - pts[a]))
    vals = sorted(dist.values())
    if min(vals[i + 1] - vals[i] for i in range(len(vals) - 1)) < 1e-6:
        raise GenError("probe cell has coinciding pairwise distances")
    E = []
    for L in lens:
        hit = [p for p, d in dist.items() if abs(d - L) < 1e-9]
        if len(hit) != 1:
            raise GenError("edge length %r is not the distance of a corner pair" % (L,))
        E.append(hit[0])
    return E


def py_cos_terms(kind, T, P, centres):
    """Cosines the quality sums over (no guard): used for conditioning margins only."""
    P = np.asarray(P, dtype=float)
    out = []
    if kind == "hex":
        c = P.mean(axis=0)
        for i, s in enumerate(T):
            sp = P[s]
            sc = sp.mean(axis=0)
            c2c = c - (centres[i] if centres[i] is not None else sc)
            c2cn = c2c / np.linalg.norm(c2c)
            for j in range(4):
                nrm = np.cross(sp[j] - sc, sp[(j + 1) % 4] - sc)
                out.append(float(np.dot(nrm, c2cn) / np.linalg.norm(nrm)))
                u = sp[(j + 1) % 4] - sp[j]
                v = sp[(j - 1) % 4] - sp[j]
                out.append(float(np.dot(u, v) / np.linalg.norm(u) / np.linalg.norm(v)))
    else:
        c = P.mean(axis=0)
        nrm = np.cross(P[1] - P[0], P[3] - P[0])
        for i in range(4):
            a, b, prev = P[i], P[(i + 1) % 4], P[(i - 1) % 4]
            sc = (a + b) / 2
            c2c = c - (centres[i] if centres[i] is not None else sc)
            n2 = np.cross(nrm, b - a)
            out.append(float(np.dot(n2, c2c) / np.linalg.norm(n2) / np.linalg.norm(c2c)))
            out.append(float(np.dot(b - a, prev - a) / np.linalg.norm(b - a) / np.linalg.norm(prev - a)))
    return out


def py_model(kind, K, T, E, P, centres):
    """Float re-statement of Model/C14_Quality.v (used to fit constants and in the search only)."""
    P = np.asarray(P, dtype=float)

    def guard(e, x):
        return x + e if K["add"] else max(x, e)

    def qs(w, v):
        b, e, f = w
        return f * b ** (e * v) - f

    def acosd(x):
        return 180.0 * math.acos(max(-1.0, min(1.0, x))) / math.pi

    q = 0.0
    c = P.mean(axis=0)
    if kind == "hex":
        for i, s in enumerate(T):
            sp = P[s]
            sc = sp.mean(axis=0)
            c2c = c - (centres[i] if centres[i] is not None else sc)
            c2cn = c2c / np.linalg.norm(c2c)
            for j in range(4):
                nrm = np.cross(sp[j] - sc, sp[(j + 1) % 4] - sc)
                nrm = nrm / guard(K["eps_a"], np.linalg.norm(nrm))
                q += qs(K["w_no"], acosd(float(np.dot(nrm, c2cn))))
                u = sp[(j + 1) % 4] - sp[j]
                v = sp[(j - 1) % 4] - sp[j]
                u = u / guard(K["eps_l"], np.linalg.norm(u))
                v = v / guard(K["eps_l"], np.linalg.norm(v))
                q += qs(K["w_in"], abs(acosd(float(np.dot(u, v))) - 90))
    else:
        nrm = np.cross(P[1] - P[0], P[3] - P[0])
        for i in range(4):
            a, b, prev = P[i], P[(i + 1) % 4], P[(i - 1) % 4]
            sc = (a + b) / 2
            c2c = c - (centres[i] if centres[i] is not None else sc)
            n2 = np.cross(nrm, b - a)
            q += qs(K["w_no"], acosd(float(np.dot(n2, c2c) / np.linalg.norm(n2) / np.linalg.norm(c2c))))
            q += qs(K["w_in"], abs(acosd(float(np.dot(b - a, prev - a) / np.linalg.norm(b - a) / np.linalg.norm(prev - a))) - 90))
    lens = [float(np.linalg.norm(P[b] - P[a])) for (a, b) in E]
    q += qs(K["w_as"], math.log10(max(lens) / guard(K["eps_l"], min(lens))))
    return q


def trace_weights():
    """The (base, exponent, factor) triples q_scale is called with, in call order, read from the
    running implementation (no source text involved).  None if no such calls are seen."""
    seen = []

    def prof(frame, event, arg):
        if event == "call" and frame.f_code.co_name == "q_scale":
            loc = frame.f_locals
            try:
                seen.append((float(loc["base"]), float(loc["exponent"]), float(loc["factor"])))
            except Exception:
                pass
        return None

    g = make_grid("hex", PROBE8, [list(range(8))])
    old = sys.getprofile()
    sys.setprofile(prof)
    try:
        _ = g.cells[0].quality
    finally:
        sys.setprofile(old)
    distinct = []
    for t in seen:
        if t not in distinct:
            distinct.append(t)
    if len(seen) != 13 or len(distinct) != 3:
        return None
    # order of first appearance: non-orthogonality, inner angles, aspect ratio
    return dict(w_no=distinct[0], w_in=distinct[1], w_as=distinct[2])


def fit_probe_cells():
    rng = np.random.RandomState(12345)
    cells = []
    for k in range(14):
        A = np.diag([1.0, 1.0 + 0.3 * k, 1.0 + 0.1 * (k % 3)])
        P = (np.array(XYZ, dtype=float) + rng.uniform(-0.04 * (1 + k % 5), 0.04 * (1 + k % 5), (8, 3))) @ A
        cells.append(P)
    return cells


def model_residuals(K, T, E, cells):
    res = []
    for P in cells:
        st, v = impl_cell_quality("hex", P, [list(range(8))])
        if st != "ok":
            raise GenError("probe cell is degenerate for the implementation")
        res.append(py_model("hex", K, T, E, P, [None] * len(T)) - v)
    return np.array(res)


def tab_consts(T, E):
    """Guard value, guard mode and weights, each validated behaviourally."""
    import classy_blocks.optimize.cell as cellmod
    eps = float(getattr(cellmod, "VSMALL", 0.0))
    if not (0.0 <= eps < 1e-2):
        raise GenError("unexpected guard value %r" % (eps,))
    cells = fit_probe_cells()
    # sizes at which the guard matters, so that mode and value are really determined
    small = [c * 3e-3 for c in cells[:4]]
    cands = []
    W = trace_weights()
    weights = [W] if W else []
    if DEFAULT_W not in weights:
        weights.append(DEFAULT_W)
    for w in weights:
        for add in (True, False):
            K = dict(add=add, eps_a=eps, eps_l=eps, **w)
            r = model_residuals(K, T, E, cells + small)
            cands.append((float(np.max(np.abs(r))), K))
    cands.sort(key=lambda x: x[0])
    best, K = cands[0]
    if best > 1e-6:
        K2 = fit_weights(K, T, E, cells)
        if K2 is not None:
            r = model_residuals(K2, T, E, cells + small)
            if float(np.max(np.abs(r))) < best:
                best, K = float(np.max(np.abs(r))), K2
    K["residual"] = best
    return K


def fit_weights(K0, T, E, cells):
    """Least-squares fit of the three q_scale triples (factor and exponent*ln(base); the base is kept)."""
    try:
        from scipy.optimize import least_squares
    except Exception:
        return None
    names = ("w_no", "w_in", "w_as")
    x0 = []
    for n in names:
        b, e, f = K0[n]
        x0 += [e, f]

    def unpack(x):
        K = dict(K0)
        for i, n in enumerate(names):
            K[n] = (K0[n][0], float(x[2 * i]), float(x[2 * i + 1]))
        return K

    best = None
    for add in (True, False):
        K0 = dict(K0, add=add)
        try:
            sol = least_squares(lambda x: model_residuals(unpack(x), T, E, cells), x0, xtol=1e-15, ftol=1e-15, gtol=1e-15)
        except Exception:
            continue
        K = unpack(sol.x)
        K["add"] = add
        c = float(np.max(np.abs(sol.fun)))
        if best is None or c < best[0]:
            best = (c, K)
    return best[1] if best else None


def zd(x):
    """(mantissa, exponent) of a binary64 as a Coq pair of Z."""
    x = float(x)
    if x == 0.0:
        return "(0, 0)%Z"
    m, e = math.frexp(x)
    mi = int(m * (1 << 53))
    ee = e - 53
    while mi % 2 == 0:
        mi //= 2
        ee += 1
    return "(%d, %d)%%Z" % (mi, ee)


def zvec(p):
    return "(%s, %s, %s)" % (zd(p[0]), zd(p[1]), zd(p[2]))


def nat_list(l):
    return "[" + "; ".join(str(int(x)) for x in l) + "]"


def emit_tables(hexT, hexE, quadS, quadE, K, extra_import=""):
    o = ["(* GENERATED by harness/props/C14.py from the working tree of /repo -- do not edit *)",
         "From Coq Require Import List ZArith Bool.",
         "From CB Require Import Base.Vec3 Model.C14_Quality%s." % extra_import,
         "Import ListNotations.",
         "(* corner lists returned by HexCell.get_side_points(i), i = 0..5 *)",
         "Definition hex_T : list (list nat) := [%s]." % "; ".join(nat_list(s) for s in hexT),
         "(* corner pairs whose distance CellBase.get_edge_lengths returns for a HexCell *)",
         "Definition hex_E : list (nat * nat) := [%s]." % "; ".join("(%d, %d)" % e for e in hexE),
         "(* corner lists returned by QuadCell.get_side_points(i), i = 0..3 *)",
         "Definition quad_S : list (list nat) := [%s]." % "; ".join(nat_list(s) for s in quadS),
         "Definition quad_E : list (nat * nat) := [%s]." % "; ".join("(%d, %d)" % e for e in quadE),
         "(* guard mode (true: norm + eps; false: max norm eps), guard value, q_scale triples *)",
         "Definition zk : zconsts := mkZ %s %s %s (%s, %s, %s) (%s, %s, %s) (%s, %s, %s)." % (
             ("true" if K["add"] else "false"), zd(K["eps_a"]), zd(K["eps_l"]),
             zd(K["w_no"][0]), zd(K["w_no"][1]), zd(K["w_no"][2]),
             zd(K["w_in"][0]), zd(K["w_in"][1]), zd(K["w_in"][2]),
             zd(K["w_as"][0]), zd(K["w_as"][1]), zd(K["w_as"][2]))]
    return "\n".join(o) + "\n"


# ------------------------------------------------------------------------------------------------
# case generation


def rand_rotation(rng):
    """Random proper rotation (QR of a Gaussian matrix, sign-fixed)."""
    A = np.array([[rng.gauss(0, 1) for _ in range(3)] for _ in range(3)])
    Q, R = np.linalg.qr(A)
    Q = Q @ np.diag(np.sign(np.diag(R)))
    if np.linalg.det(Q) < 0:
        Q[:, 0] = -Q[:, 0]
    return Q


def rand_hex(rng, far):
    """A convex hexahedron: the unit cube, corners perturbed, optionally sheared/stretched."""
    amp = rng.choice([0.0, 0.02, 0.08, 0.15]) if not far else rng.choice([0.05, 0.12, 0.2])
    P = np.array(XYZ, dtype=float) + np.array([[rng.uniform(-amp, amp) for _ in range(3)] for _ in range(8)])
    if far:
        A = np.diag([rng.uniform(0.4, 4.0) for _ in range(3)])
        A[0, 1] = rng.uniform(-0.4, 0.4)
        A[1, 2] = rng.uniform(-0.4, 0.4)
        P = P @ A.T
    return P


def rand_quad(rng, far):
    amp = rng.choice([0.0, 0.03, 0.1, 0.2]) if not far else rng.choice([0.05, 0.15, 0.25])
    P = np.array([[0, 0, 0], [1, 0, 0], [1, 1, 0], [0, 1, 0]], dtype=float)
    P[:, :2] += np.array([[rng.uniform(-amp, amp) for _ in range(2)] for _ in range(4)])
    if far:
        A = np.array([[rng.uniform(0.4, 4.0), rng.uniform(-0.5, 0.5), 0], [0, rng.uniform(0.4, 4.0), 0], [0, 0, 1]])
        P = P @ A.T
    return P


def lattice_hex(rng, n=(2, 2, 2), amp=0.1):
    """n0 x n1 x n2 cells on a perturbed lattice; returns points, addressing."""
    nx, ny, nz = n
    idx = {}
    pts = []
    for k in range(nz + 1):
        for j in range(ny + 1):
            for i in range(nx + 1):
                idx[(i, j, k)] = len(pts)
                pts.append([i + rng.uniform(-amp, amp), j + rng.uniform(-amp, amp), k + rng.uniform(-amp, amp)])
    addr = []
    for k in range(nz):
        for j in range(ny):
            for i in range(nx):
                addr.append([idx[(i + x, j + y, k + z)] for (x, y, z) in XYZ])
    return np.array(pts), addr


def lattice_quad(rng, n=(2, 2), amp=0.1):
    nx, ny = n
    idx = {}
    pts = []
    for j in range(ny + 1):
        for i in range(nx + 1):
            idx[(i, j)] = len(pts)
            pts.append([i + rng.uniform(-amp, amp), j + rng.uniform(-amp, amp), 0.0])
    addr = []
    for j in range(ny):
        for i in range(nx):
            addr.append([idx[(i, j)], idx[(i + 1, j)], idx[(i + 1, j + 1)], idx[(i, j + 1)]])
    return np.array(pts), addr


def place(rng, P):
    """Random rigid placement and size so that correspondence cases are not axis-aligned."""
    s = math.exp(rng.uniform(math.log(0.3), math.log(30)))
    if rng.random() < 0.25:
        s = math.exp(rng.uniform(math.log(0.01), math.log(0.3)))  # centimetre- and millimetre-sized blocks
    return (np.asarray(P) * s) @ rand_rotation(rng).T + np.array([rng.uniform(-5, 5) for _ in range(3)])


def neighbours_by_geometry(T, addressing, ci):
    """For every side slot of cell ci: the index of the other cell that contains the side's corners."""
    out = []
    me = addressing[ci]
    for s in T:
        want = {me[c] for c in s}
        hit = [j for j, a in enumerate(addressing) if j != ci and want <= set(a)]
        out.append(hit[0] if hit else None)
    return out


def centres_for(T, points, addressing, ci):
    nb = neighbours_by_geometry(T, addressing, ci)
    P = np.asarray(points, dtype=float)
    return [None if j is None else P[addressing[j]].mean(axis=0) for j in nb], nb


def tolerance(kind, T, points, addressing, ci, value):
    cen, _ = centres_for(T, points, addressing, ci)
    cs = py_cos_terms(kind, T, np.asarray(points)[addressing[ci]], cen)
    margin = min(1 - abs(c) for c in cs)
    boundary = margin < MARGIN
    return (RTOL_BOUNDARY if boundary else RTOL) * (1 + abs(value)), boundary


# ------------------------------------------------------------------------------------------------
# direct oracle


def same_outcome(a, b, tol):
    if a[0] != b[0]:
        return False
    if a[0] == "error":
        return True
    return abs(a[1] - b[1]) <= tol


def guard_inactive(kind, T, P, addressing, factor=20.0):
    """True when every length / triangle area the measure normalises by is `factor` times above the library's small-number
    guard, i.e. the geometry is of a size at which the value is a function of the shape alone"""
    from classy_blocks.util.constants import VSMALL
    lim = factor * VSMALL
    P = np.asarray(P, dtype=float)
    for cell in addressing:
        pts = P[list(cell)]
        for i in range(len(pts)):
            for j in range(i + 1, len(pts)):
                if np.linalg.norm(pts[i] - pts[j]) < lim:
                    return False
        faces = [list(s) for s in T] if kind == "hex" else [list(range(4))]
        for fc in faces:
            if len(fc) != 4:
                continue
            q = pts[fc]
            c = q.mean(axis=0)
            for j in range(4):
                if np.linalg.norm(np.cross(q[j] - c, q[(j + 1) % 4] - c)) < lim:
                    return False
                if np.linalg.norm(np.cross(q[(j + 1) % 4] - q[j], q[(j - 1) % 4] - q[j])) < lim:
                    return False
    return True


def min_edge(P, addressing):
    P = np.asarray(P, dtype=float)
    return min(float(np.linalg.norm(P[c[i]] - P[c[j]])) for c in addressing for i in range(len(c)) for j in range(i + 1, len(c)))


def oracle_invariance(kind, T, points, addressing, rng, n_rigid=2, n_scale=2, renumberings=None, grid=True):
    """Checks CellBase.quality of every cell (and GridBase.quality) under rigid motions, uniform
    scalings and renumberings of every cell.  Returns replay dicts."""
    fails = []
    P = np.asarray(points, dtype=float)
    addressing = [list(a) for a in addressing]
    base = [impl_cell_quality(kind, P, addressing, ci) for ci in range(len(addressing))]
    gbase = impl_grid_quality(kind, P, addressing) if grid else None
    tols = []
    for ci in range(len(addressing)):
        v = base[ci][1] if base[ci][0] == "ok" else 0.0
        try:
            t, _b = tolerance(kind, T, P, addressing, ci, v)
        except Exception:
            t = RTOL_BOUNDARY * (1 + abs(v))
        tols.append(t)
    gt = sum(tols)

    def compare(what, P2, addr2, extra):
        # a fresh grid on the moved points, and the LIVING grid (created and evaluated at P) moved there
        for warm in (None, P):
            ex = dict(extra, living=warm is not None)
            for ci in range(len(addressing)):
                r = impl_cell_quality(kind, P2, addr2, ci, warm=warm)
                if not same_outcome(base[ci], r, tols[ci]):
                    fails.append(dict(kind=what, cell=kind, observe="cell", points=P.tolist(), addressing=addressing,
                                      cell_index=ci, before=base[ci], after=r, tol=tols[ci], **ex))
                    return
            if grid:
                r = impl_grid_quality(kind, P2, addr2, warm=warm)
                if not same_outcome(gbase, r, gt):
                    fails.append(dict(kind=what, cell=kind, observe="grid", points=P.tolist(), addressing=addressing,
                                      before=gbase, after=r, tol=gt, **ex))
                    return

    for _ in range(n_rigid):
        R = rand_rotation(rng)
        t = np.array([rng.uniform(-10, 10) for _ in range(3)])
        compare("rigid", P @ R.T + t, addressing, dict(R=R.tolist(), t=t.tolist()))
    for k in range(n_scale):
        s = math.exp(rng.uniform(math.log(0.1), math.log(100)))
        if k == 0:
            # down to millimetre-sized cells, as long as the small-number guard stays out of play
            s2 = min(1.0, max(0.1, rng.uniform(0.01, 0.03) / min_edge(P, addressing)))
            if s2 < 1.0 and guard_inactive(kind, T, P * s2, addressing):
                s = s2
        if not (guard_inactive(kind, T, P, addressing, 5.0) and guard_inactive(kind, T, P * s, addressing, 5.0)):
            continue  # sizes at which the guard takes part are outside the statement
        compare("scale", P * s, addressing, dict(s=s))
    rots = rotations(kind)
    if renumberings is None:
        renumberings = range(len(rots))
    for ri in renumberings:
        p = rots[ri]
        # renumber one cell at a time (the others keep their numbering)
        for ci in range(len(addressing)):
            addr2 = [list(a) for a in addressing]
            addr2[ci] = renumber(addressing[ci], p)
            r = impl_cell_quality(kind, P, addr2, ci)
            if not same_outcome(base[ci], r, tols[ci]):
                fails.append(dict(kind="renumber", cell=kind, observe="cell", points=P.tolist(), addressing=addressing,
                                  cell_index=ci, perm=list(p), before=base[ci], after=r, tol=tols[ci]))
                break
    return fails


def box(a, b, c):
    return np.array(XYZ, dtype=float) * np.array([a, b, c])


def oracle_stretch(factors, base_size=1.0):
    """Stretching a cube along one direction never lowers the value; the three directions agree."""
    fails = []
    addr = [list(range(8))]
    cube = impl_cell_quality("hex", box(1, 1, 1) * base_size, addr)
    prev = [cube, cube, cube]
    for a in factors:
        vals = [impl_cell_quality("hex", box(*[(a if d == ax else 1.0) for d in range(3)]) * base_size, addr)
                for ax in range(3)]
        ok = all(v[0] == "ok" for v in vals) and cube[0] == "ok"
        if not ok:
            fails.append(dict(kind="stretch", cell="hex", why="degenerate", factor=a, size=base_size, values=vals, cube=cube))
            continue
        tol = RTOL_BOUNDARY * (1 + abs(vals[0][1]))
        if max(v[1] for v in vals) - min(v[1] for v in vals) > tol:
            fails.append(dict(kind="stretch", cell="hex", why="directions differ", factor=a, size=base_size,
                              values=[v[1] for v in vals], cube=cube[1]))
        for ax in range(3):
            if vals[ax][1] < prev[ax][1] - tol:
                fails.append(dict(kind="stretch", cell="hex", why="value lowered", axis=ax, factor=a, size=base_size,
                                  value=vals[ax][1], previous=prev[ax][1], cube=cube[1]))
        prev = vals
    # quadrilateral: a x 1 rectangle against 1 x a
    sq = impl_cell_quality("quad", [[0, 0, 0], [1, 0, 0], [1, 1, 0], [0, 1, 0]], [[0, 1, 2, 3]])
    prevq = [sq, sq]
    for a in factors:
        vals = [impl_cell_quality("quad", [[0, 0, 0], [a, 0, 0], [a, 1, 0], [0, 1, 0]], [[0, 1, 2, 3]]),
                impl_cell_quality("quad", [[0, 0, 0], [1, 0, 0], [1, a, 0], [0, a, 0]], [[0, 1, 2, 3]])]
        if not all(v[0] == "ok" for v in vals) or sq[0] != "ok":
            fails.append(dict(kind="stretch", cell="quad", why="degenerate", factor=a, values=vals, square=sq))
            continue
        tol = RTOL_BOUNDARY * (1 + abs(vals[0][1]))
        if abs(vals[0][1] - vals[1][1]) > tol:
            fails.append(dict(kind="stretch", cell="quad", why="directions differ", factor=a, values=[v[1] for v in vals]))
        for ax in range(2):
            if vals[ax][1] < prevq[ax][1] - tol:
                fails.append(dict(kind="stretch", cell="quad", why="value lowered", axis=ax, factor=a,
                                  value=vals[ax][1], previous=prevq[ax][1]))
        prevq = vals
    return fails


STRETCH = [1.0, 1.05, 1.3, 2.0, 3.5, 5.0, 12.0, 40.0]


def corpus(rng):
    """Hand-picked regressions, run first by the oracle."""
    items = []
    items.append(("hex", box(5, 1, 1), [list(range(8))]))
    items.append(("hex", box(1, 5, 1), [list(range(8))]))
    items.append(("hex", box(1, 1, 1), [list(range(8))]))
    items.append(("hex", box(1, 1, 1) * 0.05, [list(range(8))]))
    items.append(("quad", np.array([[0, 0, 0], [1, 0, 0], [1, 1, 0], [0, 1, 0]], dtype=float), [[0, 1, 2, 3]]))
    items.append(("quad", np.array([[0, 0, 0], [3, 0, 0], [3, 1, 0], [0, 1, 0]], dtype=float), [[0, 1, 2, 3]]))
    P, A = lattice_hex(rng, (3, 1, 1), 0.0)
    items.append(("hex", P * np.array([2.0, 1.0, 1.0]), A))
    return items


# ------------------------------------------------------------------------------------------------


class C14(Prop):
    pid = "C14"
    title = "The block quality measure depends only on the cell's shape"
    prebuilt = ["Base/Hex.v", "Base/Vec3.v", "Model/C14_Quality.v", "Proofs/C14_IEval.v", "Proofs/C14_Algebra.v",
                "Proofs/C14_Rigid.v", "Proofs/C14_Scale.v", "Proofs/C14_Renumber.v", "Proofs/C14_Stretch.v"]
    gen_dependent_files = ["Gen/C14/Tables.v"]
    property_files = ["Properties/C14.v"]
    trusted = [
        "tabulation: HexCell/QuadCell.get_side_points and CellBase.get_edge_lengths on probe cells with distinct "
        "pairwise distances; guard value read from classy_blocks.optimize.cell.VSMALL, guard mode and q_scale "
        "triples identified behaviourally (call trace of q_scale or least-squares fit) and validated against "
        "CellBase.quality on probe cells",
        "correspondence of Model/C14_Quality.v with CellBase.quality is sampled (random cells, alone and in grids), "
        "decided inside Coq by the verified interval evaluator Proofs/C14_IEval.v (Interval library primitives)",
        "model: arccos written as 2*atan(sqrt((1-x)/(1+x))) (equal to acos on (-1,1]); np.clip of the cosine is the "
        "identity on the reals (Cauchy-Schwarz) and is not modelled; numpy float arithmetic modelled as real arithmetic",
    ]
    # C14_renumber_quad is proved in full (all four cyclic renumberings of every planar convex quadrilateral);
    # C14_stretch holds for every side table equal to the reference one up to side order / cycle start.
    partial = []

    def __init__(self):
        self._tab = None

    # S1 -----------------------------------------------------------------------------------------
    def tables(self):
        if self._tab is None:
            hexT = tab_sides("hex")
            quadS = tab_sides("quad")
            if len(hexT) != 6 or any(len(s) != 4 for s in hexT):
                raise GenError("hex side table has shape %r" % ([len(s) for s in hexT],))
            if len(quadS) != 4 or any(len(s) != 2 for s in quadS):
                raise GenError("quad side table has shape %r" % ([len(s) for s in quadS],))
            hexE = tab_edges("hex")
            quadE = tab_edges("quad")
            K = tab_consts(hexT, hexE)
            self._tab = dict(hexT=hexT, hexE=hexE, quadS=quadS, quadE=quadE, K=K)
        return self._tab

    def generate(self, ctx):
        t = self.tables()
        ctx.log("S1: hex_E=%s guard=%s%g weights=%s residual=%.2e" % (
            t["hexE"], "+" if t["K"]["add"] else "max ", t["K"]["eps_l"],
            [t["K"][n] for n in ("w_no", "w_in", "w_as")], t["K"]["residual"]))
        ctx.write_gen("Tables", emit_tables(t["hexT"], t["hexE"], t["quadS"], t["quadE"], t["K"]))

    # S3 -----------------------------------------------------------------------------------------
    def gen_cases(self, ctx):
        """(kind, points, addressing, cell index) for the model/implementation comparison."""
        rng = ctx.rng
        cases = []
        nh, nq = ctx.n(24, 400), ctx.n(24, 400)
        for i in range(nh):
            cases.append(("hex", place(rng, rand_hex(rng, far=(i % 2 == 1))), [list(range(8))], 0))
        for i in range(nq):
            cases.append(("quad", place(rng, rand_quad(rng, far=(i % 2 == 1))), [[0, 1, 2, 3]], 0))
        for _ in range(ctx.n(2, 30)):
            P, A = lattice_hex(rng, (2, 2, 2), rng.choice([0.0, 0.05, 0.12]))
            P = place(rng, P)
            for ci in range(len(A)):
                cases.append(("hex", P, A, ci))
        for _ in range(ctx.n(1, 10)):
            P, A = lattice_hex(rng, (3, 1, 1), rng.choice([0.05, 0.12]))
            P = place(rng, P)
            cases.append(("hex", P, A, 1))
        for _ in range(ctx.n(3, 40)):
            P, A = lattice_quad(rng, (3, 3), rng.choice([0.0, 0.05, 0.12]))
            P = place(rng, P)
            for ci in (0, 4, 5):
                cases.append(("quad", P, A, ci))
        # renumbered cells inside a grid (neighbour binding under renumbering)
        for _ in range(ctx.n(4, 60)):
            P, A = lattice_hex(rng, (2, 2, 1), 0.08)
            ci = rng.randrange(len(A))
            A = [list(a) for a in A]
            A[ci] = renumber(A[ci], rng.choice(HEX_ROT))
            cases.append(("hex", place(rng, P), A, ci))
        return cases

    def correspond(self, ctx):
        res = CorrResult()
        res.rule = ("random convex hexahedra/quadrilaterals near and far from a cube (random size 0.3..30, rotation, "
                    "translation), alone and as cells of perturbed 2x2x2 / 3x1x1 / 3x3 lattices (with neighbours), some "
                    "renumbered; compared inside Coq: |model - CellBase.quality| <= 1e-9*(1+|q|) (1e-5*(1+|q|) when a "
                    "cosine lies within 1e-7 of +-1: boundary); non-trivial = non-degenerate cell; distinct by coordinates")
        try:
            t = self.tables()
        except GenError as e:
            res.error = "tables unavailable: %s" % e
            return res
        ok, msg = core.ensure_prebuilt(list(self.prebuilt[:4]))
        if not ok:
            res.error = msg
            return res
        cases = self.gen_cases(ctx)
        lines = []
        meta = []
        for k, (kind, P, A, ci) in enumerate(cases):
            T = t["hexT"] if kind == "hex" else t["quadS"]
            out = impl_cell_quality(kind, P, A, ci)
            res.evaluations += 1
            _cen, nb = centres_for(T, P, A, ci)
            res.count("kind=%s" % kind)
            res.count("neighbours=%d" % sum(1 for j in nb if j is not None))
            res.count("outcome=%s" % out[0])
            if out[0] != "ok":
                meta.append((kind, P, A, ci, out, None, False))
                continue
            tol, boundary = tolerance(kind, T, P, A, ci, out[1])
            if boundary:
                res.boundary += 1
            res.distinct.add(json.dumps([kind, np.asarray(P)[A[ci]].tolist(), [j is not None for j in nb]]))
            Pc = np.asarray(P)[A[ci]]
            nbtxt = "[" + "; ".join("None" if j is None else "Some [%s]" % "; ".join(zvec(p) for p in np.asarray(P)[A[j]])
                                     for j in nb) + "]"
            fn = "hex_case_ok zk hex_T hex_E" if kind == "hex" else "quad_case_ok zk quad_E"
            lines.append("(%d, %s [%s] %s %s %s)" % (k, fn, "; ".join(zvec(p) for p in Pc), nbtxt, zd(out[1]), zd(tol)))
            meta.append((kind, P, A, ci, out, tol, boundary))
            if len(res.samples) < 4:
                res.samples.append(dict(kind=kind, points=Pc.tolist(), neighbours=[j is not None for j in nb],
                                        implementation=out[1], tol=tol))
        shards = []
        nsh = min(16, max(1, len(lines) // 6))
        for s in range(nsh):
            chunk = lines[s::nsh]
            # the tables are inlined (same text as Gen/C14/Tables.v) so that the case files do not depend
            # on a .vo that a concurrent run may be regenerating
            body = [emit_tables(t["hexT"], t["hexE"], t["quadS"], t["quadE"], t["K"], " Proofs.C14_IEval"),
                    "Definition cases : list (nat * bool) := [", ";\n".join(chunk), "].",
                    "Eval vm_compute in (map fst (filter (fun c => negb (snd c)) cases))."]
            shards.append(("cases_%d" % s, "\n".join(body) + "\n"))
        from props.C10 import parse_id_list
        for (name, rc, so, se) in core.run_cases_parallel(ctx, shards, timeout=600):
            if rc != 0:
                res.error = "case file %s failed: %s" % (name, se[-800:])
                return res
            for i in parse_id_list(so):
                kind, P, A, ci, out, tol, boundary = meta[i]
                T = t["hexT"] if kind == "hex" else t["quadS"]
                E = t["hexE"] if kind == "hex" else t["quadE"]
                cen, _nb = centres_for(T, P, A, ci)
                res.mismatches.append(dict(case=i, kind=kind, points=np.asarray(P).tolist(), addressing=A, cell_index=ci,
                                           implementation=out[1], tol=tol,
                                           model_float=py_model(kind, t["K"], T, E, np.asarray(P)[A[ci]], cen)))
        res.traces = len(lines)
        # direct oracle on a subset of the same cases (self-check / detection), corpus first
        orng = ctx.rng
        for (kind, P, A) in corpus(orng):
            T = t["hexT"] if kind == "hex" else t["quadS"]
            res.oracle_failures += oracle_invariance(kind, T, P, A, orng, n_rigid=3, n_scale=3)
        step = max(1, len(cases) // ctx.n(14, 200))
        for (kind, P, A, ci) in cases[::step]:
            T = t["hexT"] if kind == "hex" else t["quadS"]
            rots = list(range(len(rotations(kind)))) if len(A) == 1 else [orng.randrange(len(rotations(kind))) for _ in range(3)]
            res.oracle_failures += oracle_invariance(kind, T, P, A, orng, n_rigid=1, n_scale=1, renumberings=rots)
        res.oracle_failures += oracle_stretch(STRETCH)
        res.oracle_failures = dedupe(res.oracle_failures)
        return res

    # S4 -----------------------------------------------------------------------------------------
    def search(self, ctx, broken, corr):
        fails = []
        try:
            t = self.tables()
            hexT, quadS = t["hexT"], t["quadS"]
        except Exception:
            hexT = [[0, 1, 2, 3], [7, 6, 5, 4], [4, 0, 3, 7], [6, 2, 1, 5], [0, 4, 5, 1], [7, 3, 2, 6]]
            quadS = [[0, 1], [1, 2], [2, 3], [3, 0]]
        rng = ctx.rng
        for (kind, P, A) in corpus(rng):
            fails += oracle_invariance(kind, hexT if kind == "hex" else quadS, P, A, rng, n_rigid=3, n_scale=3)
        fails += oracle_stretch(STRETCH)
        fails += oracle_stretch(STRETCH, base_size=0.05)
        for m in corr.mismatches[:6]:
            kind = m["kind"]
            fails += oracle_invariance(kind, hexT if kind == "hex" else quadS, m["points"], m["addressing"], rng,
                                       n_rigid=3, n_scale=3)
        for i in range(ctx.n(40, 400)):
            kind = "hex" if i % 2 == 0 else "quad"
            if i % 5 == 4:
                P, A = (lattice_hex(rng, (2, 2, 1), 0.1) if kind == "hex" else lattice_quad(rng, (2, 2), 0.1))
            else:
                P = rand_hex(rng, i % 4 >= 2) if kind == "hex" else rand_quad(rng, i % 4 >= 2)
                A = [list(range(len(P)))]
            fails += oracle_invariance(kind, hexT if kind == "hex" else quadS, place(rng, P), A, rng, n_rigid=1, n_scale=1)
            if len(dedupe(fails)) >= 6:
                break
        return dedupe(fails)

    def signature(self, rp):
        if rp.get("kind") == "stretch":
            return "C14:stretch:%s:%s" % (rp.get("cell"), rp.get("why"))
        if rp.get("kind") in ("rigid", "scale", "renumber"):
            a, b = rp.get("before"), rp.get("after")
            out = "raises" if (a and b and a[0] != b[0]) else "value"
            return "C14:%s:%s:%s" % (rp["kind"], rp.get("cell"), out)
        return rp.get("signature", "")

    def replay(self, ctx, obj):
        kind = obj.get("kind")
        if kind == "stretch":
            f = oracle_stretch([1.0, obj.get("factor", 5.0)], base_size=obj.get("size", 1.0))
            for x in f:
                print("implementation/oracle FAIL:", json.dumps(x, default=str)[:400])
            if not f:
                print("oracle: ok")
            return 0
        cell = obj["cell"]
        P = np.array(obj["points"])
        A = obj["addressing"]
        ci = obj.get("cell_index", 0)
        A2, P2 = [list(a) for a in A], P
        if kind == "rigid":
            P2 = P @ np.array(obj["R"]).T + np.array(obj["t"])
        elif kind == "scale":
            P2 = P * obj["s"]
        elif kind == "renumber":
            A2[ci] = renumber(A[ci], obj["perm"])
        warm = P if obj.get("living") else None   # the living grid created at P and moved to P2, or a fresh one at P2
        if obj.get("observe") == "grid":
            a, b = impl_grid_quality(cell, P, A), impl_grid_quality(cell, P2, A2, warm=warm)
        else:
            a, b = impl_cell_quality(cell, P, A, ci), impl_cell_quality(cell, P2, A2, ci, warm=warm)
        print("implementation: before", a, "after", b, "(living grid moved)" if warm is not None else "(fresh grid)")
        print("oracle:", "ok" if same_outcome(a, b, obj.get("tol", 1e-9)) else "FAIL (%s changes the value)" % kind)
        return 0


def dedupe(fails):
    """Keep the first replay per signature-like key (kind, cell, observation)."""
    out, seen = [], set()
    for f in fails:
        key = (f.get("kind"), f.get("cell"), f.get("why"), (f.get("before") or [None])[0] != (f.get("after") or [None])[0])
        if key in seen:
            continue
        seen.add(key)
        out.append(f)
    return out


PROP = C14()
