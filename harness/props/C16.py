"""C16 - Curve points, lengths and closest-parameter queries are mutually consistent.

Tie (N): every case runs the real curve classes of /repo and emits one Coq goal in which the model of
coq/Model/C16_Curves.v is evaluated on the same (exact dyadic) inputs with the `interval` tactic and compared
with the value the implementation returned; decisions of the model (interval index of the interpolation, knots
between two parameters, argmin index) are handed to Coq as the inequalities of the branch taken
(Proofs/C16_Curves.v proves that those inequalities determine the value of the model).  Black boxes
(scipy's spline, scipy's minimiser) enter through the values they returned, their assumed behaviour is
monitored.  The direct oracle states the property on the observable output only.
"""
import json
import math
import re
import warnings

import numpy as np

import core
from core import CorrResult, Prop

R = core.float_to_R
EPS_PARAM = 1e-12  # slack of a branch condition on a parameter the model recomputes in exact arithmetic


def V(p):
    return "(%s, %s, %s)" % (R(p[0]), R(p[1]), R(p[2]))


def VL(ps):
    return "[" + "; ".join(V(p) for p in ps) + "]"


def RL(ts):
    return "[" + "; ".join(R(t) for t in ts) + "]"


def fl(x):
    return [float(v) for v in x]


def _cb():
    import classy_blocks as cb
    return cb


# ------------------------------------------------------------------------------------------------
# curve specifications (JSON) and their construction


def rand_rot(rng):
    ax = np.array([rng.gauss(0, 1) for _ in range(3)])
    ax /= np.linalg.norm(ax)
    ang = rng.uniform(0, 2 * math.pi)
    K = np.array([[0, -ax[2], ax[1]], [ax[2], 0, -ax[0]], [-ax[1], ax[0], 0]])
    return np.eye(3) + math.sin(ang) * K + (1 - math.cos(ang)) * (K @ K)


def gen_points(rng, n):
    """n points on a smooth, gently turning base curve, sampled with uneven spacing, in a random frame."""
    scale = 10 ** rng.uniform(-2, 2)
    w = rng.uniform(0.3, 2.0)
    a = rng.uniform(0.1, 0.6)
    b = rng.uniform(-0.4, 0.4)
    phi = rng.uniform(0, 2 * math.pi)
    gaps = [rng.uniform(1, 8) if rng.random() < 0.5 else rng.uniform(0.15, 1) for _ in range(n - 1)]
    s = np.concatenate(([0.0], np.cumsum(gaps)))
    s = s / s[-1]
    base = np.array([[si, a * math.sin(w * si + phi), b * si * si] for si in s])
    rot = rand_rot(rng)
    off = np.array([rng.uniform(-1, 1) for _ in range(3)])
    pts = (base @ rot.T + off) * scale
    return [fl(p) for p in pts]


def gen_spec(rng, kind):
    if kind == "discrete":
        return dict(kind=kind, points=gen_points(rng, rng.randint(3, 9)))
    if kind == "linear":
        return dict(kind=kind, points=gen_points(rng, rng.randint(3, 8)), equalize=rng.random() < 0.7)
    if kind == "spline":
        return dict(kind=kind, points=gen_points(rng, rng.randint(4, 8)), equalize=rng.random() < 0.7)
    scale = 10 ** rng.uniform(-2, 2)
    if kind == "line":
        p1 = [rng.uniform(-1, 1) * scale for _ in range(3)]
        p2 = [p1[i] + rng.uniform(-1, 1) * scale for i in range(3)]
        bounds = rng.choice([[0.0, 1.0], [0.0, 1.0], [-0.5, 1.5], [0.25, 2.0]])
        return dict(kind=kind, p1=p1, p2=p2, bounds=bounds)
    if kind == "circle":
        o = np.array([rng.uniform(-1, 1) * scale for _ in range(3)])
        n = np.array([rng.gauss(0, 1) for _ in range(3)])
        n /= np.linalg.norm(n)
        u = np.cross(n, [rng.gauss(0, 1) for _ in range(3)])
        u /= np.linalg.norm(u)
        rim = o + u * rng.uniform(0.2, 1) * scale
        nrm = n * rng.uniform(0.3, 3)
        if rng.random() < 0.5:
            bounds = [0.0, 2 * math.pi]
        else:
            lo = rng.uniform(-1, 1)
            bounds = [lo, lo + rng.uniform(0.5, 4.0)]
        return dict(kind=kind, origin=fl(o), rim=fl(rim), normal=fl(nrm), bounds=bounds)
    if kind == "helix":
        o = [rng.uniform(-1, 1) * scale for _ in range(3)]
        lo = rng.uniform(-1, 1)
        return dict(kind=kind, origin=o, r=rng.uniform(0.2, 1) * scale, h=rng.uniform(-0.5, 0.5) * scale,
                    bounds=[lo, lo + rng.uniform(0.5, 5.0)])
    raise ValueError(kind)


def build(spec):
    cb = _cb()
    k = spec["kind"]
    if k == "discrete":
        return cb.DiscreteCurve(spec["points"])
    if k == "linear":
        return cb.LinearInterpolatedCurve(spec["points"], equalize=spec["equalize"])
    if k == "spline":
        return cb.SplineInterpolatedCurve(spec["points"], equalize=spec["equalize"])
    if k == "line":
        return cb.LineCurve(spec["p1"], spec["p2"], tuple(spec["bounds"]))
    if k == "circle":
        return cb.CircleCurve(spec["origin"], spec["rim"], spec["normal"], tuple(spec["bounds"]))
    if k == "helix":
        o, r, h = np.array(spec["origin"], dtype=float), spec["r"], spec["h"]
        return cb.AnalyticCurve(lambda t: o + np.array([r * math.cos(t), r * math.sin(t), h * t]), tuple(spec["bounds"]))
    raise ValueError(k)


def size_of(spec):
    k = spec["kind"]
    if k in ("discrete", "linear", "spline"):
        return float(np.max(np.abs(np.array(spec["points"]))))
    if k == "line":
        return float(max(np.max(np.abs(spec["p1"])), np.max(np.abs(spec["p2"])))) * 2.0
    if k == "circle":
        return float(np.max(np.abs(spec["origin"])) + np.linalg.norm(np.array(spec["rim"]) - np.array(spec["origin"])))
    return float(np.max(np.abs(spec["origin"])) + spec["r"] + abs(spec["h"]) * max(abs(b) for b in spec["bounds"]))


def extent_of(curve, spec):
    """a length scale of the curve itself (for 'near'/'far' and the minimiser tolerance)"""
    if spec["kind"] == "discrete":
        pts = np.array(spec["points"])
    else:
        pts = np.array([curve.get_point(t) for t in np.linspace(curve.bounds[0], curve.bounds[1], 30)])
    return float(np.linalg.norm(pts.max(axis=0) - pts.min(axis=0)))


# ------------------------------------------------------------------------------------------------
# observation helpers (implementation side)


def observed_counts(curve):
    """number of samples of the coarse stage and of AnalyticCurve.get_length, read from the implementation"""
    coarse = len(curve.discretize())
    rec = []
    orig = curve.discretize

    def spy(*a, **k):
        out = orig(*a, **k)
        rec.append(len(out))
        return out

    n_len = None
    if type(curve).get_length is _cb().AnalyticCurve.get_length:
        curve.discretize = spy
        try:
            curve.get_length(curve.bounds[0], curve.bounds[1])
        finally:
            del curve.discretize
        if len(rec) != 1:
            raise RuntimeError("AnalyticCurve.get_length does not discretize exactly once")
        n_len = rec[0]
    return coarse, n_len


def coarse_param(curve, q):
    from classy_blocks.construct.curves.curve import CurveBase
    return float(CurveBase.get_closest_param(curve, q))


def make_edge(curve, v1, v2, n_points, representation):
    """a block edge snapped to the curve, observed after Mesh.assemble()"""
    cb = _cb()
    v1, v2 = np.array(v1, dtype=float), np.array(v2, dtype=float)
    d = v2 - v1
    L = float(np.linalg.norm(d))
    e1 = np.cross(d, [0.3, 0.5, 0.8])
    if np.linalg.norm(e1) < 1e-3 * L:
        e1 = np.cross(d, [1.0, 0, 0])
    e1 = e1 / np.linalg.norm(e1) * L
    e2 = np.cross(d, e1)
    e2 = e2 / np.linalg.norm(e2) * L
    bottom = cb.Face([v1, v2, v2 + e1, v1 + e1])
    top = cb.Face([v1 + e2, v2 + e2, v2 + e1 + e2, v1 + e1 + e2])
    loft = cb.Loft(bottom, top)
    loft.bottom_face.add_edge(0, cb.OnCurve(curve, n_points=n_points, representation=representation))
    mesh = cb.Mesh()
    mesh.add(loft)
    with warnings.catch_warnings():
        warnings.simplefilter("ignore")
        mesh.assemble()
    es = [e for e in mesh.edge_list.edges if e.kind == "curve"]
    if len(es) != 1:
        raise RuntimeError("expected exactly one curve edge, got %d" % len(es))
    e = es[0]
    desc = e.description
    m = re.match(r"\s*(\w+)\s+(\d+)\s+(\d+)\s*\((.*)\)\s*$", desc, flags=re.S)
    if not m:
        raise RuntimeError("cannot parse edge description %r" % desc)
    written = [[float(x) for x in g.split()] for g in re.findall(r"\(([^()]*)\)", m.group(4))]
    i1, i2 = int(m.group(2)), int(m.group(3))
    verts = mesh.vertex_list.vertices
    return dict(ps=float(e.param_start), pe=float(e.param_end), points=[fl(p) for p in e.point_array],
                length=float(e.length), keyword=m.group(1), written=written,
                w1=fl(verts[i1].position), w2=fl(verts[i2].position))


# ------------------------------------------------------------------------------------------------
# model expressions


class CurveCtx:
    """Coq definitions of one curve (prefix c<k>_) and expression builders."""

    def __init__(self, k, spec, curve):
        self.k = k
        self.spec = spec
        self.curve = curve
        self.kind = spec["kind"]
        self.size = max(size_of(spec), 1e-30)
        self.tol = 1e-9 * self.size
        self.defs = []
        p = "c%d_" % k
        self.p = p
        if self.kind in ("discrete", "linear", "spline"):
            self.pts = [fl(x) for x in spec["points"]]
            self.defs.append("Definition %spts : list vec := %s." % (p, VL(self.pts)))
        if self.kind in ("linear", "spline"):
            self.ts = fl(curve.function.params)
            self.defs.append("Definition %sts : list R := %s." % (p, RL(self.ts)))
        if self.kind == "spline":
            self.fk = [fl(curve.function(t)) for t in self.ts]  # black box values at the knots
            self.defs.append("Definition %sfk : list vec := %s." % (p, VL(self.fk)))
        if self.kind == "line":
            self.defs.append("Definition %sp1 : vec := %s.\nDefinition %sp2 : vec := %s." % (p, V(spec["p1"]), p, V(spec["p2"])))
            self.F = "(line_point %sp1 %sp2)" % (p, p)
        if self.kind == "circle":
            self.kvec = fl(curve.normal)
            self.defs.append("Definition %so : vec := %s.\nDefinition %srim : vec := %s.\nDefinition %snrm : vec := %s.\nDefinition %sk : vec := %s."
                             % (p, V(spec["origin"]), p, V(spec["rim"]), p, V(spec["normal"]), p, V(self.kvec)))
            self.F = "(circle_point_k %so %srim %sk)" % (p, p, p)
        if self.kind == "helix":
            o = spec["origin"]
            self.F = "(fun t : R => (%s + %s * cos t, %s + %s * sin t, %s + %s * t))" % (
                R(o[0]), R(spec["r"]), R(o[1]), R(spec["r"]), R(o[2]), R(spec["h"]))
        self.lo, self.hi = float(curve.bounds[0]), float(curve.bounds[1])

    def seg_index(self, t):
        ts = self.ts
        i = int(np.searchsorted(ts, t, side="right")) - 1
        return min(max(i, 0), len(ts) - 2)

    def point(self, texpr, tval, exact=True):
        """(model expression of the curve point at parameter texpr, [branch conditions]) or None (black box)"""
        if self.kind in ("line", "circle", "helix"):
            return "(%s %s)" % (self.F, texpr), []
        if self.kind == "linear":
            i = self.seg_index(tval)
            eps = "0" if exact else R(EPS_PARAM)
            conds = ["nth %d %sts 0 - %s <= %s" % (i, self.p, eps, texpr), "%s <= nth %d %sts 0 + %s" % (texpr, i + 1, self.p, eps)]
            return "(lin_point_at %d %sts %spts %s)" % (i, self.p, self.p, texpr), conds
        return None


def goal(gid, conj):
    body = " /\\\n  ".join("(%s)" % c for c in conj)
    return ("Goal %s.\nProof. ev. first [ solve [repeat split; interval]; idtac \"OK %d\" "
            "| solve [repeat split; interval with (i_prec 100)]; idtac \"OK %d\" | idtac \"MISMATCH %d\" ]. Abort.\n"
            % (body, gid, gid, gid))


PREAMBLE = """From Coq Require Import Reals List ZArith.
From Interval Require Import Tactic.
From CB Require Import Base.Vec3 Model.C16_Curves.
Import ListNotations.
Open Scope R_scope.
Ltac ev := cbv - [Rplus Rminus Rmult Rdiv Ropp Rinv sqrt Rabs cos sin IZR powerRZ Rle Rlt PI].
"""


# ------------------------------------------------------------------------------------------------
# the direct oracle (implementation only)


def dense_min(curve, q, n=1500):
    """smallest distance of q to the curve on a dense sample, refined around the best sample"""
    lo, hi = float(curve.bounds[0]), float(curve.bounds[1])
    ts = np.linspace(lo, hi, n)
    ds = [float(np.linalg.norm(curve.get_point(t) - q)) for t in ts]
    i = int(np.argmin(ds))
    a, b = ts[max(i - 1, 0)], ts[min(i + 1, n - 1)]
    ts2 = np.linspace(a, b, 400)
    ds2 = [float(np.linalg.norm(curve.get_point(t) - q)) for t in ts2]
    j = int(np.argmin(ds2))
    return ds2[j], float(ts2[j])


def oracle_case(case):
    """Returns None or a string saying how the property fails on the implementation's output."""
    spec = case["spec"]
    curve = build(spec)
    kind = spec["kind"]
    S = max(size_of(spec), 1e-30)
    tol = 1e-9 * S
    op = case["op"]
    if op == "point":
        # interpolation: the curve passes through its defining points
        if kind in ("linear", "spline"):
            ts = curve.function.params
            for i, p in enumerate(spec["points"]):
                d = float(np.linalg.norm(curve.get_point(float(ts[i])) - np.array(p)))
                if not d <= tol:
                    return "interpolated curve misses its defining point %d by %.3g" % (i, d)
        if kind == "discrete":
            for i, p in enumerate(spec["points"]):
                if not np.array_equal(curve.get_point(i), np.array(p, dtype=float)):
                    return "discrete curve point %d differs from its defining point" % i
        return None
    if op == "discretize":
        a, b, cnt = case["a"], case["b"], case["count"]
        pts = curve.discretize(a, b, cnt) if kind != "discrete" else curve.discretize(a, b)
        d0 = float(np.linalg.norm(pts[0] - curve.get_point(a)))
        d1 = float(np.linalg.norm(pts[-1] - curve.get_point(b)))
        if not (d0 <= tol and d1 <= tol):
            return "discretize(%r, %r) starts %.3g / ends %.3g away from the curve points of its parameters" % (a, b, d0, d1)
        if kind == "discrete" and len(pts) != abs(int(b) - int(a)) + 1:
            return "discretize(%r, %r) of a discrete curve returns %d points" % (a, b, len(pts))
        if kind != "discrete" and len(pts) != cnt:
            return "discretize returns %d points instead of %d" % (len(pts), cnt)
        return None
    if op == "length":
        a, m, b = case["a"], case["m"], case["b"]
        Lab, Lba = float(curve.get_length(a, b)), float(curve.get_length(b, a))
        Lam, Lmb = float(curve.get_length(a, m)), float(curve.get_length(m, b))
        if not abs(Lab - Lba) <= tol:
            return "length depends on the order of the parameters: L(%r,%r)=%.9g, L(%r,%r)=%.9g" % (a, b, Lab, b, a, Lba)
        defect = abs(Lam + Lmb - Lab)
        if kind in ("discrete", "linear", "line"):
            if not defect <= tol:
                return "length not additive: L(%r,%r)+L(%r,%r)=%.9g but L(%r,%r)=%.9g" % (a, m, m, b, Lam + Lmb, a, b, Lab)
        elif kind in ("circle", "helix"):
            if not defect <= 1e-3 * max(Lab, tol):
                return "length not additive within the discretisation tolerance: %.9g vs %.9g" % (Lam + Lmb, Lab)
        else:  # spline: chords through the knots; exact when the split is a knot, otherwise between chord and arc length
            dense = np.array([curve.get_point(t) for t in np.linspace(min(a, b), max(a, b), 2000)])
            arc = float(np.sum(np.sqrt(np.sum((dense[1:] - dense[:-1]) ** 2, axis=1))))
            on_knot = any(abs(m - t) <= 1e-15 for t in curve.function.params)
            if on_knot and not defect <= tol:
                return "length not additive over a split at a knot: %.9g vs %.9g" % (Lam + Lmb, Lab)
            if not (Lab - tol <= Lam + Lmb <= arc * (1 + 1e-5) + tol):
                return "spline length: split sum %.9g outside [chord length %.9g, arc length %.9g]" % (Lam + Lmb, Lab, arc)
        if kind == "linear":
            # equals the length of the polyline (computed here from the defining points, independently)
            ts = [float(t) for t in curve.function.params]
            pts = np.array(spec["points"], dtype=float)
            lo, hi = min(a, b), max(a, b)
            seq = [curve.get_point(lo)] + [pts[i] for i, t in enumerate(ts) if lo < t < hi] + [curve.get_point(hi)]
            ref = sum(float(np.linalg.norm(seq[i + 1] - seq[i])) for i in range(len(seq) - 1))
            if not abs(ref - Lab) <= tol:
                return "length %.9g between %r and %r differs from the polyline length %.9g" % (Lab, a, b, ref)
        if kind in ("linear", "spline") and case.get("full"):
            pts = np.array(spec["points"], dtype=float)
            ref = float(np.sum(np.sqrt(np.sum((pts[1:] - pts[:-1]) ** 2, axis=1))))
            Lf = float(curve.length)
            if not abs(ref - Lf) <= tol:
                return "full length %.9g differs from the length %.9g of the polyline through the defining points" % (Lf, ref)
        if kind == "linear" and spec["equalize"]:
            Lf = float(curve.length)
            if not abs(Lab - abs(b - a) * Lf) <= 1e-9 * max(Lf, tol):
                return "chord-length parameterisation: L(%r,%r)=%.9g is not |b-a| x total length %.9g" % (a, b, Lab, Lf)
        return None
    if op == "closest":
        q = np.array(case["q"], dtype=float)
        res = curve.get_closest_param(q)
        ext = case["extent"]
        if kind == "discrete":
            ds = [float(np.linalg.norm(np.array(p) - q)) for p in spec["points"]]
            if not ds[int(res)] <= min(ds) + tol:
                return "closest index %r is at distance %.9g, index %d at %.9g" % (res, ds[int(res)], int(np.argmin(ds)), min(ds))
            return None
        res = float(res)
        if not (curve.bounds[0] - 1e-12 <= res <= curve.bounds[1] + 1e-12):
            return "closest parameter %r outside the bounds" % res
        d = float(np.linalg.norm(curve.get_point(res) - q))
        # at least as close as every coarse sample (holds near and far)
        cs = curve.discretize()
        dc = min(float(np.linalg.norm(p - q)) for p in cs)
        if not d <= dc + 1e-9 * ext:
            return "closest parameter %r (distance %.9g) is farther than a coarse sample (%.9g)" % (res, d, dc)
        if case["near"]:
            dd, td = dense_min(curve, q)
            if not d <= dd + 1e-4 * ext:
                return "closest parameter %r at distance %.9g, dense sample t=%r at %.9g" % (res, d, td, dd)
        return None
    if op == "edge":
        ob = make_edge(curve, case["v1"], case["v2"], case["n_points"], case["representation"])
        ext = case["extent"]
        ps, pe = ob["ps"], ob["pe"]
        pts = np.array(ob["points"]).reshape(-1, 3)
        if ob["keyword"] != case["representation"]:
            return "edge written as %s instead of %s" % (ob["keyword"], case["representation"])
        # the two parameters are those of the two vertices
        for nm, v, t in (("first", ob["w1"], ps), ("second", ob["w2"], pe)):
            tv = curve.get_closest_param(v)
            if not abs(float(tv) - t) <= 1e-6 * max(1.0, abs(t)):
                return "edge parameter %r is not the parameter %r of its %s vertex" % (t, tv, nm)
        lo, hi = min(ps, pe), max(ps, pe)
        if kind == "discrete":
            a, b = int(ps), int(pe)
            exp = [spec["points"][i] for i in (range(a + 1, b) if a <= b else range(a - 1, b, -1))]
            if len(exp) != len(pts) or any(float(np.linalg.norm(np.array(x) - y)) > tol for x, y in zip(exp, pts)):
                return "edge points are not the curve points strictly between indices %d and %d in that order" % (a, b)
        else:
            if len(pts) != case["n_points"]:
                return "edge has %d points instead of %d" % (len(pts), case["n_points"])
            last = None
            for j, p in enumerate(pts):
                tj = float(curve.get_closest_param(p))
                dj = float(np.linalg.norm(curve.get_point(tj) - p))
                if not dj <= 1e-4 * ext:
                    return "edge point %d is %.3g away from the curve" % (j, dj)
                if not (lo - 1e-4 <= tj <= hi + 1e-4):
                    return "edge point %d has parameter %r outside [%r, %r] of the two vertices" % (j, tj, lo, hi)
                if last is not None and (tj - last) * (pe - ps) < -1e-4 * abs(pe - ps):
                    return "edge points do not run from the first vertex to the second"
                last = tj
            # not the end points themselves, evenly spread in the parameter
            if len(pts) and abs(pe - ps) > 1e-6:
                t0 = float(curve.get_closest_param(pts[0]))
                if not abs((t0 - ps) - (pe - ps) / (len(pts) + 1)) <= 1e-3 * abs(pe - ps) + 1e-4:
                    return "first edge point has parameter %r, expected %r" % (t0, ps + (pe - ps) / (len(pts) + 1))
        for w, p in zip(ob["written"], pts):
            if float(np.max(np.abs(np.array(w) - p))) > 0.6e-8:
                return "written point %r differs from the edge point %r" % (w, fl(p))
        if len(ob["written"]) != len(pts):
            return "written %d points, edge has %d" % (len(ob["written"]), len(pts))
        if ps != pe or kind != "discrete":
            Lc = float(curve.get_length(ps, pe))
            if not abs(ob["length"] - Lc) <= tol:
                return "edge length %.9g is not the curve length %.9g between its parameters" % (ob["length"], Lc)
        return None
    raise ValueError(op)


def safe_oracle(case):
    try:
        return oracle_case(case)
    except Exception as e:  # the property quantifies over valid inputs: an exception is a failure
        return "raises %s: %s" % (type(e).__name__, str(e)[:200])


# ------------------------------------------------------------------------------------------------
# case generation


def rand_param(rng, cc):
    lo, hi = cc.lo, cc.hi
    if cc.kind == "discrete":
        return rng.randint(int(lo), int(hi))
    r = rng.random()
    if cc.kind in ("linear", "spline") and r < 0.3:
        return float(rng.choice(cc.ts))
    if r < 0.4:
        return rng.choice([lo, hi])
    return rng.uniform(lo, hi)


def gen_cases(rng, cc):
    """list of cases (dicts) for one curve"""
    spec, curve, kind = cc.spec, cc.curve, cc.kind
    ext = extent_of(curve, spec)
    cases = [dict(op="point")]
    for _ in range(2):
        cases.append(dict(op="pointat", t=rand_param(rng, cc)))
    for _ in range(2):
        a, b = rand_param(rng, cc), rand_param(rng, cc)
        cases.append(dict(op="discretize", a=a, b=b, count=rng.randint(2, 9)))
    for j in range(2):
        a, b = rand_param(rng, cc), rand_param(rng, cc)
        if kind == "discrete":
            n = int(cc.hi) + 1
            a = rng.randint(0, n - 3)
            b = rng.randint(a + 2, n - 1)
            m = rng.randint(a + 1, b - 1)  # a split at an end would be the length of one point, which polyline_length rejects
            if j == 0:
                a, b = 0, n - 1
                m = rng.randint(1, n - 2)
            if rng.random() < 0.5:
                a, b = b, a
        else:
            if j == 0:
                a, b = cc.lo, cc.hi
            if abs(a - b) < 1e-6:
                b = cc.hi if a < (cc.lo + cc.hi) / 2 else cc.lo
            if kind in ("linear", "spline") and rng.random() < 0.4:
                inner = [t for t in cc.ts if min(a, b) < t < max(a, b)]
                m = float(rng.choice(inner)) if inner else rng.uniform(min(a, b), max(a, b))
            else:
                m = rng.uniform(min(a, b), max(a, b))
        cases.append(dict(op="length", a=a, m=m, b=b, full=(j == 0)))
    for near in (True, True, False):
        if kind == "discrete":
            i = rng.randint(0, int(cc.hi))
            base = np.array(cc.pts[i])
            gap = min(np.linalg.norm(np.array(cc.pts[j]) - base) for j in range(len(cc.pts)) if j != i)
            d = np.array([rng.gauss(0, 1) for _ in range(3)])
            d /= np.linalg.norm(d)
            q = base + d * (rng.uniform(0, 0.3) * gap if near else rng.uniform(0.5, 3) * ext)
        else:
            lo, hi = cc.lo, cc.hi
            margin = 0.08 * (hi - lo) if (kind == "circle" and hi - lo > 5.5) else 0.0  # away from the seam
            t = rng.uniform(lo + margin, hi - margin)
            d = np.array([rng.gauss(0, 1) for _ in range(3)])
            d /= np.linalg.norm(d)
            q = curve.get_point(t) + d * (rng.uniform(0, 0.02) * ext if near else rng.uniform(0.3, 1.5) * ext)
        cases.append(dict(op="closest", q=fl(q), near=near, extent=ext))
    # an edge snapped to the curve
    if kind == "discrete":
        i, j = rng.sample(range(int(cc.hi) + 1), 2)
        v1, v2 = np.array(cc.pts[i]), np.array(cc.pts[j])
        off = 0.0
    else:
        lo, hi = cc.lo, cc.hi
        margin = 0.08 * (hi - lo) if (kind == "circle" and hi - lo > 5.5) else 0.0
        t1 = rng.uniform(lo + margin, hi - margin)
        t2 = rng.uniform(lo + margin, hi - margin)
        if abs(t1 - t2) < 0.15 * (hi - lo):
            t2 = t1 + 0.3 * (hi - lo) if t1 + 0.3 * (hi - lo) < hi - margin else t1 - 0.3 * (hi - lo)
        v1, v2 = curve.get_point(t1), curve.get_point(t2)
    cases.append(dict(op="edge", v1=fl(v1), v2=fl(v2), n_points=rng.randint(1, 6),
                      representation=rng.choice(["spline", "polyLine"]), extent=ext))
    for c in cases:
        c["spec"] = spec
    return cases


# ------------------------------------------------------------------------------------------------
# goal generation: run the implementation, write the model side


class Boundary(Exception):
    pass


def knots_trace(ts, lo, hi):
    i = sum(1 for t in ts if t <= lo)
    c = sum(1 for t in ts if lo < t < hi)
    # the list is increasing: the three groups are contiguous
    return i, c


def length_conj(cc, a, b, L):
    """conjuncts stating that the model's length between a and b is L"""
    kind, p = cc.kind, cc.p
    tol = R(cc.tol)
    if kind == "discrete":
        return ["Rabs (dc_length %spts %d %d - %s) <= %s" % (p, a, b, R(L), tol)]
    if kind in ("linear", "spline"):
        lo, hi = min(a, b), max(a, b)
        i, c = knots_trace(cc.ts, lo, hi)
        conj = ["knots_split %sts %s %s %d %d" % (p, R(lo), R(hi), i, c)]
        if kind == "linear":
            xlo, c1 = cc.point(R(lo), lo)
            xhi, c2 = cc.point(R(hi), hi)
            conj += c1 + c2
            fk = "%spts" % p
            conj.append("Rabs (Rabs (arclen %sts %spts %s - arclen %sts %spts %s) - %s) <= %s" % (p, p, R(b), p, p, R(a), R(L), tol))
        else:
            xlo, xhi = V(cc.curve.function(lo)), V(cc.curve.function(hi))
            fk = "%sfk" % p
        conj.append("Rabs (il_length_at %s %s %s %d %d - %s) <= %s" % (xlo, xhi, fk, i, c, R(L), tol))
        return conj
    n = cc.n_len
    if kind == "line":
        # fc_length_n n (line_point p1 p2) a b = |b - a| * dist p1 p2      (Proofs: fc_length_line)
        return ["Rabs (Rabs (%s - %s) * dist %sp1 %sp2 - %s) <= %s" % (R(b), R(a), p, p, R(L), tol)]
    if kind == "circle":
        # (n-1) chords of 2 r |sin(step/2)|                               (Proofs: fc_length_circle)
        return ["Rabs (%d * (2 * circle_radius %so %srim %sk * Rabs (sin ((%s - %s) / %d / 2))) - %s) <= %s"
                % (n - 1, p, p, p, R(b), R(a), n - 1, R(L), tol)]
    # helix: chords sqrt((2 r sin(step/2))^2 + (h step)^2)
    sp = cc.spec
    return ["Rabs (%d * sqrt ((2 * %s * sin ((%s - %s) / %d / 2)) ^ 2 + (%s * ((%s - %s) / %d)) ^ 2) - %s) <= %s"
            % (n - 1, R(sp["r"]), R(b), R(a), n - 1, R(sp["h"]), R(b), R(a), n - 1, R(L), tol)]


def case_goal(cc, case, res):
    """Run the implementation on the case; return the list of conjuncts of its Coq goal (or raise Boundary)."""
    curve, kind, p = cc.curve, cc.kind, cc.p
    tol = R(cc.tol)
    op = case["op"]
    if op == "point":
        conj = []
        if kind in ("linear", "spline"):
            if cc.spec["equalize"]:
                conj.append("close_rlist %s (chord_params %spts) %sts" % (R(1e-9), p, p))
            else:
                conj.append("close_rlist %s (uniform_params %d) %sts" % (R(1e-9), len(cc.pts), p))
        if kind == "spline":
            # make_interp_spline assumption: the black box interpolates its knots
            conj.append("close_list %s %sfk %spts" % (tol, p, p))
        if kind == "linear":
            for i, t in enumerate(cc.ts):
                e, c = cc.point(R(t), t)
                conj += c
                conj.append("dist %s %s <= %s" % (e, V(curve.get_point(t)), tol))
        if kind == "discrete":
            conj.append("close_list %s (map (dc_point %spts) (seq 0 %d)) %s" % (tol, p, len(cc.pts), VL([curve.get_point(i) for i in range(len(cc.pts))])))
        if kind == "circle":
            conj.append("dist (unit %snrm) %sk <= %s" % (p, p, R(1e-12)))
        if kind in ("line", "circle", "helix"):
            for t in (cc.lo, cc.hi):
                e, c = cc.point(R(t), t)
                conj.append("dist %s %s <= %s" % (e, V(curve.get_point(t)), tol))
        return conj
    if op == "pointat":
        t = case["t"]
        py = curve.get_point(t)
        if kind == "discrete":
            return ["dist (dc_point %spts %d) %s <= %s" % (p, t, V(py), tol)]
        pe = cc.point(R(t), t)
        if pe is None:
            raise Boundary()
        e, c = pe
        return c + ["dist %s %s <= %s" % (e, V(py), tol)]
    if op == "discretize":
        a, b, cnt = case["a"], case["b"], case["count"]
        if kind == "discrete":
            py = curve.discretize(a, b)
            return ["close_list %s (dc_discretize %spts %d %d) %s" % (tol, p, a, b, VL(py))]
        py = curve.discretize(a, b, cnt)
        if len(py) != cnt:
            return ["False"]
        if kind in ("line", "circle", "helix"):
            return ["close_list %s (fc_discretize %s %s %s %d) %s" % (tol, cc.F, R(a), R(b), cnt, VL(py))]
        if kind == "linear":
            conj = []
            lin = np.linspace(a, b, cnt)
            for k in range(cnt):
                e, c = cc.point("(lin_at %s %s %d %d)" % (R(a), R(b), cnt, k), float(lin[k]), exact=False)
                conj += c
                conj.append("dist %s %s <= %s" % (e, V(py[k]), tol))
            return conj
        # spline: the model says map f (linspace a b n) for the black box f: compare with the black box itself
        lin = np.linspace(a, b, cnt)
        vals = [curve.function(float(t)) for t in lin]
        return ["close_rlist %s (linspace %s %s %d) %s" % (R(1e-12 * max(1.0, abs(a), abs(b))), R(a), R(b), cnt, RL(lin)),
                "close_list %s %s %s" % (tol, VL(vals), VL(py))]
    if op == "length":
        a, m, b = case["a"], case["m"], case["b"]
        conj = []
        for (x, y) in ((a, b), (b, a), (a, m), (m, b)):
            conj += length_conj(cc, x, y, float(curve.get_length(x, y)))
        return conj
    if op == "closest":
        q = np.array(case["q"])
        r = curve.get_closest_param(q)
        if kind == "discrete":
            ds = sorted(float(np.linalg.norm(np.array(x) - q)) for x in cc.pts)
            if ds[1] - ds[0] < 1e-9 * cc.size:
                raise Boundary()
            k = int(r)
            return ["argmin_at (map (fun x => dist x %s) %spts) (dist (dc_point %spts %d) %s) %d" % (V(q), p, p, k, V(q), k)]
        r = float(r)
        t0 = coarse_param(curve, q)
        cnt = cc.n_coarse
        lin = np.linspace(cc.lo, cc.hi, cnt)
        k = int(np.argmin(np.abs(lin - t0)))
        cs = curve.discretize()
        ds = sorted(float(np.linalg.norm(x - q)) for x in cs)
        if ds[1] - ds[0] < 1e-9 * cc.size:
            raise Boundary()
        conj = ["Rabs (lin_at %s %s %d %d - %s) <= %s" % (R(cc.lo), R(cc.hi), cnt, k, R(t0), R(1e-12 * max(1.0, abs(cc.lo), abs(cc.hi))))]
        Q = V(q)
        if kind in ("line", "circle", "helix"):
            conj.append("argmin_at (map (fun x => dist x %s) (fc_discretize %s %s %s %d)) (dist (%s (lin_at %s %s %d %d)) %s) %d"
                        % (Q, cc.F, R(cc.lo), R(cc.hi), cnt, cc.F, R(cc.lo), R(cc.hi), cnt, k, Q, k))
        else:
            # piecewise-linear / black-box curve: coarse points as returned by discretize() (compared with the model in
            # the discretize cases), argmin over them
            conj.append("argmin_at (map (fun x => dist x %s) %s) (dist %s %s) %d" % (Q, VL(cs), V(cs[k]), Q, k))
        # the minimiser assumption, monitored: not farther than its start point, inside the bounds
        pr, p0 = cc.point(R(r), r), cc.point(R(t0), t0)
        if pr is not None:
            conj += pr[1] + p0[1]
            conj.append("dist %s %s <= dist %s %s + %s" % (pr[0], Q, p0[0], Q, R(1e-9 * case["extent"])))
        conj.append("%s <= %s" % (R(cc.lo), R(r)))
        conj.append("%s <= %s" % (R(r), R(cc.hi)))
        # certificates of global optimality (Proofs: line_closest_cert, circle_closest_cert)
        if kind == "line":
            conj.append("line_defect %sp1 %sp2 %s %s %s %s <= %s" % (p, p, R(cc.lo), R(cc.hi), Q, R(r), R(1e-4 * case["extent"])))
        if kind == "circle" and case["near"] and cc.lo + 1e-3 < r < cc.hi - 1e-3:
            conj.append("circle_defect %so %srim (unit %snrm) %s %s <= %s" % (p, p, p, Q, R(r), R(1e-4 * case["extent"])))
        return conj
    if op == "edge":
        ob = make_edge(curve, case["v1"], case["v2"], case["n_points"], case["representation"])
        res.count("edge written as " + ob["keyword"])
        ps, pe, n = ob["ps"], ob["pe"], case["n_points"]
        py = ob["points"]
        if kind == "discrete":
            a, b = int(ps), int(pe)
            conj = ["close_list %s (dc_edge_points %spts %d %d) %s" % (tol, p, a, b, VL(py))]
            if a != b:
                conj += length_conj(cc, a, b, ob["length"])
            return conj
        if len(py) != n:
            return ["False"]
        conj = []
        if kind in ("line", "circle", "helix"):
            conj.append("close_list %s (edge_points %s %s %s %d) %s" % (tol, cc.F, R(ps), R(pe), n, VL(py)))
        else:
            lin = np.linspace(ps, pe, n + 2)[1:-1]
            if kind == "linear":
                for k in range(n):
                    e, c = cc.point("(nth %d (edge_params %s %s %d) 0)" % (k, R(ps), R(pe), n), float(lin[k]), exact=False)
                    conj += c
                    conj.append("dist %s %s <= %s" % (e, V(py[k]), tol))
            else:
                vals = [curve.function(float(t)) for t in lin]
                conj.append("close_rlist %s (edge_params %s %s %d) %s" % (R(1e-12 * max(1.0, abs(ps), abs(pe))), R(ps), R(pe), n, RL(lin)))
                conj.append("close_list %s %s %s" % (tol, VL(vals), VL(py)))
        conj += length_conj(cc, ps, pe, ob["length"])
        return conj
    raise ValueError(op)


KINDS = ["discrete", "linear", "linear", "spline", "line", "circle", "helix"]


def strip(case):
    return {k: v for k, v in case.items()}


class C16(Prop):
    pid = "C16"
    title = "Curve points, lengths and closest-parameter queries are mutually consistent"
    prebuilt = ["Base/Vec3.v", "Model/C16_Curves.v", "Proofs/C16_Curves.v"]
    gen_dependent_files = []
    property_files = ["Properties/C16.v"]
    trusted = [
        "scipy.interpolate.make_interp_spline is a black box assumed to interpolate its knots (monitored on every spline curve)",
        "scipy.optimize.minimize inside get_closest_param is a black box assumed to return a parameter inside the bounds whose "
        "point is not farther from the query than the start point (monitored on every query); for line and circle curves its "
        "result is certified against the closed-form optimum, for other curves dense-sample optimality is validated only",
        "scipy.interpolate.interp1d(kind=linear) and scipy.linalg.expm of a skew matrix are modelled (piecewise-linear "
        "interpolation, Rodrigues' formula) and compared on every case",
        "the correspondence is sampled (random curves, parameters and queries), not exhaustive; the numbers of samples of the "
        "coarse stage (15) and of AnalyticCurve.get_length (100) are parameters of the model read from the implementation",
    ]
    partial = [
        "C16_closest_dense_partial: proved = the result is at least as close as every coarse sample given the minimiser "
        "assumption, and globally optimal up to a computable defect for line and circle curves; missing = optimality against "
        "every point of an arbitrary (interpolated/analytic) curve, which depends on scipy's minimiser",
        "C16_spline_partial: spline statements rest on the interpolation assumption for make_interp_spline; additivity of the "
        "spline length holds for splits at knots only (chords through the knots)",
        "C16_analytic_additive_partial: for analytic curves the 100-chord length is additive exactly for lines; for circles the "
        "closed form (n-1) 2 r |sin(step/2)| is proved and additivity holds up to the discretisation error",
    ]

    def correspond(self, ctx):
        res = CorrResult()
        res.rule = ("random curves (discrete, linear- and spline-interpolated with uneven spacing, line, circle, helix) x "
                    "{points at knots/bounds, get_point, discretize in either order, get_length over a split in both orders, "
                    "get_closest_param near/far, OnCurve edge through Mesh.assemble}; model evaluated by `interval` on the same "
                    "dyadic inputs; tolerance 1e-9 x size (1e-4 x extent downstream of the minimiser); non-trivial = every case "
                    "except degenerate ones skipped as boundary; distinct by (curve, case) JSON")
        ncurves = ctx.n(84, 700)
        all_cases = []  # (gid, cc, case)
        ccs = []
        gid = 0
        for k in range(ncurves):
            kind = KINDS[k % len(KINDS)]
            spec = gen_spec(ctx.rng, kind)
            try:
                curve = build(spec)
                cc = CurveCtx(k, spec, curve)
                cc.n_coarse, cc.n_len = (None, None) if kind == "discrete" else observed_counts(curve)
            except Exception as e:
                res.oracle_failures.append(dict(op="build", spec=spec, why="raises %s: %s" % (type(e).__name__, str(e)[:200])))
                continue
            ccs.append(cc)
            for case in gen_cases(ctx.rng, cc):
                all_cases.append((gid, cc, case))
                gid += 1
        # implementation + oracle + goal text
        goals = {}  # curve index -> list of goal texts
        info = {}
        for (g, cc, case) in all_cases:
            res.evaluations += 1
            res.count("kind=" + cc.kind)
            res.count("op=" + case["op"])
            if case["op"] != "pointat":
                why = safe_oracle(case)
                if why:
                    rp = strip(case)
                    rp["why"] = why
                    res.oracle_failures.append(rp)
            try:
                conj = case_goal(cc, case, res)
            except Boundary:
                res.boundary += 1
                continue
            except Exception as e:
                # the implementation raised on a valid input: the oracle reports it; the model has no value to compare
                res.mismatches.append(dict(case=g, op=case["op"], spec=cc.spec, impl="raises %s: %s" % (type(e).__name__, str(e)[:200]),
                                           args={k: v for k, v in case.items() if k != "spec"}))
                continue
            if not conj:
                continue
            goals.setdefault(cc.k, []).append(goal(g, conj))
            info[g] = (cc, case)
            res.distinct.add(json.dumps(case, sort_keys=True, default=str))
        res.samples = [dict(case={k: v for k, v in c.items()}) for (_g, _cc, c) in all_cases[:3]]
        # shard: whole curves per file
        shards = []
        cur, cur_n, idx = [], 0, 0
        per = ctx.n(45, 60)
        for cc in ccs:
            gl = goals.get(cc.k, [])
            if not gl:
                continue
            cur.append("\n".join(cc.defs) + "\n" + "\n".join(gl))
            cur_n += len(gl)
            if cur_n >= per:
                shards.append(("cases_%d" % idx, PREAMBLE + "\n".join(cur)))
                cur, cur_n, idx = [], 0, idx + 1
        if cur:
            shards.append(("cases_%d" % idx, PREAMBLE + "\n".join(cur)))
        ok, bad = set(), set()
        for (name, rc, so, se) in core.run_cases_parallel(ctx, shards, timeout=1500):
            if rc != 0:
                res.error = "case file %s failed to compile: %s" % (name, se[-800:])
                return res
            ok.update(int(x) for x in re.findall(r"^OK (\d+)$", so, flags=re.M))
            bad.update(int(x) for x in re.findall(r"^MISMATCH (\d+)$", so, flags=re.M))
        for g in info:
            if g in bad or g not in ok:
                cc, case = info[g]
                res.mismatches.append(dict(case=g, op=case["op"], spec=cc.spec, silent=(g not in bad),
                                           args={k: v for k, v in case.items() if k != "spec"}))
        res.traces = len(ok)
        self._info = info
        return res

    def search(self, ctx, broken, corr):
        fails = []
        # 1. the mismatching cases themselves
        for m in corr.mismatches[:40]:
            case = dict(m["args"])
            case["spec"] = m["spec"]
            if case["op"] == "pointat":
                case["op"] = "point"
            why = safe_oracle(case)
            if why:
                case["why"] = why
                fails.append(case)
        if fails:
            return fails[:5]
        # 2. seeded random search with the direct oracle, more cases per curve
        for k in range(ctx.n(150, 1500)):
            kind = KINDS[k % len(KINDS)]
            spec = gen_spec(ctx.rng, kind)
            try:
                curve = build(spec)
                cc = CurveCtx(k, spec, curve)
            except Exception:
                continue
            for case in gen_cases(ctx.rng, cc):
                if case["op"] == "pointat":
                    continue
                why = safe_oracle(case)
                if why:
                    case["why"] = why
                    fails.append(case)
                    if len(fails) >= 3:
                        return fails
        return fails

    def signature(self, rp):
        why = rp.get("why", "")
        why = re.sub(r"[-+]?\d+\.?\d*(e[-+]?\d+)?", "#", why)
        return "C16:%s:%s:%s" % (rp.get("op"), rp.get("spec", {}).get("kind"), why[:60])

    def replay(self, ctx, obj):
        case = {k: v for k, v in obj.items() if k not in ("why", "signature", "property", "broken_obligations")}
        print("case:", json.dumps({k: v for k, v in case.items() if k != "spec"}))
        print("curve:", json.dumps(case["spec"]))
        try:
            curve = build(case["spec"])
            op = case["op"]
            if op == "length":
                a, m, b = case["a"], case["m"], case["b"]
                print("implementation: L(a,b)=%r L(b,a)=%r L(a,m)=%r L(m,b)=%r" % (
                    curve.get_length(a, b), curve.get_length(b, a), curve.get_length(a, m), curve.get_length(m, b)))
            elif op == "discretize":
                print("implementation:", (curve.discretize(case["a"], case["b"], case["count"]) if case["spec"]["kind"] != "discrete"
                                          else curve.discretize(case["a"], case["b"])).tolist())
            elif op == "closest":
                print("implementation:", curve.get_closest_param(case["q"]))
            elif op == "edge":
                print("implementation:", make_edge(curve, case["v1"], case["v2"], case["n_points"], case["representation"]))
        except Exception as e:
            print("implementation raises", type(e).__name__, e)
        print("oracle:", safe_oracle(case) or "ok")
        return 0


PROP = C16()
