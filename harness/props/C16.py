"""C16 - Curve points, lengths and closest-parameter queries are mutually consistent.

Tie (N): every case runs the real curve classes of /repo; the model is evaluated inside Coq on the same exact
binary64 inputs.  Everything piecewise linear (linspace, linear interpolation, line curve, slices of a discrete
curve, knots between two parameters, argmin) is rational arithmetic: coq/Model/C16_CurvesQ.v evaluates it with
vm_compute over Q, square roots (lengths, chord-length parameters) are enclosed with the integer square root
(Proofs/C16_QSound.v ties these evaluators to the real-valued model coq/Model/C16_Curves.v).  Only the circle and
helix points need the `interval` tactic (a few goals per curve).  Black boxes (scipy's spline, scipy's minimiser)
enter through the values they returned, their assumed behaviour is monitored.  The direct oracle states the
property on the observable output only.
"""
import hashlib
import json
import math
import os
import re
import warnings

import numpy as np

import core
from core import CorrResult, Prop

R = core.float_to_R


def V(p):
    return "(%s, %s, %s)" % (R(p[0]), R(p[1]), R(p[2]))


def VL(ps):
    return "[" + "; ".join(V(p) for p in ps) + "]"


def RL(ts):
    return "[" + "; ".join(R(t) for t in ts) + "]"


def fl(x):
    return [float(v) for v in x]


def _cb():
    import classy_blocks as cb
    return cb


# ------------------------------------------------------------------------------------------------
# curve specifications (JSON) and their construction


def rand_rot(rng):
    ax = np.array([rng.gauss(0, 1) for _ in range(3)])
    ax /= np.linalg.norm(ax)
    ang = rng.uniform(0, 2 * math.pi)
    K = np.array([[0, -ax[2], ax[1]], [ax[2], 0, -ax[0]], [-ax[1], ax[0], 0]])
    return np.eye(3) + math.sin(ang) * K + (1 - math.cos(ang)) * (K @ K)


def gen_points(rng, n, mild=False):
    """n points on a smooth, gently turning base curve, sampled with uneven spacing, in a random frame.
    mild: spacing ratio at most 2.5 (a spline through strongly uneven points with evenly spaced parameters
    overshoots and nearly touches itself; closest-parameter queries are then ill-posed)"""
    scale = 10 ** rng.uniform(-2, 2)
    w = rng.uniform(0.3, 2.0)
    a = rng.uniform(0.1, 0.6)
    b = rng.uniform(-0.4, 0.4)
    phi = rng.uniform(0, 2 * math.pi)
    gaps = [rng.uniform(1, 8) if rng.random() < 0.5 else rng.uniform(0.15, 1) for _ in range(n - 1)]
    if mild:
        gaps = [rng.uniform(1, 2.5) for _ in range(n - 1)]
    s = np.concatenate(([0.0], np.cumsum(gaps)))
    s = s / s[-1]
    base = np.array([[si, a * math.sin(w * si + phi), b * si * si] for si in s])
    rot = rand_rot(rng)
    off = np.array([rng.uniform(-1, 1) for _ in range(3)])
    pts = (base @ rot.T + off) * scale
    return [fl(p) for p in pts]


def gen_pre(rng, scale):
    """transformations applied to a point-based curve AFTER construction (a transformed curve is a curve: everything
    the property says must hold for it with its current points; a shear changes the chord-length parameters)"""
    out = []
    for _ in range(rng.randint(1, 2)):
        k = rng.choice(["shear", "shear", "shear", "translate", "rotate", "scale", "mirror"])
        v = [rng.uniform(-1, 1) for _ in range(3)]
        o = [rng.uniform(-1, 1) * scale for _ in range(3)]
        if k == "translate":
            out.append(["translate", [x * scale for x in v]])
        elif k == "rotate":
            out.append(["rotate", rng.uniform(-3, 3), v, o])
        elif k == "scale":
            out.append(["scale", rng.choice([0.5, 2.0, 3.0]), o])
        elif k == "mirror":
            out.append(["mirror", v, o])
        else:
            n = np.array(v) / np.linalg.norm(v)
            d = np.cross(n, [rng.gauss(0, 1) for _ in range(3)])
            out.append(["shear", fl(n), o, fl(d / np.linalg.norm(d)), rng.choice([-1.1, -0.7, 0.6, 0.9, 1.2])])
    return out


def with_pre(rng, spec):
    """sometimes: construct from points0, transform, and describe the curve by the points it has afterwards"""
    if rng.random() < 0.4:
        spec = dict(spec, points0=spec["points"], pre=gen_pre(rng, float(np.max(np.abs(np.array(spec["points"]))))))
        spec["points"] = [fl(p) for p in build(spec).array.points]
    return spec


def gen_spec(rng, kind):
    if kind in ("discrete", "linear", "spline"):
        return with_pre(rng, gen_spec_plain(rng, kind))
    return gen_spec_plain(rng, kind)


def gen_spec_plain(rng, kind):
    if kind == "discrete":
        return dict(kind=kind, points=gen_points(rng, rng.randint(3, 9)))
    if kind == "linear":
        pts = gen_points(rng, rng.randint(3, 8))
        if rng.random() < 0.15:
            # a point list put together from two pieces, with the joint in both (equalized: the doubled point has one parameter)
            i = rng.randrange(1, len(pts) - 1)
            pts.insert(i, list(pts[i]))
            return dict(kind=kind, points=pts, equalize=True, doubled=True)
        return dict(kind=kind, points=pts, equalize=rng.random() < 0.7)
    if kind == "spline":
        eq = rng.random() < 0.7
        return dict(kind=kind, points=gen_points(rng, rng.randint(4, 8), mild=not eq), equalize=eq)
    if kind == "zigzag":
        # a polyline through unrelated random points: it turns sharply and comes close to itself
        pts = [[rng.uniform(-4, 4) for _ in range(3)] for _ in range(rng.randint(4, 8))]
        return dict(kind="linear", points=pts, equalize=True, zigzag=True)
    if kind == "seamcircle":
        # a closed circle (bounds 0..2 pi): queries and edge vertices next to its seam, see gen_cases
        return dict(gen_spec_plain(rng, "circle"), bounds=[0.0, 2 * math.pi], seam=True)
    scale = 10 ** rng.uniform(-2, 2)
    if kind == "line":
        p1 = [rng.uniform(-1, 1) * scale for _ in range(3)]
        p2 = [p1[i] + rng.uniform(-1, 1) * scale for i in range(3)]
        bounds = rng.choice([[0.0, 1.0], [0.0, 1.0], [-0.5, 1.5], [0.25, 2.0]])
        return dict(kind=kind, p1=p1, p2=p2, bounds=bounds)
    if kind == "circle":
        o = np.array([rng.uniform(-1, 1) * scale for _ in range(3)])
        n = np.array([rng.gauss(0, 1) for _ in range(3)])
        n /= np.linalg.norm(n)
        u = np.cross(n, [rng.gauss(0, 1) for _ in range(3)])
        u /= np.linalg.norm(u)
        rim = o + u * rng.uniform(0.2, 1) * scale
        nrm = n * rng.uniform(0.3, 3)
        if rng.random() < 0.5:
            bounds = [0.0, 2 * math.pi]
        else:
            lo = rng.uniform(-1, 1)
            bounds = [lo, lo + rng.uniform(0.5, 4.0)]
        return dict(kind=kind, origin=fl(o), rim=fl(rim), normal=fl(nrm), bounds=bounds)
    if kind == "helix":
        o = [rng.uniform(-1, 1) * scale for _ in range(3)]
        lo = rng.uniform(-1, 1)
        return dict(kind=kind, origin=o, r=rng.uniform(0.2, 1) * scale, h=rng.uniform(-0.5, 0.5) * scale,
                    bounds=[lo, lo + rng.uniform(0.5, 5.0)])
    raise ValueError(kind)


def apply_pre(curve, pre):
    for t in pre:
        if t[0] == "translate":
            curve.translate(t[1])
        elif t[0] == "rotate":
            curve.rotate(t[1], t[2], t[3])
        elif t[0] == "scale":
            curve.scale(t[1], t[2])
        elif t[0] == "mirror":
            curve.mirror(t[1], t[2])
        elif t[0] == "shear":
            curve.shear(t[1], t[2], t[3], t[4])
        else:
            raise ValueError(t[0])
    return curve


def build(spec):
    cb = _cb()
    k = spec["kind"]
    if "pre" in spec:
        # constructed from the original points, then transformed (spec["points"] = the points it has afterwards)
        return apply_pre(build({kk: v for kk, v in dict(spec, points=spec["points0"]).items() if kk != "pre"}), spec["pre"])
    if k == "discrete":
        return cb.DiscreteCurve(spec["points"])
    if k == "linear":
        return cb.LinearInterpolatedCurve(spec["points"], equalize=spec["equalize"])
    if k == "spline":
        return cb.SplineInterpolatedCurve(spec["points"], equalize=spec["equalize"])
    if k == "line":
        return cb.LineCurve(spec["p1"], spec["p2"], tuple(spec["bounds"]))
    if k == "circle":
        return cb.CircleCurve(spec["origin"], spec["rim"], spec["normal"], tuple(spec["bounds"]))
    if k == "helix":
        o, r, h = np.array(spec["origin"], dtype=float), spec["r"], spec["h"]
        return cb.AnalyticCurve(lambda t: o + np.array([r * math.cos(t), r * math.sin(t), h * t]), tuple(spec["bounds"]))
    raise ValueError(k)


def size_of(spec):
    k = spec["kind"]
    if k in ("discrete", "linear", "spline"):
        return float(np.max(np.abs(np.array(spec["points"]))))
    if k == "line":
        return float(max(np.max(np.abs(spec["p1"])), np.max(np.abs(spec["p2"])))) * 2.0
    if k == "circle":
        return float(np.max(np.abs(spec["origin"])) + np.linalg.norm(np.array(spec["rim"]) - np.array(spec["origin"])))
    return float(np.max(np.abs(spec["origin"])) + spec["r"] + abs(spec["h"]) * max(abs(b) for b in spec["bounds"]))


def extent_of(curve, spec):
    """a length scale of the curve itself (for 'near'/'far' and the minimiser tolerance)"""
    if spec["kind"] == "discrete":
        pts = np.array(spec["points"])
    else:
        pts = np.array([curve.get_point(t) for t in np.linspace(curve.bounds[0], curve.bounds[1], 30)])
    return float(np.linalg.norm(pts.max(axis=0) - pts.min(axis=0)))


# ------------------------------------------------------------------------------------------------
# observation helpers (implementation side)


def observed_counts(curve):
    """number of samples of the coarse stage and of AnalyticCurve.get_length, read from the implementation's behaviour
    (n_len is None for curves whose length is not a polyline through a discretisation of the whole range)"""
    coarse = len(curve.discretize())
    n_len = None
    if isinstance(curve, _cb().AnalyticCurve):
        lo, hi = curve.bounds[0], curve.bounds[1]
        rec = []
        orig = curve.discretize

        def spy(*a, **k):
            out = orig(*a, **k)
            rec.append(len(out))
            return out

        curve.discretize = spy
        try:
            L = float(curve.get_length(lo, hi))
        finally:
            del curve.discretize

        def fits(n):
            pts = np.asarray(curve.discretize(lo, hi, n))
            ref = float(np.sum(np.sqrt(np.sum((pts[1:] - pts[:-1]) ** 2, axis=1))))
            return len(pts) == n and abs(ref - L) <= 1e-12 * max(abs(L), 1e-300)

        cands = [n for n in dict.fromkeys(rec + [100, 50, 200, 500, 1000] + list(range(2, 400))) if n >= 2]
        for n in cands:
            if fits(n):
                n_len = n
                break
        if n_len is None:
            raise RuntimeError("AnalyticCurve.get_length is not the polyline through a discretisation of the range")
    return coarse, n_len


def closest_with_start(curve, q):
    """(result of get_closest_param, runs): runs = [(start value handed to scipy.optimize.minimize, parameter it returned), ...]
    in the order of the calls, or None if the minimiser was not called at all (search rewritten?)"""
    import scipy.optimize as so
    rec = []
    orig = so.minimize

    def spy(fun, x0, *a, **k):
        out = orig(fun, x0, *a, **k)
        rec.append((float(np.atleast_1d(x0)[0]), float(np.atleast_1d(out.x)[0])))
        return out

    so.minimize = spy
    try:
        r = curve.get_closest_param(q)
    finally:
        so.minimize = orig
    return r, (rec if rec else None)


def coarse_params(curve, q):
    """results of the coarse stage of the search = the start values of the minimiser runs (observed, not re-implemented)"""
    runs = closest_with_start(curve, q)[1]
    return None if runs is None else [t0 for (t0, _x) in runs]


def make_edge(curve, v1, v2, n_points, representation):
    """a block edge snapped to the curve, observed after Mesh.assemble()"""
    cb = _cb()
    v1, v2 = np.array(v1, dtype=float), np.array(v2, dtype=float)
    d = v2 - v1
    L = float(np.linalg.norm(d))
    e1 = np.cross(d, [0.3, 0.5, 0.8])
    if np.linalg.norm(e1) < 1e-3 * L:
        e1 = np.cross(d, [1.0, 0, 0])
    e1 = e1 / np.linalg.norm(e1) * L
    e2 = np.cross(d, e1)
    e2 = e2 / np.linalg.norm(e2) * L
    # for half of the inputs (decided by the input, so that replays agree) the block is first assembled, and its edge
    # evaluated, with the second vertex at ANOTHER point of the curve; the vertex is then moved along the curve to v2 - what
    # an optimizer with a curve clamp does before the mesh is written.  The edge is a function of where its vertices are now.
    v2_first = v2
    if int(hashlib.sha1(json.dumps([fl(v1), fl(v2), n_points, representation]).encode()).hexdigest()[:4], 16) % 2 == 0:
        try:
            t1, t2 = curve.get_closest_param(v1), curve.get_closest_param(v2)
            tm = t1 + 0.6 * (t2 - t1)
            if type(curve).__name__ == "DiscreteCurve":
                tm = int(round(tm))
            cand = np.array(curve.get_point(tm), dtype=float)
            if np.linalg.norm(cand - v1) > 0.05 * L and np.linalg.norm(cand - v2) > 0.05 * L:
                v2_first = cand
        except Exception:  # noqa: BLE001
            v2_first = v2
    bottom = cb.Face([v1, v2_first, v2_first + e1, v1 + e1])
    top = cb.Face([v1 + e2, v2 + e2, v2 + e1 + e2, v1 + e1 + e2])
    loft = cb.Loft(bottom, top)
    loft.bottom_face.add_edge(0, cb.OnCurve(curve, n_points=n_points, representation=representation))
    mesh = cb.Mesh()
    mesh.add(loft)
    with warnings.catch_warnings():
        warnings.simplefilter("ignore")
        mesh.assemble()
    es = [e for e in mesh.edge_list.edges if e.kind == "curve"]
    if len(es) != 1:
        raise RuntimeError("expected exactly one curve edge, got %d" % len(es))
    e = es[0]
    if v2_first is not v2:
        for name in ("description", "length", "param_start", "param_end", "is_valid"):
            try:
                getattr(e, name)
            except Exception:  # noqa: BLE001
                pass
        e.vertex_2.move_to(v2)
    desc = e.description
    m = re.match(r"\s*(\w+)\s+(\d+)\s+(\d+)\s*\((.*)\)\s*$", desc, flags=re.S)
    if not m:
        raise RuntimeError("cannot parse edge description %r" % desc)
    written = [[float(x) for x in g.split()] for g in re.findall(r"\(([^()]*)\)", m.group(4))]
    i1, i2 = int(m.group(2)), int(m.group(3))
    verts = mesh.vertex_list.vertices
    return dict(ps=float(e.param_start), pe=float(e.param_end), points=[fl(p) for p in e.point_array],
                length=float(e.length), keyword=m.group(1), written=written,
                w1=fl(verts[i1].position), w2=fl(verts[i2].position))


# ------------------------------------------------------------------------------------------------
# model expressions


def Q(x):
    """exact binary64 literal: a Coq primitive float in hexadecimal notation, converted to Q by Model.C16_CurvesQ.fq"""
    x = float(x)
    if x != x or x in (float("inf"), float("-inf")):
        raise RuntimeError("non-finite number in a case")
    h = x.hex()
    return "(fq (%s))" % h if h.startswith("-") else "(fq %s)" % h


def QV(p):
    return "(%s, %s, %s)" % (Q(p[0]), Q(p[1]), Q(p[2]))


def QVL(ps):
    return "[" + "; ".join(QV(p) for p in ps) + "]"


def QL(ts):
    return "[" + "; ".join(Q(t) for t in ts) + "]"


TRANSCENDENTAL = ("circle", "helix")


class CurveCtx:
    """Coq definitions of one curve (prefix c<k>_) for the rational and for the real-valued case files."""

    def __init__(self, k, spec, curve):
        self.k = k
        self.spec = spec
        self.curve = curve
        self.kind = spec["kind"]
        self.size = max(size_of(spec), 1e-30)
        self.tol = 1e-9 * self.size
        self.qdefs = []
        self.rdefs = []
        self.FQ = None  # rational evaluator of the curve function
        self.F = None  # real-valued model of the curve function
        p = "c%d_" % k
        self.p = p
        if self.kind in ("discrete", "linear", "spline"):
            self.pts = [fl(x) for x in spec["points"]]
            self.qdefs.append("Definition %spts : list qvec := %s." % (p, QVL(self.pts)))
        if self.kind in ("linear", "spline"):
            self.ts = fl(curve.function.params)
            if len(self.ts) != len(self.pts):
                raise RuntimeError("interpolator has %d parameters for %d points" % (len(self.ts), len(self.pts)))
            self.qdefs.append("Definition %sts : list Q := %s." % (p, QL(self.ts)))
        if self.kind == "linear":
            self.FQ = "(qlin_point %sts %spts)" % (p, p)
        if self.kind == "spline":
            self.fk = [fl(curve.function(t)) for t in self.ts]  # black box values at the knots
            self.qdefs.append("Definition %sfk : list qvec := %s." % (p, QVL(self.fk)))
        if self.kind == "line":
            self.qdefs.append("Definition %sp1 : qvec := %s.\nDefinition %sp2 : qvec := %s." % (p, QV(spec["p1"]), p, QV(spec["p2"])))
            self.FQ = "(qline_point %sp1 %sp2)" % (p, p)
        if self.kind == "circle":
            self.kvec = fl(curve.normal)
            self.rdefs.append("Definition %so : vec := %s.\nDefinition %srim : vec := %s.\nDefinition %snrm : vec := %s.\nDefinition %sk : vec := %s."
                              % (p, V(spec["origin"]), p, V(spec["rim"]), p, V(spec["normal"]), p, V(self.kvec)))
            self.F = "(circle_point_k %so %srim %sk)" % (p, p, p)
        if self.kind == "helix":
            o = spec["origin"]
            self.F = "(fun t : R => (%s + %s * cos t, %s + %s * sin t, %s + %s * t))" % (
                R(o[0]), R(spec["r"]), R(o[1]), R(spec["r"]), R(o[2]), R(spec["h"]))
        self.lo, self.hi = float(curve.bounds[0]), float(curve.bounds[1])
        self.n_coarse = None
        self.n_len = None


QPREAMBLE = """From Coq Require Import QArith ZArith List Bool Arith Floats.
From CB Require Import Model.C16_Curves Model.C16_CurvesQ.
Import ListNotations.
Open Scope Q_scope.
"""

RPREAMBLE = """From Coq Require Import Reals List ZArith.
From Interval Require Import Tactic.
From CB Require Import Base.Vec3 Model.C16_Curves.
Import ListNotations.
Open Scope R_scope.
Ltac ev := cbv - [Rplus Rminus Rmult Rdiv Ropp Rinv sqrt Rabs cos sin IZR powerRZ Rle Rlt PI].
"""


def rgoal(gid, conj):
    body = " /\\\n  ".join("(%s)" % c for c in conj)
    return ("Goal %s.\nProof. ev. first [ solve [repeat split; interval with (i_prec 60)]; idtac \"OK %d\" "
            "| solve [repeat split; interval with (i_prec 120)]; idtac \"OK %d\" | idtac \"MISMATCH %d\" ]. Abort.\n"
            % (body, gid, gid, gid))


# ------------------------------------------------------------------------------------------------
# the direct oracle (implementation only)


def dense_min(curve, q, n=600):
    """smallest distance of q to the curve on a dense sample, refined around the best sample"""
    lo, hi = float(curve.bounds[0]), float(curve.bounds[1])
    ts = np.linspace(lo, hi, n)
    ds = [float(np.linalg.norm(curve.get_point(t) - q)) for t in ts]
    i = int(np.argmin(ds))
    a, b = ts[max(i - 1, 0)], ts[min(i + 1, n - 1)]
    ts2 = np.linspace(a, b, 200)
    ds2 = [float(np.linalg.norm(curve.get_point(t) - q)) for t in ts2]
    j = int(np.argmin(ds2))
    return ds2[j], float(ts2[j])


def param_of(curve, p, lo, hi, n=300):
    """(parameter in [lo, hi] whose curve point is nearest to p, that distance): dense sampling, then a bounded scalar
    minimisation around the best sample (independent of the library's get_closest_param)"""
    import scipy.optimize
    if hi - lo < 1e-12:
        return lo, float(np.linalg.norm(curve.get_point(lo) - p))
    ts = np.linspace(lo, hi, n)
    ds = [float(np.linalg.norm(curve.get_point(float(t)) - p)) for t in ts]
    i = int(np.argmin(ds))
    a, b = float(ts[max(i - 1, 0)]), float(ts[min(i + 1, n - 1)])
    r = scipy.optimize.minimize_scalar(lambda t: float(np.linalg.norm(curve.get_point(min(max(float(t), a), b)) - p)),
                                       bounds=(a, b), method="bounded", options=dict(xatol=1e-12 * max(1.0, abs(hi))))
    t = min(max(float(r.x), a), b)
    d = float(np.linalg.norm(curve.get_point(t) - p))
    if ds[i] < d:
        t, d = float(ts[i]), ds[i]
    return t, d


def oracle_case(case, ob=None):
    """Returns None or a string saying how the property fails on the implementation's output.
    ob: the observation of make_edge for an edge case, if the caller has it already."""
    spec = case["spec"]
    curve = build(spec)
    kind = spec["kind"]
    S = max(size_of(spec), 1e-30)
    tol = 1e-9 * S
    op = case["op"]
    if op == "point":
        # interpolation: the curve passes through its defining points
        if kind in ("linear", "spline"):
            ts = curve.function.params
            for i, p in enumerate(spec["points"]):
                d = float(np.linalg.norm(curve.get_point(float(ts[i])) - np.array(p)))
                if not d <= tol:
                    return "interpolated curve misses its defining point %d by %.3g" % (i, d)
        if kind == "discrete":
            for i, p in enumerate(spec["points"]):
                if not np.array_equal(curve.get_point(i), np.array(p, dtype=float)):
                    return "discrete curve point %d differs from its defining point" % i
        return None
    if op == "discretize":
        a, b, cnt = case["a"], case["b"], case["count"]
        pts = curve.discretize(a, b, cnt) if kind != "discrete" else curve.discretize(a, b)
        d0 = float(np.linalg.norm(pts[0] - curve.get_point(a)))
        d1 = float(np.linalg.norm(pts[-1] - curve.get_point(b)))
        if not (d0 <= tol and d1 <= tol):
            return "discretize(%r, %r) starts %.3g / ends %.3g away from the curve points of its parameters" % (a, b, d0, d1)
        if kind == "discrete" and len(pts) != abs(int(b) - int(a)) + 1:
            return "discretize(%r, %r) of a discrete curve returns %d points" % (a, b, len(pts))
        if kind != "discrete" and len(pts) != cnt:
            return "discretize returns %d points instead of %d" % (len(pts), cnt)
        return None
    if op == "length":
        a, m, b = case["a"], case["m"], case["b"]
        Lab, Lba = float(curve.get_length(a, b)), float(curve.get_length(b, a))
        Lam, Lmb = float(curve.get_length(a, m)), float(curve.get_length(m, b))
        if not abs(Lab - Lba) <= tol:
            return "length depends on the order of the parameters: L(%r,%r)=%.9g, L(%r,%r)=%.9g" % (a, b, Lab, b, a, Lba)
        defect = abs(Lam + Lmb - Lab)
        if kind in ("discrete", "linear", "line"):
            if not defect <= tol:
                return "length not additive: L(%r,%r)+L(%r,%r)=%.9g but L(%r,%r)=%.9g" % (a, m, m, b, Lam + Lmb, a, b, Lab)
        elif kind in ("circle", "helix"):
            if not defect <= 1e-3 * max(Lab, tol):
                return "length not additive within the discretisation tolerance: %.9g vs %.9g" % (Lam + Lmb, Lab)
        else:  # spline: chords through the knots; exact when the split is a knot, otherwise between chord and arc length
            dense = np.array([curve.get_point(t) for t in np.linspace(min(a, b), max(a, b), 2000)])
            arc = float(np.sum(np.sqrt(np.sum((dense[1:] - dense[:-1]) ** 2, axis=1))))
            on_knot = any(abs(m - t) <= 1e-15 for t in curve.function.params)
            if on_knot and not defect <= tol:
                return "length not additive over a split at a knot: %.9g vs %.9g" % (Lam + Lmb, Lab)
            if not (Lab - tol <= Lam + Lmb <= arc * (1 + 1e-5) + tol):
                return "spline length: split sum %.9g outside [chord length %.9g, arc length %.9g]" % (Lam + Lmb, Lab, arc)
        if kind == "linear":
            # equals the length of the polyline (computed here from the defining points, independently)
            ts = [float(t) for t in curve.function.params]
            pts = np.array(spec["points"], dtype=float)
            lo, hi = min(a, b), max(a, b)
            seq = [curve.get_point(lo)] + [pts[i] for i, t in enumerate(ts) if lo < t < hi] + [curve.get_point(hi)]
            ref = sum(float(np.linalg.norm(seq[i + 1] - seq[i])) for i in range(len(seq) - 1))
            if not abs(ref - Lab) <= tol:
                return "length %.9g between %r and %r differs from the polyline length %.9g" % (Lab, a, b, ref)
        if kind in ("linear", "spline") and case.get("full"):
            pts = np.array(spec["points"], dtype=float)
            ref = float(np.sum(np.sqrt(np.sum((pts[1:] - pts[:-1]) ** 2, axis=1))))
            Lf = float(curve.length)
            if not abs(ref - Lf) <= tol:
                return "full length %.9g differs from the length %.9g of the polyline through the defining points" % (Lf, ref)
        if kind == "linear" and spec["equalize"]:
            Lf = float(curve.length)
            if not abs(Lab - abs(b - a) * Lf) <= 1e-9 * max(Lf, tol):
                return "chord-length parameterisation: L(%r,%r)=%.9g is not |b-a| x total length %.9g" % (a, b, Lab, Lf)
        return None
    if op == "closest":
        q = np.array(case["q"], dtype=float)
        res = curve.get_closest_param(q)
        ext = case["extent"]
        if kind == "discrete":
            ds = [float(np.linalg.norm(np.array(p) - q)) for p in spec["points"]]
            if not ds[int(res)] <= min(ds) + tol:
                return "closest index %r is at distance %.9g, index %d at %.9g" % (res, ds[int(res)], int(np.argmin(ds)), min(ds))
            return None
        res = float(res)
        if not (curve.bounds[0] - 1e-12 <= res <= curve.bounds[1] + 1e-12):
            return "closest parameter %r outside the bounds" % res
        d = float(np.linalg.norm(curve.get_point(res) - q))
        # at least as close as every coarse sample (holds near and far)
        cs = curve.discretize()
        dc = min(float(np.linalg.norm(p - q)) for p in cs)
        if not d <= dc + 1e-9 * ext:
            return "closest parameter %r (distance %.9g) is farther than a coarse sample (%.9g)" % (res, d, dc)
        if case.get("seam"):
            # query next to the seam of a closed curve (both ends of the bounds are the same point): the property statement
            # itself - at least as close as every one of 2000 dense samples
            ts = np.linspace(float(curve.bounds[0]), float(curve.bounds[1]), 2000)
            dsm = [float(np.linalg.norm(curve.get_point(float(t)) - q)) for t in ts]
            i = int(np.argmin(dsm))
            if not d <= dsm[i] + 1e-4 * S:
                return ("query next to the seam of a closed curve: closest parameter %r at distance %.9g, dense sample t=%r at %.9g"
                        % (res, d, float(ts[i]), dsm[i]))
            return None
        if case["near"]:
            dd, td = dense_min(curve, q)
            if not d <= dd + 1e-4 * ext:
                t0s = coarse_params(curve, q)
                spacing = (float(curve.bounds[1]) - float(curve.bounds[0])) / max(len(cs) - 1, 1)
                if t0s and all(abs(t0 - td) > 1.5 * spacing for t0 in t0s):
                    return ("closest parameter misses the nearest part of the curve: every coarse sample the search starts from lies on "
                            "another part of the curve (coarse t=%r, nearest point at t=%r); result %r at distance %.9g, nearest %.9g"
                            % (t0s if len(t0s) > 1 else t0s[0], td, res, d, dd))
                return "closest parameter %r at distance %.9g, dense sample t=%r at %.9g" % (res, d, td, dd)
        return None
    if op == "edge":
        if ob is None:
            ob = make_edge(curve, case["v1"], case["v2"], case["n_points"], case["representation"])
        ext = case["extent"]
        ps, pe = ob["ps"], ob["pe"]
        pts = np.array(ob["points"]).reshape(-1, 3)
        if ob["keyword"] != case["representation"]:
            return "edge written as %s instead of %s" % (ob["keyword"], case["representation"])
        # the two parameters are those of the two vertices
        for nm, v, t in (("first", ob["w1"], ps), ("second", ob["w2"], pe)):
            tv = curve.get_closest_param(v)
            if not abs(float(tv) - t) <= 1e-6 * max(1.0, abs(t)):
                return "edge parameter %r is not the parameter %r of its %s vertex" % (t, tv, nm)
        if case.get("seam"):
            # both vertices lie on the (closed) curve: the curve points of the edge's two parameters are the vertices
            for nm, v, t in (("first", ob["w1"], ps), ("second", ob["w2"], pe)):
                dv = float(np.linalg.norm(curve.get_point(t) - np.array(v)))
                if not dv <= 1e-4 * S:
                    return ("vertex next to the seam of a closed curve: the curve point of the edge's parameter %r is %.9g away "
                            "from its %s vertex, which lies on the curve" % (t, dv, nm))
        lo, hi = min(ps, pe), max(ps, pe)
        if kind == "discrete":
            a, b = int(ps), int(pe)
            exp = [spec["points"][i] for i in (range(a + 1, b) if a <= b else range(a - 1, b, -1))]
            if len(exp) != len(pts) or any(float(np.linalg.norm(np.array(x) - y)) > tol for x, y in zip(exp, pts)):
                return "edge points are not the curve points strictly between indices %d and %d in that order" % (a, b)
        else:
            if len(pts) != case["n_points"]:
                return "edge has %d points instead of %d" % (len(pts), case["n_points"])
            last = None
            tparams = []
            for j, p in enumerate(pts):
                tj, dj = param_of(curve, p, lo, hi)
                tparams.append(tj)
                if not dj <= 1e-4 * ext:
                    return "edge point %d is %.3g away from the curve" % (j, dj)
                if not (lo - 1e-4 <= tj <= hi + 1e-4):
                    return "edge point %d has parameter %r outside [%r, %r] of the two vertices" % (j, tj, lo, hi)
                if last is not None and (tj - last) * (pe - ps) < -1e-4 * abs(pe - ps):
                    return "edge points do not run from the first vertex to the second"
                last = tj
            # not the end points themselves, evenly spread in the parameter
            if len(pts) and abs(pe - ps) > 1e-6:
                t0 = tparams[0]
                if not abs((t0 - ps) - (pe - ps) / (len(pts) + 1)) <= 1e-3 * abs(pe - ps) + 1e-4:
                    return "first edge point has parameter %r, expected %r" % (t0, ps + (pe - ps) / (len(pts) + 1))
        for w, p in zip(ob["written"], pts):
            if float(np.max(np.abs(np.array(w) - p))) > 0.6e-8:
                return "written point %r differs from the edge point %r" % (w, fl(p))
        if len(ob["written"]) != len(pts):
            return "written %d points, edge has %d" % (len(ob["written"]), len(pts))
        if ps != pe or kind != "discrete":
            Lc = float(curve.get_length(ps, pe))
            if not abs(ob["length"] - Lc) <= tol:
                return "edge length %.9g is not the curve length %.9g between its parameters" % (ob["length"], Lc)
        return None
    raise ValueError(op)


def safe_oracle(case, ob=None):
    try:
        return oracle_case(case, ob)
    except Exception as e:  # the property quantifies over valid inputs: an exception is a failure
        return "raises %s: %s" % (type(e).__name__, str(e)[:200])


# ------------------------------------------------------------------------------------------------
# case generation


def rand_param(rng, cc):
    lo, hi = cc.lo, cc.hi
    if cc.kind == "discrete":
        return rng.randint(int(lo), int(hi))
    r = rng.random()
    if cc.kind in ("linear", "spline") and r < 0.3:
        return float(rng.choice(cc.ts))
    if r < 0.4:
        return rng.choice([lo, hi])
    return rng.uniform(lo, hi)


def gen_cases(rng, cc):
    """list of cases (dicts) for one curve"""
    spec, curve, kind = cc.spec, cc.curve, cc.kind
    ext = extent_of(curve, spec)
    if spec.get("zigzag"):
        # queries on the curve itself (at its knots), where the coarse stage of the search is put to the test
        cases = [dict(op="point"), dict(op="length", a=cc.lo, m=float(rng.choice(cc.ts[1:-1])), b=cc.hi, full=True)]
        for i in rng.sample(range(len(cc.pts)), min(3, len(cc.pts))):
            cases.append(dict(op="closest", q=fl(cc.pts[i]), near=True, extent=ext))
        for c in cases:
            c["spec"] = spec
        return cases
    if spec.get("seam"):
        # closed curve: query points and an edge vertex within one coarse step on EITHER side of the seam (C16's quantifier
        # says "away from the seam" for the dense optimality of ordinary cases; these are a separate stream whose oracle is
        # the property statement itself, see oracle_case)
        lo, hi = cc.lo, cc.hi
        step = (hi - lo) / max((cc.n_coarse or 15) - 1, 1)
        cases = [dict(op="point")]
        for side in (0, 1, 0, 1):
            off = rng.uniform(0.02, 0.98) * step * (0.5 if rng.random() < 0.6 else 1.0)
            t = lo + off if side == 0 else hi - off
            d = np.array([rng.gauss(0, 1) for _ in range(3)])
            d /= np.linalg.norm(d)
            q = curve.get_point(t) + d * (rng.uniform(0, 0.02) * ext if rng.random() < 0.7 else 0.0)
            cases.append(dict(op="closest", q=fl(q), near=True, extent=ext, seam=True))
        off = rng.uniform(0.02, 0.48) * step
        t1 = lo + off if rng.random() < 0.5 else hi - off
        t2 = rng.uniform(lo + 1.5 * step, hi - 1.5 * step)
        v1, v2 = curve.get_point(t1), curve.get_point(t2)
        if rng.random() < 0.5:
            v1, v2 = v2, v1
        cases.append(dict(op="edge", v1=fl(v1), v2=fl(v2), n_points=rng.randint(1, 4), representation=rng.choice(["spline", "polyLine"]),
                          extent=ext, seam=True))
        for c in cases:
            c["spec"] = spec
        return cases
    cases = [dict(op="point")]
    for _ in range(2):
        cases.append(dict(op="pointat", t=rand_param(rng, cc)))
    for _ in range(2):
        a, b = rand_param(rng, cc), rand_param(rng, cc)
        cases.append(dict(op="discretize", a=a, b=b, count=rng.randint(2, 5) if kind in ("circle", "helix") else rng.randint(2, 9)))
    for j in range(2):
        a, b = rand_param(rng, cc), rand_param(rng, cc)
        if kind == "discrete":
            n = int(cc.hi) + 1
            a = rng.randint(0, n - 3)
            b = rng.randint(a + 2, n - 1)
            m = rng.randint(a + 1, b - 1)  # a split at an end would be the length of one point, which polyline_length rejects
            if j == 0:
                a, b = 0, n - 1
                m = rng.randint(1, n - 2)
            if rng.random() < 0.5:
                a, b = b, a
        else:
            if j == 0:
                a, b = cc.lo, cc.hi
            if abs(a - b) < 1e-6:
                b = cc.hi if a < (cc.lo + cc.hi) / 2 else cc.lo
            if kind in ("linear", "spline") and rng.random() < 0.4:
                inner = [t for t in cc.ts if min(a, b) < t < max(a, b)]
                m = float(rng.choice(inner)) if inner else rng.uniform(min(a, b), max(a, b))
            else:
                m = rng.uniform(min(a, b), max(a, b))
        cases.append(dict(op="length", a=a, m=m, b=b, full=(j == 0)))
    if kind in ("linear", "spline") and "pre" in spec and spec.get("equalize"):
        # a transformed curve: range ends BETWEEN the parameter a defining point had at construction and the one it has
        # now (anything remembered from construction shows here)
        p0 = np.array(spec["points0"], dtype=float)
        cl = np.concatenate(([0.0], np.cumsum(np.linalg.norm(np.diff(p0, axis=0), axis=1))))
        old = cl / cl[-1]
        moved = [i for i in range(1, len(old) - 1) if abs(old[i] - cc.ts[i]) > 2e-3]
        for i in rng.sample(moved, min(2, len(moved))):
            b = float(old[i] + cc.ts[i]) / 2
            a = cc.lo if rng.random() < 0.5 else cc.hi
            cases.append(dict(op="length", a=a, m=rng.uniform(min(a, b), max(a, b)), b=b, full=False))
    for near in ((True, False) if kind in ("circle", "helix") else (True, True, False)):
        if kind == "discrete":
            i = rng.randint(0, int(cc.hi))
            base = np.array(cc.pts[i])
            gap = min(np.linalg.norm(np.array(cc.pts[j]) - base) for j in range(len(cc.pts)) if j != i)
            d = np.array([rng.gauss(0, 1) for _ in range(3)])
            d /= np.linalg.norm(d)
            q = base + d * (rng.uniform(0, 0.3) * gap if near else rng.uniform(0.5, 3) * ext)
        else:
            lo, hi = cc.lo, cc.hi
            margin = 0.08 * (hi - lo) if (kind == "circle" and hi - lo > 5.5) else 0.0  # away from the seam
            t = rng.uniform(lo + margin, hi - margin)
            d = np.array([rng.gauss(0, 1) for _ in range(3)])
            d /= np.linalg.norm(d)
            q = curve.get_point(t) + d * (rng.uniform(0, 0.02) * ext if near else rng.uniform(0.3, 1.5) * ext)
        cases.append(dict(op="closest", q=fl(q), near=near, extent=ext))
    # an edge snapped to the curve
    if kind == "discrete":
        i, j = rng.sample(range(int(cc.hi) + 1), 2)
        v1, v2 = np.array(cc.pts[i]), np.array(cc.pts[j])
        off = 0.0
    else:
        lo, hi = cc.lo, cc.hi
        margin = 0.08 * (hi - lo) if (kind == "circle" and hi - lo > 5.5) else 0.0
        t1 = rng.uniform(lo + margin, hi - margin)
        t2 = rng.uniform(lo + margin, hi - margin)
        if abs(t1 - t2) < 0.15 * (hi - lo):
            t2 = t1 + 0.3 * (hi - lo) if t1 + 0.3 * (hi - lo) < hi - margin else t1 - 0.3 * (hi - lo)
        v1, v2 = curve.get_point(t1), curve.get_point(t2)
    cases.append(dict(op="edge", v1=fl(v1), v2=fl(v2), n_points=rng.randint(1, 4) if kind in ("circle", "helix") else rng.randint(1, 6),
                      representation=rng.choice(["spline", "polyLine"]), extent=ext))
    for c in cases:
        c["spec"] = spec
    return cases


# ------------------------------------------------------------------------------------------------
# correspondence obligations: run the implementation, write the model side


class Boundary(Exception):
    pass


def ptol(*xs):
    return 1e-12 * max([1.0] + [abs(float(x)) for x in xs])


def length_checks(cc, a, b, L, rng, with_tie=True):
    """(rational checks, real-valued conjuncts) stating that the model's length between a and b is L"""
    kind, p = cc.kind, cc.p
    tol = Q(cc.tol)
    curve = cc.curve
    if kind == "discrete":
        return ["qlen_ok %s (dc_discretize %spts %d %d) %s" % (tol, p, a, b, Q(L))], []
    if kind == "linear":
        return ["qlen_ok %s (qil_points %s %sts %s %s) %s" % (tol, cc.FQ, p, Q(a), Q(b), Q(L))], []
    if kind == "spline":
        lo, hi = min(a, b), max(a, b)
        return ["qlen_ok %s (qil_points_bb %s %s %sts %sfk %s %s) %s"
                % (tol, QV(curve.function(lo)), QV(curve.function(hi)), p, p, Q(lo), Q(hi), Q(L))], []
    # AnalyticCurve.get_length = polyline through discretize(a, b, n_len): the implementation's own discretisation is
    # measured in Q, the discretisation is tied to the curve function separately
    n = cc.n_len
    py = curve.discretize(a, b, n)
    if len(py) != n:
        return ["false"], []
    qs = ["qlen_ok_cd %s %s %s" % (tol, QVL(py), Q(L))]
    rs = []
    if with_tie:
        if kind == "line":
            qs.append("qclose_list %s (map %s (qlinspace %s %s %d)) %s" % (tol, cc.FQ, Q(a), Q(b), n, QVL(py)))
        else:
            for j in sorted({rng.choice([0, n - 1]), rng.randint(1, n - 2)}):
                rs.append("dist (%s (lin_at %s %s %d %d)) %s <= %s" % (cc.F, R(a), R(b), n, j, V(py[j]), R(cc.tol)))
    return qs, rs


def case_checks(cc, case, res, rng, ob=None):
    """Run the implementation on the case.  Returns (list of rational boolean checks, list of real-valued goals);
    every real-valued goal is a list of conjuncts.  Raises Boundary for a degenerate case."""
    curve, kind, p = cc.curve, cc.kind, cc.p
    tol, rtol = Q(cc.tol), R(cc.tol)
    op = case["op"]
    trans = kind in TRANSCENDENTAL
    qs, rs = [], []
    if op == "point":
        if kind in ("linear", "spline"):
            if cc.spec["equalize"]:
                qs.append("qchord_ok %s %spts %sts" % (Q(1e-9), p, p))
            else:
                qs.append("qclose_rlist %s (qlinspace 0 1 %d) %sts" % (Q(1e-9), len(cc.pts), p))
        if kind == "spline":
            # make_interp_spline assumption: the black box interpolates its knots
            qs.append("qclose_list %s %sfk %spts" % (tol, p, p))
        if kind == "linear":
            qs.append("qclose_list %s (map %s %sts) %s" % (tol, cc.FQ, p, QVL([curve.get_point(t) for t in cc.ts])))
        if kind == "discrete":
            qs.append("qclose_list %s (map (qdc_point %spts) (seq 0 %d)) %s" % (tol, p, len(cc.pts), QVL([curve.get_point(i) for i in range(len(cc.pts))])))
        if kind == "line":
            qs.append("qclose_list %s (map %s %s) %s" % (tol, cc.FQ, QL([cc.lo, cc.hi]), QVL([curve.get_point(cc.lo), curve.get_point(cc.hi)])))
        if trans:
            conj = []
            if kind == "circle":
                conj.append("dist (unit %snrm) %sk <= %s" % (p, p, R(1e-12)))
            for t in (cc.lo, cc.hi):
                conj.append("dist (%s %s) %s <= %s" % (cc.F, R(t), V(curve.get_point(t)), rtol))
            rs.append(conj)
        return qs, rs
    if op == "pointat":
        t = case["t"]
        py = curve.get_point(t)
        if kind == "discrete":
            return ["qclose_v %s (qdc_point %spts %d) %s" % (tol, p, t, QV(py))], []
        if kind == "spline":
            raise Boundary()  # black box: nothing to compare
        if trans:
            return [], [["dist (%s %s) %s <= %s" % (cc.F, R(t), V(py), rtol)]]
        return ["qclose_v %s (%s %s) %s" % (tol, cc.FQ, Q(t), QV(py))], []
    if op == "discretize":
        a, b, cnt = case["a"], case["b"], case["count"]
        if kind == "discrete":
            py = curve.discretize(a, b)
            return ["qclose_list %s (dc_discretize %spts %d %d) %s" % (tol, p, a, b, QVL(py))], []
        py = curve.discretize(a, b, cnt)
        if len(py) != cnt:
            return ["false"], []
        if trans:
            return [], [["close_list %s (fc_discretize %s %s %s %d) %s" % (rtol, cc.F, R(a), R(b), cnt, VL(py))]]
        if kind == "spline":
            # the model says map f (linspace a b n) for the black box f: compare with the black box itself
            lin = np.linspace(a, b, cnt)
            vals = [curve.function(float(t)) for t in lin]
            return ["qclose_rlist %s (qlinspace %s %s %d) %s" % (Q(ptol(a, b)), Q(a), Q(b), cnt, QL(lin)),
                    "qclose_list %s %s %s" % (tol, QVL(vals), QVL(py))], []
        return ["qclose_list %s (map %s (qlinspace %s %s %d)) %s" % (tol, cc.FQ, Q(a), Q(b), cnt, QVL(py))], []
    if op == "length":
        a, m, b = case["a"], case["m"], case["b"]
        conj = []
        pairs = list(enumerate(((a, b), (b, a), (a, m), (m, b))))
        if kind in ("line", "circle", "helix"):
            # each call is one more sample of "get_length = polyline through discretize(., ., n_len)"; the lists are long
            pairs = pairs[:2] if case.get("full") else pairs[2:]
        for j, (x, y) in pairs:
            q1, r1 = length_checks(cc, x, y, float(curve.get_length(x, y)), rng, with_tie=(j in (0, 2) or not trans))
            qs += q1
            conj += r1
        if conj:
            rs.append(conj)
        return qs, rs
    if op == "closest":
        q = np.array(case["q"])
        r, runs = (curve.get_closest_param(q), None) if kind == "discrete" else closest_with_start(curve, q)
        QQ, RQ = QV(q), V(q)
        if kind == "discrete":
            ds = sorted(float(np.linalg.norm(np.array(x) - q)) for x in cc.pts)
            if ds[1] - ds[0] < 1e-9 * cc.size:
                raise Boundary()
            return ["Nat.eqb (qclosest_idx %spts %s) %d" % (p, QQ, int(r))], []
        r = float(r)
        d9, d4 = 1e-9 * case["extent"], 1e-4 * case["extent"]
        full_circle = kind == "circle" and cc.hi - cc.lo >= 2 * math.pi - 1e-12
        if runs is None:
            # the search does not call scipy.optimize.minimize (rewritten?): only the result is judged
            res.count("closest: start values not observable")
            qs.append("Qle_bool %s %s && Qle_bool %s %s" % (Q(cc.lo), Q(r), Q(r), Q(cc.hi)))
            if kind == "line":
                qs.append("qnot_farther %s (%s %s) %s (qd2 (%s (qline_topt %sp1 %sp2 %s %s %s)) %s)"
                          % (Q(d4), cc.FQ, Q(r), QQ, cc.FQ, p, p, Q(cc.lo), Q(cc.hi), QQ, QQ))
            return qs, rs
        # model: fc_closest with ns = number of runs (read from the implementation: 1 in the snapshot, 3 with fixes/C16-2)
        ns = len(runs)
        res.count("closest: %d start(s)" % ns)
        cnt = cc.n_coarse
        lin = np.linspace(cc.lo, cc.hi, cnt)
        ks = [int(np.argmin(np.abs(lin - t0))) for (t0, _x) in runs]
        cs = curve.discretize()
        if len(cs) != cnt:
            return ["false"], []
        ds = sorted(float(np.linalg.norm(x - q)) for x in cs)
        tie = any(ds[i + 1] - ds[i] < 1e-9 * cc.size for i in range(min(ns, len(ds) - 1)))
        if tie and not case.get("seam"):
            raise Boundary()
        # coarse stage: the starts are the parameters (linspace over the bounds) of the ns samples of discretize() nearest to
        # the query, nearest first (stable argsort; its head is np.argmin).  Next to the seam of a closed curve the two end
        # samples are the same point up to rounding: the order of the tie is not compared there
        if tie:
            res.count("closest: tie among the nearest coarse samples (seam), order of the starts not compared")
            if len(set(ks)) != ns:
                qs.append("false")
        else:
            qs.append("nat_list_eqb (qstart_idxs %s %s %d) [%s]" % (QVL(cs), QQ, ns, "; ".join("%d%%nat" % k for k in ks)))
        for (t0, _x), k in zip(runs, ks):
            qs.append("qabs_le (qlin_at %s %s %d %d - %s) %s" % (Q(cc.lo), Q(cc.hi), cnt, k, Q(t0), Q(ptol(cc.lo, cc.hi))))
        # the minimiser assumption, monitored on every run: inside the bounds, not farther than its start point;
        # the final selection: the result is the result of one of the runs and not farther than the result of any run
        for (_t0, x) in runs:
            qs.append("Qle_bool %s %s && Qle_bool %s %s" % (Q(cc.lo), Q(x), Q(x), Q(cc.hi)))
        if r not in [x for (_t0, x) in runs]:
            qs.append("false")
        others = sorted({x for (_t0, x) in runs if x != r})
        if trans:
            conj = []
            for k in sorted(set(ks)):
                conj.append("dist (%s (lin_at %s %s %d %d)) %s <= %s" % (cc.F, R(cc.lo), R(cc.hi), cnt, k, V(cs[k]), rtol))
            for (t0, x) in runs:
                conj.append("dist (%s %s) %s <= dist (%s %s) %s + %s" % (cc.F, R(x), RQ, cc.F, R(t0), RQ, R(d9)))
            for x in others:
                conj.append("dist (%s %s) %s <= dist (%s %s) %s + %s" % (cc.F, R(r), RQ, cc.F, R(x), RQ, R(d9)))
            # certificate of global optimality (C16_closest_circle: circle_lb is a lower bound of the squared distance to the
            # WHOLE circle; on an arc the optimum may sit at a bound, where it says nothing)
            if kind == "circle" and case["near"] and (full_circle or cc.lo + 1e-3 < r < cc.hi - 1e-3):
                conj.append("circle_defect %so %srim %sk %s %s <= %s" % (p, p, p, RQ, R(r), R(d4)))
            rs.append(conj)
        elif kind == "spline":
            vals = [curve.function(float(t)) for t in lin]
            qs.append("qclose_rlist %s (qlinspace %s %s %d) %s" % (Q(ptol(cc.lo, cc.hi)), Q(cc.lo), Q(cc.hi), cnt, QL(lin)))
            qs.append("qclose_list %s %s %s" % (tol, QVL(vals), QVL(cs)))
            for (t0, x) in runs:
                qs.append("qnot_farther %s %s %s (qd2 %s %s)" % (Q(d9), QV(curve.function(x)), QQ, QV(curve.function(t0)), QQ))
            for x in others:
                qs.append("qnot_farther %s %s %s (qd2 %s %s)" % (Q(d9), QV(curve.function(r)), QQ, QV(curve.function(x)), QQ))
        else:
            qs.append("qclose_list %s (map %s (qlinspace %s %s %d)) %s" % (tol, cc.FQ, Q(cc.lo), Q(cc.hi), cnt, QVL(cs)))
            for (t0, x) in runs:
                qs.append("qnot_farther %s (%s %s) %s (qd2 (%s %s) %s)" % (Q(d9), cc.FQ, Q(x), QQ, cc.FQ, Q(t0), QQ))
            for x in others:
                qs.append("qnot_farther %s (%s %s) %s (qd2 (%s %s) %s)" % (Q(d9), cc.FQ, Q(r), QQ, cc.FQ, Q(x), QQ))
            # certificates of global optimality (C16_closest_line, C16_closest_linear)
            if kind == "line":
                qs.append("qnot_farther %s (%s %s) %s (qd2 (%s (qline_topt %sp1 %sp2 %s %s %s)) %s)"
                          % (Q(d4), cc.FQ, Q(r), QQ, cc.FQ, p, p, Q(cc.lo), Q(cc.hi), QQ, QQ))
            if kind == "linear" and case["near"] and not cc.spec.get("zigzag"):
                # (on a zig-zag curve global optimality is the oracle's business: a wrong branch is a known finding)
                qs.append("match qpl_mind2 %spts %s with Some m2 => qnot_farther %s (%s %s) %s m2 | None => false end"
                          % (p, QQ, Q(d4), cc.FQ, Q(r), QQ))
        return qs, rs
    if op == "edge":
        if ob is None:
            ob = make_edge(curve, case["v1"], case["v2"], case["n_points"], case["representation"])
        res.count("edge written as " + ob["keyword"])
        ps, pe, n = ob["ps"], ob["pe"], case["n_points"]
        py = ob["points"]
        if kind == "discrete":
            a, b = int(ps), int(pe)
            qs.append("qclose_list %s (dc_edge_points %spts %d %d) %s" % (tol, p, a, b, QVL(py)))
            if a != b:
                qs += length_checks(cc, a, b, ob["length"], rng)[0]
            return qs, rs
        if len(py) != n:
            return ["false"], []
        if trans:
            rs.append(["close_list %s (edge_points %s %s %s %d) %s" % (rtol, cc.F, R(ps), R(pe), n, VL(py))])
        elif kind == "spline":
            lin = np.linspace(ps, pe, n + 2)[1:-1]
            vals = [curve.function(float(t)) for t in lin]
            qs.append("qclose_rlist %s (interior (qlinspace %s %s %d)) %s" % (Q(ptol(ps, pe)), Q(ps), Q(pe), n + 2, QL(lin)))
            qs.append("qclose_list %s %s %s" % (tol, QVL(vals), QVL(py)))
        else:
            qs.append("qclose_list %s (map %s (interior (qlinspace %s %s %d))) %s" % (tol, cc.FQ, Q(ps), Q(pe), n + 2, QVL(py)))
        q1, _r1 = length_checks(cc, ps, pe, ob["length"], rng, with_tie=False)
        qs += q1
        return qs, rs
    raise ValueError(op)


KINDS = ["discrete", "linear", "linear", "spline", "line", "circle", "helix"]


def kind_of(k):
    """kind of the k-th curve of a run; every third circle/helix is replaced (their points need the `interval` tactic,
    about 0.4 s of CPU per compared point)"""
    kind = KINDS[k % len(KINDS)]
    if (k // len(KINDS)) % 3 == 2 and kind in ("circle", "helix"):
        kind = "spline" if kind == "circle" else "discrete"
    return kind


def strip(case):
    return {k: v for k, v in case.items()}


def parse_id_list(so):
    m = re.search(r"=\s*\[(.*?)\]\s*:\s*list Z", so, flags=re.S)
    if not m:
        raise RuntimeError("cannot parse Coq output: %r" % so[:400])
    body = m.group(1).strip()
    if not body:
        return []
    return [int(re.sub(r"[()%Z\s]", "", x)) for x in body.split(";")]


SUB = 64  # obligation id = case id * SUB + index of the obligation within the case


class C16(Prop):
    pid = "C16"
    title = "Curve points, lengths and closest-parameter queries are mutually consistent"
    prebuilt = ["Base/Vec3.v", "Model/C16_Curves.v", "Model/C16_CurvesQ.v", "Proofs/C16_Curves.v", "Proofs/C16_Length.v",
                "Proofs/C16_Edge.v", "Proofs/C16_QSound.v", "Proofs/C16_Closest.v"]
    gen_dependent_files = []
    property_files = ["Properties/C16.v"]
    trusted = [
        "scipy.interpolate.make_interp_spline is a black box assumed to interpolate its knots (monitored on every spline curve)",
        "scipy.optimize.minimize inside get_closest_param is a black box assumed to return, on every run, a parameter inside the "
        "bounds whose point is not farther from the query than that run's start point (monitored on every run of every query: "
        "the start values and the returned parameters are recorded by wrapping scipy.optimize.minimize during the call); the "
        "number of runs per query (3 with fixes/C16-2.diff, 1 in the snapshot) is a parameter of the model read from the "
        "implementation; for line, circle and linear-interpolated curves the final result is certified against the exact "
        "optimum, for other curves dense-sample optimality is validated only",
        "scipy.interpolate.interp1d(kind=linear) and scipy.linalg.expm of a skew matrix are modelled (piecewise-linear "
        "interpolation, Rodrigues' formula) and compared on every case",
        "the correspondence is sampled (random curves, parameters and queries), not exhaustive; the numbers of samples of the "
        "coarse stage (15) and of AnalyticCurve.get_length (100) are parameters of the model read from the implementation; "
        "queries next to the seam of a closed circle (both end samples are the same point up to rounding) are judged by the "
        "direct oracle (2000 dense samples), by the per-run monitor and by the circle certificate, the ORDER of the tied starts is "
        "not compared with the model there",
        "rational evaluators Model/C16_CurvesQ.v (vm_compute side of the correspondence): tied to the real-valued model by "
        "the lemmas of Proofs/C16_QSound.v; the per-case results themselves are correspondence evidence, not theorems",
    ]
    partial = [
        "C16_closest_dense_partial: proved, for the search that runs the minimiser from the ns nearest coarse samples and keeps "
        "the best result (ns >= 1; ns = 1 is the snapshot, proved equal to minimise(argmin sample)) = every start is a coarse "
        "sample and the first one the nearest sample; the result is the result of one run and at least as close as the result "
        "of every run, hence never farther than the single-start result; and at least as close as EVERY coarse sample for every "
        "minimiser that does not return a point farther than its start (the discrete curve's argmin is exact and equals the head "
        "of the stable argsort of the refactored coarse stage, C16_closest_discrete; the optimum of a line curve is proved, "
        "C16_closest_line, and certified per case); missing = "
        "optimality against every point of an arbitrary (spline/analytic) curve, which depends on scipy's minimiser "
        "(validated against a dense sample; certified per case with proved bounds for line, linear-interpolated and "
        "circle curves: C16_closest_line, C16_closest_linear, C16_closest_circle - the latter for an exactly unit normal, "
        "the implementation's is unit within 1e-12, checked)",
        "C16_interpolates: the spline half rests on the interpolation assumption for make_interp_spline (monitored)",
        "C16_length_additive: additivity of the spline length holds for splits at knots only (chords through the knots); "
        "for analytic curves the 100-chord length is additive up to the discretisation error only (validated)",
        "C16_corr_sound: covers the evaluators of points, parameters, knots, slices, argmin, the start indices of the search "
        "(stable argsort), point and length comparisons; "
        "not covered: qchord_ok (chord-length parameters; qpl_mind2 is covered by C16_closest_linear)",
    ]

    def correspond(self, ctx):
        res = CorrResult()
        res.rule = ("random curves (discrete, linear- and spline-interpolated with uneven spacing, line, circle, helix) x "
                    "{points at knots/bounds, get_point, discretize in either order, get_length over a split in both orders, "
                    "get_closest_param near/far, OnCurve edge through Mesh.assemble} + zig-zag polylines queried at their knots + "
                    "closed circles with queries and an edge vertex within a coarse step on either side of the seam; "
                    "piecewise-linear/rational parts of the "
                    "model evaluated by vm_compute over Q on the exact binary64 inputs (square roots enclosed with Z.sqrt), "
                    "circle/helix points by `interval`; tolerance 1e-9 x size (1e-4 x extent downstream of the minimiser); "
                    "non-trivial = every case except degenerate ones skipped as boundary; distinct by (curve, case) JSON")
        ncurves = ctx.n(84, 700)
        all_cases = []  # (gid, cc, case)
        ccs = []
        gid = 0
        nzig = ctx.n(8, 60)
        nseam = ctx.n(6, 40)
        for k in range(ncurves + nzig + nseam):
            kind = kind_of(k) if k < ncurves else ("zigzag" if k < ncurves + nzig else "seamcircle")
            spec = gen_spec(ctx.rng, kind)
            try:
                curve = build(spec)
                cc = CurveCtx(k, spec, curve)
                cc.n_coarse, cc.n_len = (None, None) if kind == "discrete" else observed_counts(curve)
            except Exception as e:
                res.oracle_failures.append(dict(op="build", spec=spec, why="raises %s: %s" % (type(e).__name__, str(e)[:200])))
                continue
            ccs.append(cc)
            for case in gen_cases(ctx.rng, cc):
                all_cases.append((gid, cc, case))
                gid += 1
        # corpus first: stored cases are judged by the direct oracle
        cdir = os.path.join(core.VERIF, "corpus", "C16")
        for fn in sorted(os.listdir(cdir)) if os.path.isdir(cdir) else []:
            if not fn.endswith(".json"):
                continue
            with open(os.path.join(cdir, fn)) as f:
                case = json.load(f)
            case.pop("note", None)
            res.evaluations += 1
            res.count("corpus")
            res.distinct.add(json.dumps(case, sort_keys=True, default=str))
            why = safe_oracle(case)
            if why:
                rp = strip(case)
                rp["why"] = why
                rp["corpus"] = fn
                res.oracle_failures.append(rp)
        # implementation + oracle + obligations
        qob, rob = {}, {}  # curve index -> list of texts
        info = {}
        nq = nr = 0
        for (g, cc, case) in all_cases:
            res.evaluations += 1
            res.count("kind=" + ("zigzag" if cc.spec.get("zigzag") else "circle, queries next to the seam" if cc.spec.get("seam") else cc.kind))
            res.count("op=" + case["op"])
            ob = None
            if case["op"] == "edge":
                try:  # one assembly per edge case, shared by the oracle and the correspondence
                    ob = make_edge(cc.curve, case["v1"], case["v2"], case["n_points"], case["representation"])
                except Exception:
                    ob = None  # both report the exception themselves
            if case["op"] != "pointat":
                why = safe_oracle(case, ob)
                if why:
                    rp = strip(case)
                    rp["why"] = why
                    res.oracle_failures.append(rp)
            try:
                qs, rs = case_checks(cc, case, res, ctx.rng, ob)
            except Boundary:
                res.boundary += 1
                continue
            except Exception as e:
                # the implementation raised on a valid input: the oracle reports it; the model has no value to compare
                res.mismatches.append(dict(case=g, op=case["op"], spec=cc.spec, impl="raises %s: %s" % (type(e).__name__, str(e)[:200]),
                                           args={k: v for k, v in case.items() if k != "spec"}))
                continue
            if len(qs) + len(rs) >= SUB:
                raise RuntimeError("too many obligations in one case")
            j = 0
            for c in qs:
                qob.setdefault(cc.k, []).append("(%d%%Z, %s)" % (g * SUB + j, c))
                info[g * SUB + j] = (cc, case, c)
                j += 1
                nq += 1
            for conj in rs:
                rob.setdefault(cc.k, []).append((len(conj), rgoal(g * SUB + j, conj)))
                info[g * SUB + j] = (cc, case, " /\\ ".join(conj))
                j += 1
                nr += len(conj)
            if j:
                res.distinct.add(json.dumps(case, sort_keys=True, default=str))
        res.count("rational obligations (vm_compute)", nq)
        res.count("real-valued conjuncts (interval)", nr)
        res.samples = [dict(case={k: v for k, v in c.items()}) for (_g, _cc, c) in all_cases[:3]]
        # shards: whole curves per file; the rational ones by number of obligations, the real-valued ones by conjuncts
        shards = []
        qcurves = [cc for cc in ccs if qob.get(cc.k)]
        nqf = max(1, min(ctx.n(8, 16), len(qcurves)))
        for f in range(nqf):
            part = qcurves[f::nqf]
            if not part:
                continue
            text = [QPREAMBLE]
            for cc in part:
                text.append("\n".join(cc.qdefs))
            text.append("Definition cases : list (Z * bool) := [\n" + ";\n".join(c for cc in part for c in qob[cc.k]) + "\n].")
            text.append("Eval vm_compute in (map fst (filter (fun c => negb (snd c)) cases)).")
            shards.append(("qcases_%d" % f, "\n".join(text) + "\n", [int(c[1:c.index("%")]) for cc in part for c in qob[cc.k]]))
        rcurves = [cc for cc in ccs if rob.get(cc.k)]
        total_r = sum(n for cc in rcurves for (n, _t) in rob[cc.k])
        nrf = max(1, min(ctx.n(8, 16), (total_r + 39) // 40))
        bins = [[0, []] for _ in range(nrf)]
        for cc in sorted(rcurves, key=lambda c: -sum(n for (n, _t) in rob[c.k])):
            b = min(bins, key=lambda x: x[0])
            b[0] += sum(n for (n, _t) in rob[cc.k])
            b[1].append(cc)
        for f, (_n, part) in enumerate(bins):
            if not part:
                continue
            text = [RPREAMBLE]
            for cc in part:
                text.append("\n".join(cc.rdefs))
                text.append("\n".join(t for (_n2, t) in rob[cc.k]))
            shards.append(("rcases_%d" % f, "\n".join(text) + "\n", None))
        ok, bad = set(), set()
        ids_of = {name: ids for (name, _t, ids) in shards}
        results = core.run_cases_parallel(ctx, [(n, t) for (n, t, _i) in shards], timeout=ctx.n(600, 2400))
        texts = {n: t for (n, t, _i) in shards}
        for k, (name, rc, so, se) in enumerate(results):
            if rc != 0 and not se.strip():
                # killed without a Coq error (memory pressure on a loaded machine): one more try, alone
                rc, so, se, _cmd = core.run_cases_file(ctx, name, texts[name], timeout=ctx.n(600, 2400))
                results[k] = (name, rc, so, se)
        for (name, rc, so, se) in results:
            if rc != 0:
                res.error = "case file %s failed to compile (rc %d): %s" % (name, rc, se[-800:])
                return res
            if ids_of[name] is not None:
                failing = set(parse_id_list(so))
                bad.update(failing)
                ok.update(i for i in ids_of[name] if i not in failing)
            else:
                ok.update(int(x) for x in re.findall(r"^OK (\d+)$", so, flags=re.M))
                bad.update(int(x) for x in re.findall(r"^MISMATCH (\d+)$", so, flags=re.M))
        seen_cases = set()
        for i in sorted(info):
            if i in bad or i not in ok:
                cc, case, text = info[i]
                if i // SUB in seen_cases:
                    continue
                seen_cases.add(i // SUB)
                res.mismatches.append(dict(case=i // SUB, obligation=text[:300], op=case["op"], spec=cc.spec, silent=(i not in bad),
                                           args={k: v for k, v in case.items() if k != "spec"}))
        res.traces = len({i // SUB for i in ok})
        return res

    def search(self, ctx, broken, corr):
        fails = []
        # 1. the mismatching cases themselves
        for m in corr.mismatches[:40]:
            case = dict(m["args"])
            case["spec"] = m["spec"]
            if case["op"] == "pointat":
                case["op"] = "point"
            why = safe_oracle(case)
            if why:
                case["why"] = why
                fails.append(case)
        if fails:
            return fails[:5]
        # 2. seeded random search with the direct oracle, more cases per curve
        for k in range(ctx.n(150, 1500)):
            kind = "seamcircle" if k % 10 == 9 else kind_of(k)
            spec = gen_spec(ctx.rng, kind)
            try:
                curve = build(spec)
                cc = CurveCtx(k, spec, curve)
                cc.n_coarse = len(curve.discretize()) if kind == "seamcircle" else None
            except Exception:
                continue
            for case in gen_cases(ctx.rng, cc):
                if case["op"] == "pointat":
                    continue
                why = safe_oracle(case)
                if why:
                    case["why"] = why
                    fails.append(case)
                    if len(fails) >= 3:
                        return fails
        return fails

    def signature(self, rp):
        why = rp.get("why", "")
        if rp.get("op") == "closest" and ("lies on another part of the curve" in why or "lie on another part of the curve" in why):
            return "C16:closest:coarse-stage-wrong-branch"
        if rp.get("op") in ("closest", "edge") and "next to the seam of a closed curve" in why:
            return "C16:%s:seam-of-closed-curve" % rp.get("op")
        why = re.sub(r"[-+]?\d+\.?\d*(e[-+]?\d+)?", "#", why)
        return "C16:%s:%s:%s" % (rp.get("op"), rp.get("spec", {}).get("kind"), why[:60])

    def replay(self, ctx, obj):
        case = {k: v for k, v in obj.items() if k not in ("why", "signature", "property", "broken_obligations", "corpus", "note")}
        print("case:", json.dumps({k: v for k, v in case.items() if k != "spec"}))
        print("curve:", json.dumps(case["spec"]))
        try:
            curve = build(case["spec"])
            op = case["op"]
            if op == "length":
                a, m, b = case["a"], case["m"], case["b"]
                print("implementation: L(a,b)=%r L(b,a)=%r L(a,m)=%r L(m,b)=%r" % (
                    curve.get_length(a, b), curve.get_length(b, a), curve.get_length(a, m), curve.get_length(m, b)))
            elif op == "discretize":
                print("implementation:", (curve.discretize(case["a"], case["b"], case["count"]) if case["spec"]["kind"] != "discrete"
                                          else curve.discretize(case["a"], case["b"])).tolist())
            elif op == "closest":
                print("implementation:", curve.get_closest_param(case["q"]))
            elif op == "edge":
                print("implementation:", make_edge(curve, case["v1"], case["v2"], case["n_points"], case["representation"]))
        except Exception as e:
            print("implementation raises", type(e).__name__, e)
        print("oracle:", safe_oracle(case) or "ok")
        return 0


PROP = C16()
