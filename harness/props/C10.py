"""C10 - Face re-indexing and side/edge/corner addressing hit the intended geometry.

Tie (F): every addressing function is evaluated on its whole finite domain and written to
coq/Gen/C10/Tables.v; Properties/C10.v proves the property about those tables against Base/Hex.v.
Tie (U): random call sequences on a real Operation are compared with the spec-level state machine of
Model/OpAddr.v, evaluated inside Coq.
"""
import json
import warnings

import core
from core import GenError, CorrResult, Prop

SIDES = ["bottom", "top", "left", "right", "front", "back"]
COQ_SIDE = {"bottom": "Bottom", "top": "Top", "left": "Left", "right": "Right", "front": "Front", "back": "Back"}

# 8 points in general position (a distorted unit cube); corner i of a single-operation mesh gets vertex index i
CUBE = [
    [0.0, 0.0, 0.0], [1.1, 0.05, 0.0], [1.2, 1.0, 0.1], [0.1, 0.9, 0.0],
    [0.0, 0.1, 1.0], [1.0, 0.0, 1.2], [1.1, 1.1, 1.1], [0.0, 1.0, 0.9],
]

QUADS = [
    [[0, 0, 0], [1, 0, 0], [1, 1, 0], [0, 1, 0]],
    [[0.3, -0.2, 0.1], [2.5, 0.4, -0.3], [1.9, 1.7, 0.6], [-0.4, 1.1, 0.2]],
    [[5, 5, 5], [5, 6.5, 5.2], [5.3, 6.1, 7.0], [4.9, 4.8, 6.4]],
]


def nl(l):
    return "[" + "; ".join(str(int(x)) for x in l) + "]"


def _cb():
    import classy_blocks as cb  # noqa
    return cb


def make_face(quad):
    cb = _cb()
    from classy_blocks.construct.edges import Arc
    edges = [Arc([100 + i, 0, 0]) for i in range(4)]
    face = cb.Face(quad, edges)
    pts = list(face.points)
    eds = list(face.edges)
    return face, pts, eds


def read_face(face, pts, eds):
    try:
        p = [[id(x) for x in pts].index(id(x)) for x in face.points]
        e = [[id(x) for x in eds].index(id(x)) for x in face.edges]
    except ValueError:
        raise GenError("face operation replaced point/edge objects; cannot read tags back")
    if len(p) != 4 or len(e) != 4:
        raise GenError("face has %d points / %d edges after the call" % (len(p), len(e)))
    return p, e


def tab_face_ops():
    out = {"invert": [], "shift": [], "reorient": []}
    for qi, quad in enumerate(QUADS):
        face, pts, eds = make_face(quad)
        face.invert()
        out["invert"].append((qi, read_face(face, pts, eds)))
        for k in range(-9, 10):
            face, pts, eds = make_face(quad)
            face.shift(k)
            out["shift"].append((qi, k, read_face(face, pts, eds)))
        for c in range(4):
            for off in ([0, 0, 0], [0.05, -0.03, 0.02], [-0.04, 0.02, -0.05]):
                face, pts, eds = make_face(quad)
                near = [quad[c][j] + off[j] for j in range(3)]
                face.reorient(near)
                out["reorient"].append((qi, c, read_face(face, pts, eds)))
    return out


def new_loft():
    cb = _cb()
    bottom = cb.Face(CUBE[:4])
    top = cb.Face(CUBE[4:])
    return cb.Loft(bottom, top)


def observe(op, grade=False):
    """Assemble a single-operation mesh and read back what ended up where, as corner numbers."""
    cb = _cb()
    mesh = cb.Mesh()
    mesh.add(op)
    with warnings.catch_warnings():
        warnings.simplefilter("ignore")
        mesh.assemble()
    verts = mesh.vertex_list.vertices
    if len(verts) != 8 or [v.index for v in mesh.block_list.blocks[0].vertices] != list(range(8)):
        raise GenError("single operation did not assemble to vertices 0..7")
    patches = {}
    for name, patch in mesh.patch_list.patches.items():
        patches[name] = [[v.index for v in s.vertices] for s in patch.sides]
    faces = [([v.index for v in f.side.vertices], f.label) for f in mesh.face_list.faces]
    edges = []
    for e in mesh.edge_list.edges:
        lab = list(e.data.label) if e.kind == "project" else []
        edges.append((e.vertex_1.index, e.vertex_2.index, e.kind, lab))
    vproj = {v.index: list(v.projected_to) for v in verts if len(v.projected_to) > 0}
    return dict(patches=patches, faces=faces, edges=edges, vproj=vproj)


def chained_counts(op, side):
    """what a mesh of `op` and a second operation built on op.get_face(side) lists: number of patch quads, projected faces,
    projected edges (by label set) and projected vertices.  The second operation was never addressed by anybody."""
    cb = _cb()
    import numpy as np
    face = op.get_face(side)
    n = np.asarray(face.normal, dtype=float)
    far = face.copy().translate(list(1.5 * n))
    op2 = cb.Loft(face, far)
    mesh = cb.Mesh()
    mesh.add(op)
    mesh.add(op2)
    with warnings.catch_warnings():
        warnings.simplefilter("ignore")
        mesh.assemble()
    return dict(quads=sum(len(p.sides) for p in mesh.patch_list.patches.values()), faces=len(mesh.face_list.faces),
                pedges=len([e for e in mesh.edge_list.edges if e.kind == "project"]),
                pverts=len([v for v in mesh.vertex_list.vertices if len(v.projected_to) > 0]))


def exc_enum(e):
    return type(e).__name__


def tab_addressing():
    cb = _cb()
    from classy_blocks.construct.edges import Arc
    t = {}
    # set_patch
    t["set_patch"] = []
    for s in SIDES:
        op = new_loft()
        op.set_patch(s, "P")
        ob = observe(op)
        if list(ob["patches"].keys()) != ["P"] or ob["faces"] or ob["edges"] or ob["vproj"]:
            raise GenError("set_patch(%s) touched something else: %r" % (s, ob))
        t["set_patch"].append((s, ob["patches"]["P"]))
    # project_side with flags
    t["project_side"] = []
    for s in SIDES:
        for e in (False, True):
            for p in (False, True):
                op = new_loft()
                op.project_side(s, "G", edges=e, points=p)
                ob = observe(op)
                if ob["patches"]:
                    raise GenError("project_side created a patch")
                for (_q, lab) in ob["faces"]:
                    if lab != "G":
                        raise GenError("projected face with a foreign label")
                for (_a, _b, kind, lab) in ob["edges"]:
                    if kind != "project" or lab != ["G"]:
                        raise GenError("project_side produced edge %r" % ((kind, lab),))
                for (_c, lab) in ob["vproj"].items():
                    if lab != ["G"]:
                        raise GenError("project_side produced vertex projection %r" % (lab,))
                t["project_side"].append((s, e, p, [q for (q, _l) in ob["faces"]],
                                          [(a, b) for (a, b, _k, _l) in ob["edges"]], sorted(ob["vproj"].keys())))
    # project_edge for all 64 pairs
    t["project_edge"] = []
    for c1 in range(8):
        for c2 in range(8):
            op = new_loft()
            try:
                op.project_edge(c1, c2, "G")
                ob = observe(op)
                if ob["patches"] or ob["faces"] or ob["vproj"]:
                    raise GenError("project_edge touched something else")
                t["project_edge"].append((c1, c2, True, [(a, b) for (a, b, _k, _l) in ob["edges"]]))
            except GenError:
                raise
            except Exception:
                t["project_edge"].append((c1, c2, False, []))
    # project_corner
    t["project_corner"] = []
    for c in range(8):
        op = new_loft()
        op.project_corner(c, "G")
        ob = observe(op)
        if ob["patches"] or ob["faces"] or ob["edges"]:
            raise GenError("project_corner touched something else")
        t["project_corner"].append((c, sorted(ob["vproj"].keys())))
    # add_side_edge / Face.add_edge
    t["side_edge"] = []
    for i in range(4):
        op = new_loft()
        mid = [(CUBE[i][j] + CUBE[i + 4][j]) / 2 + (0.2 if j == 0 else 0.1) for j in range(3)]
        op.add_side_edge(i, Arc(mid))
        ob = observe(op)
        t["side_edge"].append((i, [(a, b) for (a, b, k, _l) in ob["edges"] if k == "arc"], len(ob["edges"])))
    t["face_edge"] = []
    for which in (0, 1):
        for i in range(4):
            op = new_loft()
            face = op.bottom_face if which == 0 else op.top_face
            base = 0 if which == 0 else 4
            a, b = CUBE[base + i], CUBE[base + (i + 1) % 4]
            mid = [(a[j] + b[j]) / 2 + (0.15 if j == 2 else 0.07) for j in range(3)]
            face.add_edge(i, Arc(mid))
            ob = observe(op)
            t["face_edge"].append((which, i, [(x, y) for (x, y, k, _l) in ob["edges"] if k == "arc"], len(ob["edges"])))
    # get_face
    t["get_face"] = []
    import numpy as np
    for s in SIDES:
        op = new_loft()
        f = op.get_face(s)
        idx = []
        for p in f.points:
            d = [float(np.linalg.norm(p.position - np.array(c))) for c in CUBE]
            j = int(np.argmin(d))
            if d[j] > 1e-12:
                raise GenError("get_face returned a point that is no corner")
            idx.append(j)
        t["get_face"].append((s, idx))
    # get_index_from_side (side name -> side slot), used by the sequence model
    t["side_index"] = []
    for s in ("front", "right", "back", "left"):
        t["side_index"].append((s, cb.Loft.get_index_from_side(s)))
    return t


def pairs(l):
    return "[" + "; ".join("(%d, %d)" % (a, b) for (a, b) in l) + "]"


def bl(b):
    return "true" if b else "false"


def emit(face, addr):
    o = []
    o.append("(* GENERATED by harness/props/C10.py from the working tree of /repo -- do not edit *)")
    o.append("From Coq Require Import List ZArith Bool.\nFrom CB Require Import Base.Hex.\nImport ListNotations.\n")
    o.append("(* (quad id, (points, edges)) : original indices now sitting in slots 0..3 *)")
    o.append("Definition face_invert : list (nat * (list nat * list nat)) :=\n  [" + ";\n   ".join(
        "(%d, (%s, %s))" % (q, nl(p), nl(e)) for (q, (p, e)) in face["invert"]) + "].")
    o.append("Definition face_shift : list (nat * Z * (list nat * list nat)) :=\n  [" + ";\n   ".join(
        "(%d, %s, (%s, %s))" % (q, core.coq_z(k), nl(p), nl(e)) for (q, k, (p, e)) in face["shift"]) + "].")
    o.append("Definition face_reorient : list (nat * nat * (list nat * list nat)) :=\n  [" + ";\n   ".join(
        "(%d, %d, (%s, %s))" % (q, c, nl(p), nl(e)) for (q, c, (p, e)) in face["reorient"]) + "].")
    o.append("Definition tab_set_patch : list (side * list (list nat)) :=\n  [" + ";\n   ".join(
        "(%s, [%s])" % (COQ_SIDE[s], "; ".join(nl(q) for q in qs)) for (s, qs) in addr["set_patch"]) + "].")
    o.append("(* side, edges flag, points flag, projected quads, projected edges, projected corners *)")
    o.append("Definition tab_project_side : list (side * bool * bool * list (list nat) * list (nat * nat) * list nat) :=\n  [" + ";\n   ".join(
        "(%s, %s, %s, [%s], %s, %s)" % (COQ_SIDE[s], bl(e), bl(p), "; ".join(nl(q) for q in qs), pairs(es), nl(vs))
        for (s, e, p, qs, es, vs) in addr["project_side"]) + "].")
    o.append("(* c1, c2, accepted?, projected edges *)")
    o.append("Definition tab_project_edge : list (nat * nat * bool * list (nat * nat)) :=\n  [" + ";\n   ".join(
        "(%d, %d, %s, %s)" % (a, b, bl(ok), pairs(es)) for (a, b, ok, es) in addr["project_edge"]) + "].")
    o.append("Definition tab_project_corner : list (nat * list nat) :=\n  [" + "; ".join(
        "(%d, %s)" % (c, nl(vs)) for (c, vs) in addr["project_corner"]) + "].")
    o.append("(* slot, arc edges found, total number of non-line edges *)")
    o.append("Definition tab_side_edge : list (nat * list (nat * nat) * nat) :=\n  [" + "; ".join(
        "(%d, %s, %d)" % (i, pairs(es), n) for (i, es, n) in addr["side_edge"]) + "].")
    o.append("(* face (0 bottom, 1 top), slot, arc edges found, total *)")
    o.append("Definition tab_face_edge : list (nat * nat * list (nat * nat) * nat) :=\n  [" + "; ".join(
        "(%d, %d, %s, %d)" % (w, i, pairs(es), n) for (w, i, es, n) in addr["face_edge"]) + "].")
    o.append("Definition tab_get_face : list (side * list nat) :=\n  [" + "; ".join(
        "(%s, %s)" % (COQ_SIDE[s], nl(q)) for (s, q) in addr["get_face"]) + "].")
    o.append("Definition tab_side_index : list (side * nat) :=\n  [" + "; ".join(
        "(%s, %d)" % (COQ_SIDE[s], i) for (s, i) in addr["side_index"]) + "].")
    return "\n".join(o) + "\n"


# ------------------------------------------------------------------------------------------------
# sequences (class U): calls on one operation


def gen_sequence(rng, n):
    calls = []
    if rng.random() < 0.12:
        # a loop over several edges (and corners) with one geometry, then a second geometry for ONE of them
        from_edges = [(0, 1), (1, 2), (2, 3), (3, 0), (4, 5), (5, 6), (6, 7), (7, 4), (0, 4), (1, 5), (2, 6), (3, 7)]
        es = rng.sample(from_edges, rng.randint(2, 5))
        for (a, b) in es:
            calls.append(["project_edge", a, b, "ga"])
        for c in rng.sample(range(8), rng.randint(0, 2)):
            calls.append(["project_corner", c, "ga"])
        a, b = rng.choice(es)
        calls.append(["project_edge", b, a, "gb"])
        return calls
    for _ in range(n):
        k = rng.random()
        if k < 0.08:
            # several sides in one call, given as a list; the same list is used again for another name
            sides = rng.sample(SIDES, rng.randint(2, 4))
            if rng.random() < 0.7 and "top" not in sides and "bottom" not in sides:
                sides[rng.randrange(len(sides))] = rng.choice(["top", "bottom"])
            calls.append(["set_patch_list", sides, rng.choice(["pa", "pb", "pc"])])
            if rng.random() < 0.6:
                calls.append(["set_patch_list", list(sides), rng.choice(["pa", "pb", "pc"])])
        elif k < 0.3:
            calls.append(["set_patch", rng.choice(SIDES), rng.choice(["pa", "pb", "pc"])])
        elif k < 0.55:
            calls.append(["project_side", rng.choice(SIDES), rng.choice(["ga", "gb"]), rng.random() < 0.5, rng.random() < 0.5])
        elif k < 0.8:
            # mostly valid edges
            from_edges = [(0, 1), (1, 2), (2, 3), (3, 0), (4, 5), (5, 6), (6, 7), (7, 4), (0, 4), (1, 5), (2, 6), (3, 7)]
            a, b = rng.choice(from_edges)
            if rng.random() < 0.5:
                a, b = b, a
            calls.append(["project_edge", a, b, rng.choice(["ga", "gb"])])
        else:
            calls.append(["project_corner", rng.randrange(8), rng.choice(["ga", "gb", "gc"])])
    return calls


def run_sequence_impl(calls):
    """Returns a canonical observation or ('error', class)."""
    orig = new_loft()
    # every third sequence (decided by the sequence itself) is executed on a COPY of the loft, taken before the first call:
    # the calls affect exactly the addressed side/edge/corner of the operation they are made on, and the original stays bare
    on_copy = sum(len(str(x)) for c in calls for x in c) % 3 == 0
    op = orig.copy() if on_copy else orig
    # a label may be given as a string or as a list of strings; in half of the sequences (decided by the sequence itself,
    # so that replays agree) every call naming a geometry is handed ONE list object per geometry, reused from call to call,
    # as a user's loop over corner pairs would do: what one call does with it must not leak into another edge or corner
    share = sum(len(str(x)) for c in calls for x in c) % 2 == 0
    shared = {}

    def lab(name):
        return shared.setdefault(name, [name]) if share else name

    try:
        for c in calls:
            if c[0] == "set_patch":
                op.set_patch(c[1], c[2])
            elif c[0] == "set_patch_list":
                lst = shared.setdefault(("sides",) + tuple(c[1]), list(c[1])) if share else list(c[1])
                op.set_patch(lst, c[2])
                if lst != list(c[1]):
                    return ("error", "ArgumentModified")
            elif c[0] == "project_side":
                op.project_side(c[1], c[2], edges=c[3], points=c[4])
            elif c[0] == "project_edge":
                op.project_edge(c[1], c[2], lab(c[3]))
            elif c[0] == "project_corner":
                op.project_corner(c[1], lab(c[2]))
        ob = observe(op)
        if not on_copy and len(calls) % 2 == 0:
            # an operation built on a face handed out by get_face adds nothing to patches and projections
            want = dict(quads=sum(len(q) for q in ob["patches"].values()), faces=len(ob["faces"]),
                        pedges=len([1 for (_a, _b, k, _l) in ob["edges"] if k == "project"]), pverts=len(ob["vproj"]))
            for side in ("top", "bottom", "right"):
                got = chained_counts(op, side)
                if got != want:
                    return ("error", "LeakThroughGetFace")
        if on_copy:
            bare = observe(orig)
            if bare["patches"] or bare["faces"] or bare["vproj"] or any(l for (_a, _b, _k, l) in bare["edges"]):
                return ("error", "LeakToOriginal")
    except GenError:
        raise
    except Exception as e:
        return ("error", exc_enum(e))
    # canonical: patches: sorted (name, sorted corner set) ; faces: sorted (corner set, label);
    # edges: sorted (min,max, sorted labels); vproj: sorted (corner, labels in order)
    pat = sorted((n, sorted(q)) for n, qs in ob["patches"].items() for q in qs)
    fac = sorted((sorted(q), l) for (q, l) in ob["faces"])
    edg = sorted((min(a, b), max(a, b), sorted(l)) for (a, b, k, l) in ob["edges"])
    vpr = sorted((c, list(l)) for c, l in ob["vproj"].items())
    return ("ok", pat, fac, edg, vpr)


# ------------------------------------------------------------------------------------------------
# face histories (class U): re-indexing / moving calls on the two faces of one operation, with side
# faces requested in between; model: Model/OpFaceHist.v


def gen_face_history(rng, n):
    calls = []
    for _ in range(n):
        k = rng.random()
        top = rng.random() < 0.5
        if k < 0.15:
            calls.append(["invert", top])
        elif k < 0.35:
            calls.append(["shift", top, rng.randint(-9, 9)])
        elif k < 0.5:
            calls.append(["reorient", top, rng.randrange(4)])
        elif k < 0.62:
            calls.append(["move_face", top])
        elif k < 0.7:
            calls.append(["op_move"])
        elif k < 0.76:
            calls.append(["op_invert"])
        else:
            calls.append(["get_face", rng.choice(SIDES)])
    calls.append(["get_face", rng.choice(SIDES)])
    return calls


def run_face_history_impl(calls):
    """Returns (observations, final) with point/edge identities as in Model/OpFaceHist.v, or ('error', class).
    A point is identified through its CURRENT position among the operation's eight Point objects."""
    import numpy as np
    cb = _cb()
    from classy_blocks.construct.edges import Arc
    bottom = cb.Face(CUBE[:4], [Arc([100 + i, 3, 7]) for i in range(4)])
    top = cb.Face(CUBE[4:], [Arc([200 + i, 5, 9]) for i in range(4)])
    op = cb.Loft(bottom, top)
    pid = {id(p): i for i, p in enumerate(list(bottom.points) + list(top.points))}
    eid = {id(e): 10 + i for i, e in enumerate(list(bottom.edges) + list(top.edges))}

    def ident(position):
        for p in list(op.bottom_face.points) + list(op.top_face.points):
            if float(np.linalg.norm(np.asarray(position) - p.position)) < 1e-9:
                return pid.get(id(p), 98)
        return 99  # not a current corner of the operation (stale or wrong)

    obs = []
    # in most histories (chosen by the history itself, so that replays agree) the operation is looked at / assembled into a
    # mesh of its own before one of the steps: what it hands out later is a function of its faces as they are then
    peek_at = sum(len(str(x)) for c in calls for x in c) % (len(calls) + 2)

    def assemble_corners():
        mesh = cb.Mesh()
        mesh.add(op)
        with warnings.catch_warnings():
            warnings.simplefilter("ignore")
            mesh.assemble()
        return [ident(v.position) for v in mesh.block_list.blocks[0].vertices]

    try:
        for step, c in enumerate(calls):
            if step == peek_at:
                _ = [p.position for p in op.points], op.point_array, op.center
                if step % 2 == 0:
                    assemble_corners()
            vec = [0.013 * (step + 1), -0.007 * (step + 2), 0.011 * (step + 3)]
            if c[0] == "get_face":
                face = op.get_face(c[1])
                obs.append([ident(p.position) for p in face.points])
                continue
            face = op.top_face if (len(c) > 1 and c[1]) else op.bottom_face
            if c[0] == "invert":
                face.invert()
            elif c[0] == "shift":
                face.shift(c[2])
            elif c[0] == "reorient":
                target = face.points[c[2]].position + np.array([0.004, -0.003, 0.002])
                face.reorient(target)
            elif c[0] == "move_face":
                face.translate(vec)
            elif c[0] == "op_move":
                op.translate(vec).rotate(0.05 * (step + 1), [0.1, 0.2, 1.0], [0.3, 0.1, 0.2])
            elif c[0] == "op_invert":
                op.invert()
        final = [[pid.get(id(p), 98) for p in op.bottom_face.points], [pid.get(id(p), 98) for p in op.top_face.points],
                 [eid.get(id(e), 98) for e in op.bottom_face.edges], [eid.get(id(e), 98) for e in op.top_face.edges]]
        corners = [[pid.get(id(p), 98) for p in op.points], assemble_corners()]
    except Exception as e:
        return ("error", exc_enum(e))
    return ("ok", obs, final, corners)


def coq_fcall(c):
    if c[0] == "get_face":
        return "GetFace %s" % COQ_SIDE[c[1]]
    if c[0] == "op_move":
        return "OpMove"
    if c[0] == "op_invert":
        return "OpInvert"
    t = bl(c[1])
    if c[0] == "invert":
        return "FInvert %s" % t
    if c[0] == "shift":
        return "FShift %s %s" % (t, core.coq_z(c[2]))
    if c[0] == "reorient":
        return "FReorient %s %d" % (t, c[2])
    return "FMove %s" % t


SIDE_CORNERS = {"bottom": {0, 1, 2, 3}, "top": {4, 5, 6, 7}, "left": {0, 3, 4, 7}, "right": {1, 2, 5, 6},
                "front": {0, 1, 4, 5}, "back": {2, 3, 6, 7}}


def oracle_face_history(calls, out):
    """Direct oracle (no Coq model): every requested side face consists of four different current corners of the
    operation (99 = a position that is no current corner: a stale or wrong face)."""
    if out[0] != "ok":
        return "history raised %s" % (out[1],)
    for o in out[1]:
        if len(set(o)) != 4 or any(x > 7 for x in o):
            return "get_face returned points that are not four distinct current corners: %s" % (o,)
    f = out[2]
    if sorted(f[0] + f[1]) != list(range(8)):
        return "faces lost/duplicated points: %s" % (f,)
    if len(out) > 3:
        if out[3][0] != f[0] + f[1]:
            return "Operation.points %s are not the bottom face's points followed by the top face's %s" % (out[3][0], f[0] + f[1])
        if out[3][1] != f[0] + f[1]:
            return "the block's corners %s are not the bottom face's points followed by the top face's %s" % (out[3][1], f[0] + f[1])
    return ""


LABELS = {"pa": 1, "pb": 2, "pc": 3, "ga": 11, "gb": 12, "gc": 13}


def coq_call(c):
    if c[0] == "set_patch_list":
        return "; ".join("SetPatch %s %d" % (COQ_SIDE[sd], LABELS[c[2]]) for sd in c[1])
    if c[0] == "set_patch":
        return "SetPatch %s %d" % (COQ_SIDE[c[1]], LABELS[c[2]])
    if c[0] == "project_side":
        return "ProjectSide %s %d %s %s" % (COQ_SIDE[c[1]], LABELS[c[2]], bl(c[3]), bl(c[4]))
    if c[0] == "project_edge":
        return "ProjectEdge %d %d %d" % (c[1], c[2], LABELS[c[3]])
    return "ProjectCorner %d %d" % (c[1], LABELS[c[2]])


def coq_obs(ob):
    if ob[0] == "error":
        return "None"
    _ok, pat, fac, edg, vpr = ob
    return "Some (%s, %s, %s, %s)" % (
        "[" + "; ".join("(%d, %s)" % (LABELS[n], nl(q)) for n, q in pat) + "]",
        "[" + "; ".join("(%s, %d)" % (nl(q), LABELS[l]) for q, l in fac) + "]",
        "[" + "; ".join("(%d, %d, %s)" % (a, b, nl([LABELS[x] for x in l])) for a, b, l in edg) + "]",
        "[" + "; ".join("(%d, %s)" % (c, nl([LABELS[x] for x in l])) for c, l in vpr) + "]",
    )


class C10(Prop):
    pid = "C10"
    prebuilt = ["Base/Hex.v", "Base/Vec3.v", "Model/OpAddr.v", "Model/FaceGeom.v", "Model/OpFaceHist.v", "Proofs/OpAddrFrame.v",
                "Proofs/FaceGeom.v", "Proofs/OpFaceHist.v"]
    gen_dependent_files = ["Gen/C10/Tables.v"]
    property_files = ["Properties/C10.v"]
    trusted = [
        "tabulation: Face.invert/shift/reorient on tagged faces (3 quads, shifts -9..9, 4 corners x 3 offsets), "
        "set_patch/project_side/project_edge/project_corner/add_side_edge/Face.add_edge/get_face on a fresh Loft "
        "observed through Mesh.assemble() (whole finite domain)",
        "sequence correspondence is sampled (random call sequences), not exhaustive",
    ]

    def generate(self, ctx):
        face = tab_face_ops()
        addr = tab_addressing()
        ctx.write_gen("Tables", emit(face, addr))
        self._tables = (face, addr)

    def correspond(self, ctx):
        res = CorrResult()
        res.rule = ("(a) random histories (1..10 calls + final get_face) of Face.invert/shift(-9..9)/reorient/translate on the bottom/top face, "
                    "whole-operation moves, Operation.invert and get_face(side) requests, compared with Model/OpFaceHist.v (side faces as "
                    "sets of current corner identities, final point/edge order exactly); (b) random sequences (length 1..8) of set_patch/project_side/project_edge/project_corner on one Loft; "
                    "compared: patch quads, projected quads, projected edges with label sets, projected corners with "
                    "label lists, or the rejection; non-trivial = at least 2 calls and a non-empty observation; "
                    "distinct by call list")
        n = ctx.n(300, 6000)
        cases = []
        for i in range(n):
            calls = gen_sequence(ctx.rng, ctx.rng.randint(1, 8))
            ob = run_sequence_impl(calls)
            cases.append((calls, ob))
            res.evaluations += 1
            res.count("len=%d" % len(calls))
            res.count("outcome=" + ob[0])
            if len(calls) >= 2 and ob[0] == "ok" and any(ob[1:]):
                res.distinct.add(json.dumps(calls))
            # direct oracle (self-check): patches/faces are sides, edges are edges
            bad = oracle_obs(ob)
            if bad:
                res.oracle_failures.append(dict(kind="sequence", calls=calls, observed=ob, why=bad))
        res.samples = [dict(calls=c, observed=o) for (c, o) in cases[:3]]
        shards = []
        per = 400
        for k in range(0, len(cases), per):
            chunk = cases[k:k + per]
            body = ["From Coq Require Import List Bool Arith.", "From CB Require Import Base.Hex Model.OpAddr.",
                    "Import ListNotations.",
                    "Definition cases : list (nat * list call * option obs) := ["]
            body.append(";\n".join("(%d, [%s], %s)" % (k + j, "; ".join(coq_call(c) for c in calls), coq_obs(ob))
                                   for j, (calls, ob) in enumerate(chunk)))
            body.append("].")
            body.append("Eval vm_compute in (map (fun c => fst (fst c)) (filter (fun c => negb (obs_opt_eqb (run_calls (snd (fst c))) (snd c))) cases)).")
            shards.append(("cases_%d" % (k // per), "\n".join(body) + "\n"))
        for (name, rc, so, se) in core.run_cases_parallel(ctx, shards):
            if rc != 0:
                res.error = "case file %s failed to compile: %s" % (name, se[-800:])
                return res
            ids = parse_id_list(so)
            for i in ids:
                res.mismatches.append(dict(case=i, calls=cases[i][0], impl=cases[i][1]))
        res.traces = len(cases)
        # ---- face histories against Model/OpFaceHist.v
        nh = ctx.n(300, 6000)
        hcases = []
        for i in range(nh):
            calls = gen_face_history(ctx.rng, ctx.rng.randint(1, 10))
            out = run_face_history_impl(calls)
            hcases.append((calls, out))
            res.evaluations += 1
            res.count("hist_len=%d" % len(calls))
            res.count("hist_outcome=" + out[0])
            if out[0] == "ok" and len(out[1]) >= 2 and any(c[0] in ("invert", "shift", "reorient", "op_invert") for c in calls):
                res.distinct.add("H" + json.dumps(calls))
            bad = oracle_face_history(calls, out)
            if bad:
                res.oracle_failures.append(dict(kind="face_history", calls=calls, observed=out, why=bad))
        res.samples += [dict(face_history=c, observed=o) for (c, o) in hcases[:2]]
        shards = []
        for k in range(0, len(hcases), per):
            chunk = hcases[k:k + per]
            body = ["From Coq Require Import List Bool Arith ZArith.", "From CB Require Import Base.Hex Model.OpFaceHist.",
                    "Import ListNotations.",
                    "Definition cases : list (nat * list fcall * list (list nat) * list (list nat)) := ["]
            rows = []
            for j, (calls, out) in enumerate(chunk):
                if out[0] != "ok":
                    ob, fin = "[[99]]", "[]"
                else:
                    ob = "[" + "; ".join(nl(o) for o in out[1]) + "]"
                    fin = "[" + "; ".join(nl(o) for o in out[2]) + "]"
                rows.append("(%d, [%s], %s, %s)" % (k + j, "; ".join(coq_fcall(c) for c in calls), ob, fin))
            body.append(";\n".join(rows))
            body.append("].")
            body.append("Eval vm_compute in (map (fun c => fst (fst (fst c))) (filter (fun c => negb (fhist_agrees (snd (fst (fst c))) (snd (fst c)) (snd c))) cases)).")
            shards.append(("hist_%d" % (k // per), "\n".join(body) + "\n"))
        for (name, rc, so, se) in core.run_cases_parallel(ctx, shards):
            if rc != 0:
                res.error = "case file %s failed to compile: %s" % (name, se[-800:])
                return res
            for i in parse_id_list(so):
                res.mismatches.append(dict(kind="face_history", case=i, calls=hcases[i][0], impl=hcases[i][1]))
        res.traces += len(hcases)
        return res

    def search(self, ctx, broken, corr):
        """Direct oracle over the whole finite domain + mismatching sequences."""
        fails = []
        try:
            face = tab_face_ops()
            addr = tab_addressing()
        except Exception as e:
            ctx.log("search: tabulation failed: %s" % e)
            return fails
        fails += oracle_tables(face, addr)
        for m in corr.mismatches[:40]:
            if m.get("kind") == "face_history":
                bad = oracle_face_history(m["calls"], m["impl"])
                if bad:
                    fails.append(dict(kind="face_history", calls=m["calls"], observed=m["impl"], why=bad))
                continue
            bad = oracle_obs(m["impl"]) or oracle_sequence(m["calls"], m["impl"])
            if bad:
                fails.append(dict(kind="sequence", calls=m["calls"], observed=m["impl"], why=bad))
        return fails

    def signature(self, rp):
        return rp.get("sig") or "%s:%s" % (rp.get("kind"), rp.get("why", "")[:80])

    def replay(self, ctx, obj):
        if obj.get("kind") == "face_history":
            out = run_face_history_impl(obj["calls"])
            print("implementation:", out)
            print("oracle:", oracle_face_history(obj["calls"], out) or "ok")
        elif obj.get("kind") == "sequence":
            ob = run_sequence_impl(obj["calls"])
            print("implementation:", ob)
            print("oracle:", oracle_obs(ob) or oracle_sequence(obj["calls"], ob) or "ok")
        else:
            face = tab_face_ops()
            addr = tab_addressing()
            for f in oracle_tables(face, addr):
                print("FAIL:", f)
        return 0


def parse_id_list(so):
    import re
    m = re.search(r"=\s*\[(.*?)\]\s*:\s*list nat", so, flags=re.S)
    if not m:
        raise RuntimeError("cannot parse Coq output: %r" % so[:400])
    body = m.group(1).strip()
    if not body:
        return []
    return [int(x) for x in body.replace("\n", " ").split(";")]


# ---- direct oracle (independent of Coq; Python restatement of the hexahedron) ------------------
XYZ = [(0, 0, 0), (1, 0, 0), (1, 1, 0), (0, 1, 0), (0, 0, 1), (1, 0, 1), (1, 1, 1), (0, 1, 1)]
PLANE = {"bottom": (2, 0), "top": (2, 1), "front": (1, 0), "back": (1, 1), "left": (0, 0), "right": (0, 1)}


def h_is_edge(a, b):
    return 0 <= a < 8 and 0 <= b < 8 and sum(1 for k in range(3) if XYZ[a][k] != XYZ[b][k]) == 1


def h_side_corners(s):
    ax, v = PLANE[s]
    return [c for c in range(8) if XYZ[c][ax] == v]


def h_is_side_cycle(s, q):
    return (len(q) == 4 and len(set(q)) == 4 and set(q) == set(h_side_corners(s))
            and all(h_is_edge(q[i], q[(i + 1) % 4]) for i in range(4)))


def h_side_edges(s):
    sc = h_side_corners(s)
    return {frozenset((a, b)) for a in sc for b in sc if h_is_edge(a, b)}


def oracle_tables(face, addr):
    fails = []

    def face_ok(p, e):
        if sorted(p) != [0, 1, 2, 3] or sorted(e) != [0, 1, 2, 3]:
            return "points/edges are not a permutation"
        for j in range(4):
            if {p[j], p[(j + 1) % 4]} != {e[j], (e[j] + 1) % 4}:
                return "edge in slot %d no longer between its two points" % j
        return None

    for (q, (p, e)) in face["invert"]:
        bad = face_ok(p, e) or (None if all(p[(j + 1) % 4] == (p[j] - 1) % 4 for j in range(4)) else "invert does not reverse the cycle")
        if bad:
            fails.append(dict(kind="face_invert", quad=QUADS[q], result=[p, e], why=bad, sig="C10:face_invert"))
    for (q, k, (p, e)) in face["shift"]:
        bad = face_ok(p, e) or (None if all(p[(j + 1) % 4] == (p[j] + 1) % 4 for j in range(4)) else "shift changes the cyclic order")
        if bad:
            fails.append(dict(kind="face_shift", quad=QUADS[q], count=k, result=[p, e], why=bad, sig="C10:face_shift"))
    for (q, c, (p, e)) in face["reorient"]:
        bad = face_ok(p, e) or (None if p[0] == c else "nearest corner %d is not first (first is %d)" % (c, p[0]))
        if not bad and not all(p[(j + 1) % 4] == (p[j] + 1) % 4 for j in range(4)):
            bad = "reorient changes the cyclic order"
        if bad:
            fails.append(dict(kind="face_reorient", quad=QUADS[q], nearest_corner=c, result=[p, e], why=bad,
                              sig="C10:face_reorient:first!=nearest" if "nearest" in bad else "C10:face_reorient"))
    for (s, qs) in addr["set_patch"]:
        if len(qs) != 1 or not h_is_side_cycle(s, qs[0]):
            fails.append(dict(kind="set_patch", side=s, quads=qs, why="patch quad is not the hexahedron side", sig="C10:set_patch:" + s))
    for (s, e, p, qs, es, vs) in addr["project_side"]:
        bad = None
        if len(qs) != 1 or not h_is_side_cycle(s, qs[0]):
            bad = "projected quad is not the hexahedron side"
        elif {frozenset(x) for x in es} != (h_side_edges(s) if e else set()) or len(es) != (4 if e else 0):
            bad = "projected edges are not exactly the side's edges"
        elif sorted(vs) != (sorted(h_side_corners(s)) if p else []):
            bad = "projected corners are not exactly the side's corners"
        if bad:
            fails.append(dict(kind="project_side", side=s, edges=e, points=p, result=[qs, es, vs], why=bad,
                              sig="C10:project_side:%s" % s))
    for (a, b, ok, es) in addr["project_edge"]:
        if h_is_edge(a, b):
            if not ok or len(es) != 1 or set(es[0]) != {a, b}:
                fails.append(dict(kind="project_edge", corners=[a, b], accepted=ok, result=es,
                                  why="valid edge not projected exactly", sig="C10:project_edge"))
    for (c, vs) in addr["project_corner"]:
        if vs != [c]:
            fails.append(dict(kind="project_corner", corner=c, result=vs, why="wrong corner projected", sig="C10:project_corner"))
    for (i, es, n) in addr["side_edge"]:
        if n != 1 or len(es) != 1 or set(es[0]) != {i, i + 4}:
            fails.append(dict(kind="add_side_edge", slot=i, result=es, why="side edge not between i and i+4", sig="C10:side_edge"))
    for (w, i, es, n) in addr["face_edge"]:
        if n != 1 or len(es) != 1 or set(es[0]) != {4 * w + i, 4 * w + (i + 1) % 4}:
            fails.append(dict(kind="face_add_edge", face=w, slot=i, result=es, why="face edge not between i and i+1", sig="C10:face_edge"))
    for (s, q) in addr["get_face"]:
        if not h_is_side_cycle(s, q):
            fails.append(dict(kind="get_face", side=s, result=q, why="face is not the hexahedron side", sig="C10:get_face:" + s))
    return fails


def oracle_obs(ob):
    """Every patch/projected quad is a side, every projected edge an edge of the hexahedron."""
    if ob[0] != "ok":
        return None
    _ok, pat, fac, edg, vpr = ob
    sidesets = {s: sorted(h_side_corners(s)) for s in SIDES}
    for (_n, q) in pat:
        if q not in sidesets.values():
            return "patch quad %r is not a side" % (q,)
    for (q, _l) in fac:
        if q not in sidesets.values():
            return "projected quad %r is not a side" % (q,)
    for (a, b, _l) in edg:
        if not h_is_edge(a, b):
            return "projected edge %d-%d is not an edge" % (a, b)
    return None


def oracle_sequence(calls, ob):
    """Spec-level interpretation in Python (independent restatement) for the search stage."""
    patch = {}
    face = {}
    edge = {}
    vert = {}
    try:
        for c in calls:
            if c[0] == "set_patch":
                patch[c[1]] = c[2]
            elif c[0] == "set_patch_list":
                for sd in c[1]:
                    patch[sd] = c[2]
            elif c[0] == "project_side":
                s, l, e, p = c[1:]
                face[s] = l
                if e:
                    for pr in h_side_edges(s):
                        edge.setdefault(pr, [])
                        if l not in edge[pr]:
                            edge[pr].append(l)
                        if len(edge[pr]) > 2:
                            raise ValueError
                if p:
                    for v in h_side_corners(s):
                        vert.setdefault(v, []).append(l)
            elif c[0] == "project_edge":
                if not h_is_edge(c[1], c[2]):
                    raise KeyError
                pr = frozenset((c[1], c[2]))
                edge.setdefault(pr, [])
                if c[3] not in edge[pr]:
                    edge[pr].append(c[3])
                if len(edge[pr]) > 2:
                    raise ValueError
            else:
                vert.setdefault(c[1], []).append(c[2])
    except Exception:
        return None if ob[0] == "error" else "sequence should have been rejected"
    if ob[0] == "error":
        return "sequence rejected (%s) although every call is valid" % ob[1]
    exp_pat = sorted((n, sorted(h_side_corners(s))) for s, n in patch.items())
    exp_fac = sorted((sorted(h_side_corners(s)), l) for s, l in face.items())
    exp_edg = sorted((min(pr), max(pr), sorted(l)) for pr, l in edge.items())
    exp_vpr = sorted((c, l) for c, l in vert.items())
    _ok, pat, fac, edg, vpr = ob
    if pat != exp_pat:
        return "patches differ: %r vs expected %r" % (pat, exp_pat)
    if fac != exp_fac:
        return "projected faces differ: %r vs expected %r" % (fac, exp_fac)
    if edg != exp_edg:
        return "projected edges differ: %r vs expected %r" % (edg, exp_edg)
    if [(c, sorted(l)) for c, l in vpr] != [(c, sorted(l)) for c, l in exp_vpr]:
        return "projected corners differ: %r vs expected %r" % (vpr, exp_vpr)
    return None


PROP = C10()
