"""C02 - Grading propagation terminates, completes and is order-independent.

Model: coq/Model/Propagate.v (hand-written, schedule oracles explicit).  Theorems: Properties/C02.v.
Correspondence: random assemblies x chop placements x insertion orders x corner numberings x injected
iteration orders; outcome kind, per-block counts and per-wire counts compared inside Coq.
"""
import json
import warnings
import os
import subprocess
import sys

import core
from core import CorrResult, Prop
from props import grading_common as gc


def prio_from_salt(salt):
    def prio(label):
        import hashlib
        return hashlib.sha1((repr(label) + repr(salt)).encode()).hexdigest()
    prio.salt = salt
    return prio


def make_prio(rng):
    return prio_from_salt(rng.random())


def lattice_dir(perm, a):
    """lattice direction (0,1,2) and sense (+1/-1) of block axis a under the corner numbering perm"""
    c1, c2 = gc.AXIS_PAIRS_REF[a][0]
    p, q = gc.XYZ[perm[c1]], gc.XYZ[perm[c2]]
    d = [q[i] - p[i] for i in range(3)]
    return (d.index(1), 1) if 1 in d else (d.index(-1), -1)


def user_sections_agree(asm):
    """Python counterpart of Proofs/PropagateOrder.user_agree: on every lattice edge all user-chopped directions with a
    wire there list the same section counts (read along the + lattice direction).  None if some chop is not count-only."""
    per_edge = {}
    for (ci, a), ch in asm.chops.items():
        if not ch:
            continue
        if any("count" not in c for c in ch):
            return None
        _d, sgn = lattice_dir(asm.perms[ci], a)
        lst = [int(c["count"]) for c in ch]
        if sgn < 0:
            lst.reverse()
        i, j, k = asm.cells[ci]
        for (c1, c2) in gc.AXIS_PAIRS_REF[a]:
            e = frozenset((i + x, j + y, k + z) for (x, y, z) in (gc.XYZ[asm.perms[ci][c1]], gc.XYZ[asm.perms[ci][c2]]))
            per_edge.setdefault(e, set()).add(tuple(lst))
    return all(len(v) == 1 for v in per_edge.values())


def sections_oracle(asm, r):
    """C02_complete_sections_input on the implementation: with every family chopped and no conflicting totals, writing
    succeeds exactly when the user's section lists meeting on shared edges agree - under every schedule."""
    agree = user_sections_agree(asm)
    if agree is None:
        return None
    stat = gc.chop_counts_static(asm)
    totals = {(asm.order[p], a): sum(cs) for (p, a), cs in stat.items()}
    exp, _counts = gc.expected_outcome(asm, totals)
    if exp != "ok":
        return None   # undefined / count conflict: decided by gc.direct_oracle
    want = "ok" if agree else "inconsistent"
    if r["outcome"] != want:
        return "user section lists on shared edges %s but outcome is %s" % ("agree" if agree else "disagree", r["outcome"])
    return None


# a propagated block B (index 1) between two chopped blocks A (0) and C (2) whose chops along the common direction
# have equal totals and possibly different section lists; D (3) is a second propagated block
SANDWICH = {
    "face_edge": [(0, 0, 0), (0, 1, 0), (0, 2, 1)],             # A shares a face with B, C one edge: one free wire on B
    "edge_edge": [(0, 0, 0), (0, 1, 1), (0, 2, 2)],             # both share one edge only: two free wires on B
    "stack": [(0, 0, 0), (0, 1, 0), (0, 2, 0)],                 # both share faces: no free wire
    "meet": [(0, 0, 0), (0, 1, 0), (0, 1, 1)],                  # A and C share an edge themselves: their chops meet
    "ring": [(0, 0, 0), (0, 1, 0), (0, 1, 1), (0, 0, 1)],       # four blocks around one edge, two of them propagated
}


def sandwich_assembly(rng):
    name = rng.choice(sorted(SANDWICH))
    p3 = rng.sample(range(3), 3)
    flip = [rng.random() < 0.5 for _ in range(3)]

    def mp(c):
        return tuple((2 - c[p3[i]]) if flip[i] else c[p3[i]] for i in range(3))
    cells = [mp(c) for c in SANDWICH[name]]
    d = p3.index(0)
    perms = [rng.choice(gc.ROT24) for _ in cells]
    asm = gc.Assembly(cells, perms, {}, {}, rng.sample(range(len(cells)), len(cells)))
    for f in gc.families(asm):
        asm.chops[f[0]] = [dict(count=rng.choice([2, 3, 4]))]

    def along(ci):
        return [(a, lattice_dir(perms[ci], a)[1]) for a in range(3) if lattice_dir(perms[ci], a)[0] == d][0]
    for ci in range(len(cells)):
        asm.chops.pop((ci, along(ci)[0]), None)
    a_, b_ = rng.sample([1, 2, 3, 4, 5], 2)
    tot = a_ + b_
    variant = rng.choice(["same", "swapped", "swapped", "other", "single", "total"])
    other = rng.choice([c for c in range(1, tot) if c != a_])
    lc = dict(same=[a_, b_], swapped=[b_, a_], other=[other, tot - other], single=[tot], total=[a_, b_ + 1])[variant]
    for ci, phys in ((0, [a_, b_]), (2, lc)):
        a, sgn = along(ci)
        lst = phys if sgn > 0 else phys[::-1]
        asm.chops[(ci, a)] = [dict(count=lst[0])] if len(lst) == 1 else [dict(length_ratio=0.5, count=k) for k in lst]
    asm.mode = "sandwich"
    asm.sand = (name, variant)
    return asm


def corr_grading(ctx, res, cases_spec, tag, sections=False):
    """cases_spec: list of (asm, prio or None). Runs implementation + Coq model; fills res. Returns list of (asm, impl result).
    sections=True adds the exact prediction of the section-list comparison (sections_oracle) to the direct oracle."""
    done = []
    for (asm, prio) in cases_spec:
        r = gc.run_impl(asm, ctx.work, prio)
        done.append((asm, prio is not None, r))
        res.evaluations += 1
        res.count("outcome=" + r["outcome"])
        res.count("blocks=%d" % len(asm.cells))
        res.count("schedule=" + ("injected" if prio is not None else "native"))
        res.count("mode=" + getattr(asm, "mode", ""))
        if len(asm.cells) >= 2 and asm.chops:
            res.distinct.add(json.dumps(asm.to_json(), sort_keys=True) + str(prio is not None))
        why = gc.direct_oracle(asm, r) or (sections_oracle(asm, r) if sections else None)
        if why:
            res.oracle_failures.append(dict(kind="assembly", assembly=asm.to_json(), injected=prio is not None,
                                            salt=getattr(prio, "salt", None), outcome=r["outcome"], why=why))
    # Coq side
    shards = []
    per = 60
    for k in range(0, len(done), per):
        body = [gc.CASE_HEADER, "Definition cases : list case := ["]
        items = []
        for j, (asm, _inj, r) in enumerate(done[k:k + per]):
            cc = dict(gc.chop_counts_static(asm))
            for key, v in r["chop_counts"].items():
                if key in cc and any(x is None for x in cc[key]) and v is not None:
                    cc[key] = v
            if any(x is None for v in cc.values() for x in v):
                # chop counts not resolved (the implementation raised before): model gets a placeholder count
                cc = {key: [x if x is not None else 1 for x in v] for key, v in cc.items()}
            co, nb = gc.coq_orders(r)
            items.append("(%d, %s,\n  %s,\n  %s,\n  %s)" % (k + j, gc.coq_blocks(r, asm, cc), co, nb, gc.coq_expected(r)))
        body.append(";\n".join(items))
        body.append("].")
        body.append("Eval vm_compute in (mismatching cases).")
        shards.append(("%s_%d" % (tag, k // per), "\n".join(body) + "\n"))
    from props.C10 import parse_id_list
    for (name, rc, so, se) in core.run_cases_parallel(ctx, shards):
        if rc != 0:
            res.error = "case file %s failed: %s" % (name, se[-800:])
            return done
        for i in parse_id_list(so):
            asm, inj, r = done[i]
            res.mismatches.append(dict(case=i, assembly=asm.to_json(), injected=inj, impl_outcome=r["outcome"],
                                       impl_counts=r.get("counts")))
    res.traces += len(done)
    return done


DET_SCRIPT = r'''
import sys, json, random
sys.path.insert(0, sys.argv[1]); sys.path.insert(0, sys.argv[2])
junk = [object() for _ in range(int(sys.argv[4]))]
junk2 = [[i] for i in range(int(sys.argv[4]) % 977)]
import warnings; warnings.simplefilter("ignore")
from props import grading_common as gc
asm = gc.Assembly.from_json(json.loads(open(sys.argv[3]).read()))
r = gc.run_impl(asm, sys.argv[5], None)
import hashlib
print(r["outcome"], hashlib.sha1(r.get("file", "").encode()).hexdigest())
'''


def determinism_probe(ctx, res, asms, runs):
    """Run-to-run determinism of the implementation's own schedule: same script in fresh interpreters with perturbed
    allocation and hash seeds must give the same file or the same error (testing, not proof; DESIGN C02 (c))."""
    script = os.path.join(ctx.work, "det_probe.py")
    with open(script, "w") as f:
        f.write(DET_SCRIPT)
    for ai, asm in enumerate(asms):
        p = os.path.join(ctx.work, "det_%d.json" % ai)
        with open(p, "w") as f:
            json.dump(asm.to_json(), f)
        procs = []
        for r in range(runs):
            env = dict(os.environ)
            env["PYTHONHASHSEED"] = str(ctx.rng.randrange(1, 10 ** 6))
            procs.append(subprocess.Popen([core.PY, "-B", script, os.path.join(core.REPO, "src"),
                                           os.path.join(core.VERIF, "harness"), p, str(ctx.rng.randrange(0, 50000)), ctx.work],
                                          stdout=subprocess.PIPE, stderr=subprocess.PIPE, text=True, env=env))
        outs = set()
        for pr in procs:
            try:
                so, se = pr.communicate(timeout=120)
            except subprocess.TimeoutExpired:
                pr.kill()
                so = "timeout"
            outs.add(so.strip())
        res.evaluations += runs
        res.count("determinism_probe_runs", runs)
        if len(outs) != 1:
            res.oracle_failures.append(dict(kind="nondeterministic", assembly=asm.to_json(), outcomes=sorted(outs),
                                            why="repeated runs of the same script end differently"))


def gen_copied_case(rng):
    """two separate pairs: box A (chopped along `axis` by a cell SIZE) with an un-chopped neighbour B, and A2 - a scaled, moved
    COPY of A (Operation.copy) - with its own un-chopped neighbour B2.  Every family holds a chop, the counts follow from
    each family's own chop on its own edge length"""
    return dict(axis=rng.randrange(3), size=rng.choice([0.11, 0.07, 0.21]), which=rng.choice(["start_size", "end_size"]),
                ratio=rng.choice([2.0, 3.0, 0.5]), order=rng.sample(range(4), 4), other=rng.choice([2, 3, 5]))


def run_copied_case(case, workdir, copied=True):
    import classy_blocks as cb
    a = case["axis"]
    k = case["ratio"]

    def box(lo, size):
        return cb.Box(list(lo), [lo[i] + size for i in range(3)])
    A = box([0.0, 0.0, 0.0], 1.0)
    for ax in range(3):
        if ax == a:
            A.chop(ax, **{case["which"]: case["size"]})
        else:
            A.chop(ax, count=case["other"])
    lo_b = [0.0, 0.0, 0.0]
    lo_b[(a + 1) % 3] = 1.0
    B = box(lo_b, 1.0)   # shares the face across direction a+1: same family along a
    B.chop((a + 1) % 3, count=case["other"])
    far = [10.0, 0.0, 0.0]
    if copied:
        A2 = A.copy().scale(k, [0.0, 0.0, 0.0]).translate(far)
    else:
        A2 = box(far, k)
        for ax in range(3):
            if ax == a:
                A2.chop(ax, **{case["which"]: case["size"]})
            else:
                A2.chop(ax, count=case["other"])
    lo_b2 = list(far)
    lo_b2[(a + 1) % 3] += k
    B2 = box(lo_b2, k)
    B2.chop((a + 1) % 3, count=case["other"])
    ops = [A, B, A2, B2]
    mesh = cb.Mesh()
    for i in case["order"]:
        mesh.add(ops[i])
    path = os.path.join(workdir, "bmd_copied_%d" % os.getpid())
    with warnings.catch_warnings():
        warnings.simplefilter("ignore")
        try:
            mesh.write(path)
        except Exception as e:  # noqa: BLE001
            return ("error:" + type(e).__name__, str(e)[:160])
    with open(path) as f:
        text = f.read()
    counts = sorted(tuple(c) for (_v, c, _g, _s) in gc.parse_blocks(text))
    return ("ok", counts)


def oracle_copied(case, workdir):
    got = run_copied_case(case, workdir, copied=True)
    ref = run_copied_case(case, workdir, copied=False)
    if ref[0] != "ok":
        return None  # not a statement about copies
    if got != ref:
        return ("a model whose second chopped box is a scaled COPY of the first ends %r; built from scratch with the same chops "
                "it ends %r" % (got, ref))
    return None


def ambiguous_assembly(rng):
    """A family holding two chops of equal count and different expansion: the written expansions depend on which
    neighbour is visited first, so it exposes address-dependent iteration."""
    asm = gc.gen_assembly(rng, max_cells=7, p_chop=0.0, jitter=False)
    fams = [f for f in gc.families(asm) if len({b for b, _a in f}) >= 3]
    for f in gc.families(asm):
        asm.chops[f[0]] = [dict(count=4)]
    if fams:
        f = rng.choice(fams)
        a, b = f[0], f[-1]
        asm.chops[a] = [dict(count=4, total_expansion=2.0)]
        asm.chops[b] = [dict(count=4, total_expansion=0.25)]
    return asm


def ambiguous_row(rng):
    """A row of 4..6 boxes whose two end boxes carry chops of equal count and different expansion in one direction
    across the row: with two or more unchopped boxes between them, which donor a middle box copies from depends on
    the order in which the worklist of undefined blocks is swept."""
    n = rng.randint(4, 6)
    d = rng.randrange(3)
    cells = [tuple(i if k == d else 0 for k in range(3)) for i in range(n)]
    perms = [rng.choice(gc.ROT24) for _ in cells]
    order = list(range(n))
    if rng.random() < 0.5:
        rng.shuffle(order)
    asm = gc.Assembly(cells, perms, {}, {}, order)
    done = False
    for fam in gc.families(asm):
        blocks = sorted({x[0] for x in fam})
        if len(blocks) == 1:
            asm.chops[fam[0]] = [dict(count=rng.choice([1, 2, 3]))]
            continue
        first = [x for x in fam if x[0] == 0][0]
        last = [x for x in fam if x[0] == n - 1][0]
        if not done:
            asm.chops[first] = [dict(count=10, total_expansion=4.0)]
            asm.chops[last] = [dict(count=10, total_expansion=0.25)]
            done = True
        else:
            asm.chops[rng.choice([first, last])] = [dict(count=rng.choice([2, 3]))]
    asm.mode = "ambiguous-row"
    return asm


class C02(Prop):
    pid = "C02"
    prebuilt = gc.PREBUILT + ["Proofs/PropagateOrder.v"]
    gen_dependent_files = ["Gen/C02/Tables.v"]
    property_files = ["Properties/C02.v"]
    trusted = [
        "hand model Model/Propagate.v of BlockList.propagate_gradings / Axis.copy_grading / WirePropagateManager; tied by sampled "
        "correspondence (outcome kind, per-block and per-wire counts) under native and injected iteration orders",
        "chop counts are inputs of the model (count-only chops; their resolution is C03)",
        "theorems assume blocks with 12 distinct edges (nondegenerate bs = true); collapsed blocks are covered by the correspondence only",
        "run-to-run determinism of CPython itself is probed (8 fresh interpreters per script), not proved",
    ]
    partial = []

    def generate(self, ctx):
        from classy_blocks.util import constants
        ap = constants.AXIS_PAIRS
        if len(ap) != 3 or any(len(r) != 4 for r in ap):
            raise core.GenError("AXIS_PAIRS has unexpected shape")
        txt = ("(* GENERATED from classy_blocks.util.constants *)\nFrom Coq Require Import List.\nImport ListNotations.\n"
               "Definition gen_axis_pairs : list (list (nat * nat)) :=\n  [" +
               ";\n   ".join("[" + "; ".join("(%d, %d)" % tuple(p) for p in row) + "]" for row in ap) + "].\n")
        ctx.write_gen("Tables", txt)

    def cases(self, ctx):
        rng = ctx.rng
        spec = []
        n = ctx.n(160, 4000)
        for i in range(n):
            asm = gc.gen_assembly(rng, max_cells=ctx.n(8, 14), dims=(3, 3, 2) if ctx.quick else (4, 3, 3),
                                  p_chop=rng.choice([0.15, 0.3, 0.5]))
            spec.append((asm, None))
            spec.append((asm, make_prio(rng)))
        # chains and slabs with exactly one chop per family: counts travel far, blocks are completed direction by direction
        for i in range(ctx.n(90, 1500)):
            dims = rng.choice([(7, 1, 1), (1, 6, 1), (5, 2, 1), (4, 1, 2), (3, 3, 1)])
            asm = gc.gen_assembly(rng, max_cells=ctx.n(8, 12), min_cells=4, dims=dims, sparse=True, jitter=False)
            spec.append((asm, None if rng.random() < 0.7 else make_prio(rng)))
        return spec

    def correspond(self, ctx):
        res = CorrResult()
        res.rule = ("random lattice assemblies (1..8 cells quick, ..14 thorough; face, edge-only and corner contacts; each block "
                    "renumbered by a random rotation; jittered vertices; random insertion order) x chop placements (count-only, some "
                    "two-section; families left empty or conflicting in ~40%) x {native, injected} iteration order of "
                    "neighbour/coincident containers; compared in Coq: outcome kind, (nx,ny,nz) per block, count per wire; "
                    "plus sandwich family: propagated block(s) between two chopped neighbours with equal totals and different "
                    "multi-section lists (5 contact patterns x 6 list variants x random direction/numbering/insertion order) under "
                    "native + 2 injected schedules, outcome kind and counts compared between the schedules, with the model, and "
                    "with the prediction from the user's chops alone; "
                    "non-trivial = >=2 blocks and >=1 chop; distinct by assembly json + schedule kind")
        spec = self.cases(ctx)
        # corpus first
        spec = [(a, None) for a in load_corpus("C02")] + spec
        done = corr_grading(ctx, res, spec, "c02", sections=True)
        res.samples = [dict(assembly=a.to_json(), injected=inj, outcome=r["outcome"], counts=r.get("counts")) for (a, inj, r) in done[:3]]
        # order independence on the implementation (direct oracle): same assembly, other insertion order / numbering
        for (asm, _inj, r) in done[: ctx.n(40, 400)]:
            if len(asm.cells) < 2:
                continue
            asm2 = gc.Assembly(asm.cells, [ctx.rng.choice(gc.ROT24) for _ in asm.cells], {}, asm.jitter,
                               ctx.rng.sample(asm.order, len(asm.order)))
            # transport chops to the renumbered blocks: axis a of the old numbering is the family of its first wire
            if not transport_chops(asm, asm2):
                continue
            r2 = gc.run_impl(asm2, ctx.work, make_prio(ctx.rng))
            res.evaluations += 1
            res.count("order_independence_pairs")
            why = compare_geometric(asm, r, asm2, r2)
            if why:
                res.oracle_failures.append(dict(kind="order", assembly=asm.to_json(), assembly2=asm2.to_json(), why=why))
        if not res.error:
            self.sandwich(ctx, res)
        for _ in range(ctx.n(12, 200)):
            cc = gen_copied_case(ctx.rng)
            res.evaluations += 1
            res.count("copied-operation pairs")
            res.distinct.add("copied:" + json.dumps(cc, sort_keys=True))
            why = oracle_copied(cc, ctx.work)
            if why and not any(f.get("kind") == "copied" for f in res.oracle_failures):
                res.oracle_failures.append(dict(kind="copied", case=cc, why=why, sig="C02:copied-operation:counts-differ"))
        determinism_probe(ctx, res, [ambiguous_assembly(ctx.rng) for _ in range(ctx.n(4, 40))]
                          + [ambiguous_row(ctx.rng) for _ in range(ctx.n(3, 20))], 8)
        return res

    def sandwich(self, ctx, res):
        """Propagated block(s) between two chopped neighbours with equal totals and different multi-section lists, each
        assembly under the native and two injected schedules: model comparison in Coq per run, and between the
        schedules outcome kind, block counts and wire counts must coincide (C02_order_independent); which kind it
        is, is predicted from the user's chops alone (sections_oracle = C02_complete_sections_input)."""
        rng = ctx.rng
        spec = []
        for _ in range(ctx.n(70, 900)):
            asm = sandwich_assembly(rng)
            spec += [(asm, None), (asm, make_prio(rng)), (asm, make_prio(rng))]
        done = corr_grading(ctx, res, spec, "c02s", sections=True)
        if res.error:
            return
        for k in range(0, len(done), 3):
            asm = done[k][0]
            runs = [d[2] for d in done[k:k + 3]]
            salts = [getattr(p, "salt", None) for (_a, p) in spec[k:k + 3]]
            res.count("sandwich=%s" % asm.sand[0])
            res.count("sandwich_lists=%s:%s" % (asm.sand[1], runs[0]["outcome"]))
            why = None
            for j in (1, 2):
                if runs[j]["outcome"] != runs[0]["outcome"]:
                    why = "outcome %s under one iteration order, %s under another" % (runs[0]["outcome"], runs[j]["outcome"])
                elif runs[0]["outcome"] == "ok" and (runs[j]["counts"] != runs[0]["counts"]
                                                     or runs[j]["wire_counts"] != runs[0]["wire_counts"]):
                    why = "counts differ between two iteration orders"
            if why:
                res.oracle_failures.append(dict(kind="schedule", assembly=asm.to_json(), salts=salts,
                                                outcomes=[r["outcome"] for r in runs], why=why))
            elif runs[0]["outcome"] == "ok" and any(r["wire_specs"] != runs[0]["wire_specs"] for r in runs[1:]):
                # not a failure: section lists of free wires of propagated blocks follow the neighbour met first
                # (Properties/C02.v, C02_free_wire_sections_order_dependent)
                res.count("sandwich_free_wire_sections_differ_between_schedules")

    def search(self, ctx, broken, corr):
        fails = []
        res = CorrResult()
        rng = ctx.rng
        for i in range(ctx.n(300, 3000)):
            asm = gc.gen_assembly(rng, max_cells=6, p_chop=rng.choice([0.15, 0.3, 0.5]))
            for prio in (None, make_prio(rng)):
                r = gc.run_impl(asm, ctx.work, prio)
                why = gc.direct_oracle(asm, r)
                if why:
                    fails.append(dict(kind="assembly", assembly=shrink(asm, prio, ctx).to_json(), injected=prio is not None,
                                      outcome=r["outcome"], why=why))
                    break
            if len(fails) >= 3:
                break
        return fails

    def signature(self, rp):
        return rp.get("sig") or "%s:%s:%s" % (self.pid, rp.get("kind"), (rp.get("why") or "")[:60])

    def replay(self, ctx, obj):
        if obj.get("kind") == "copied":
            print("input:", json.dumps(obj["case"]))
            print("implementation (copy):", run_copied_case(obj["case"], ctx.work, True))
            print("implementation (built from scratch):", run_copied_case(obj["case"], ctx.work, False))
            print("oracle:", oracle_copied(obj["case"], ctx.work) or "ok")
            return 0
        asm = gc.Assembly.from_json(obj["assembly"])
        salts = obj.get("salts") or [obj.get("salt")]
        outs = []
        for salt in salts:
            r = gc.run_impl(asm, ctx.work, prio_from_salt(salt) if salt is not None else None)
            outs.append((r["outcome"], r.get("counts"), r.get("wire_counts")))
            print("schedule %s: implementation outcome:" % ("native" if salt is None else "injected(%r)" % salt), r["outcome"], r.get("counts"))
            print("oracle:", gc.direct_oracle(asm, r) or sections_oracle(asm, r) or "ok")
        if len(outs) > 1:
            print("schedules agree:", all(o == outs[0] for o in outs))
        return 0


def load_corpus(pid):
    d = os.path.join(core.VERIF, "corpus", pid)
    out = []
    if os.path.isdir(d):
        for fn in sorted(os.listdir(d)):
            if fn.endswith(".json"):
                with open(os.path.join(d, fn)) as f:
                    out.append(gc.Assembly.from_json(json.load(f)["assembly"]))
    return out


def shrink(asm, prio, ctx):
    """Greedy: drop cells / chops while the direct oracle still fails."""
    cur = asm
    changed = True
    while changed:
        changed = False
        for drop in range(len(cur.cells)):
            if len(cur.cells) <= 1:
                break
            keep = [i for i in range(len(cur.cells)) if i != drop]
            remap = {old: new for new, old in enumerate(keep)}
            cand = gc.Assembly([cur.cells[i] for i in keep], [cur.perms[i] for i in keep],
                               {(remap[b], a): ch for (b, a), ch in cur.chops.items() if b in remap}, cur.jitter,
                               [remap[i] for i in cur.order if i in remap])
            try:
                r = gc.run_impl(cand, ctx.work, prio)
                if gc.direct_oracle(cand, r):
                    cur = cand
                    changed = True
                    break
            except Exception:
                pass
    return cur


def transport_chops(asm, asm2):
    """Give asm2 (same cells, other numbering/order) the geometrically same chops: a chop on (cell, axis) sits on the
    lattice direction of that axis."""
    def lattice_dir(perm, a):
        c1, c2 = gc.AXIS_PAIRS_REF[a][0]
        p, q = gc.XYZ[perm[c1]], gc.XYZ[perm[c2]]
        d = [q[i] - p[i] for i in range(3)]
        return (d.index(1), 1) if 1 in d else (d.index(-1), -1)
    for (b, a), ch in asm.chops.items():
        if any("count" not in c for c in ch):
            return False
        d, sgn = lattice_dir(asm.perms[b], a)
        a2, sgn2 = [(x, lattice_dir(asm2.perms[b], x)[1]) for x in range(3) if lattice_dir(asm2.perms[b], x)[0] == d][0]
        # multi-section chops are direction dependent: the same physical sections, listed along the new axis direction
        asm2.chops[(b, a2)] = [dict(c) for c in (ch if sgn == sgn2 else list(reversed(ch)))]
    return True


def compare_geometric(asm, r, asm2, r2):
    if r["outcome"] != r2["outcome"]:
        return "outcome %s vs %s under another insertion order / numbering / schedule" % (r["outcome"], r2["outcome"])
    if r["outcome"] != "ok":
        return None

    def edge_counts(a, rr):
        pos = {ci: p for p, ci in enumerate(a.order)}
        out = {}
        for ci in range(len(a.cells)):
            pts = a.points(ci)
            for ax in range(3):
                for k, (c1, c2) in enumerate(gc.AXIS_PAIRS_REF[ax]):
                    key = frozenset((tuple(pts[c1]), tuple(pts[c2])))
                    out[(ci, key)] = rr["wire_counts"][pos[ci]][4 * ax + k]
        return out
    e1, e2 = edge_counts(asm, r), edge_counts(asm2, r2)
    for k in e1:
        if e1[k] != e2.get(k):
            return "edge %s of cell %d has %s cells vs %s under another order/numbering" % (sorted(k[1]), k[0], e1[k], e2.get(k))
    return None


PROP = C02()
