"""C09, stream (S): sphere shapes carry a piece of output geometry of their own - the searchableSphere their shell is
projected to (EighthSphere.geometry: centre and radius, written into the `geometry` section).  Transforming the shape
must give the transformed sphere: centre = T(centre), radius = |product of scaling ratios| * radius, and the corners of
the projected (outer) sides lie on it.  Direct oracle only; the maps are computed here with numpy, independently."""
import json
import math
import re
import warnings


def _np():
    import numpy as np
    return np


def rot(p, angle, axis, origin):
    np = _np()
    p, axis, origin = (np.asarray(x, dtype=float) for x in (p, axis, origin))
    k = axis / np.linalg.norm(axis)
    v = p - origin
    return origin + v * math.cos(angle) + np.cross(k, v) * math.sin(angle) + k * float(np.dot(k, v)) * (1 - math.cos(angle))


def apply(p, t):
    np = _np()
    p = np.asarray(p, dtype=float)
    if t[0] == "translate":
        return p + np.asarray(t[1], dtype=float)
    if t[0] == "rotate":
        return rot(p, t[1], t[2], t[3])
    if t[0] == "scale":
        o = np.asarray(t[2], dtype=float)
        return o + (p - o) * t[1]
    if t[0] == "mirror":
        n = np.asarray(t[1], dtype=float)
        n = n / np.linalg.norm(n)
        o = np.asarray(t[2], dtype=float)
        return p - 2 * float(np.dot(p - o, n)) * n
    return p  # copy


def gen_case(rng):
    c = [rng.choice([0.0, 1.0, -2.5, 5.0]) for _ in range(3)]
    r = rng.choice([0.5, 1.0, 2.0])
    n = rng.choice([[0.0, 0.0, 1.0], [1.0, 0.0, 0.0], [1.0, 2.0, 2.0]])
    # a radius vector perpendicular to the normal
    import numpy as np
    nn = np.array(n) / np.linalg.norm(n)
    a = np.cross(nn, [0.3, -0.5, 0.8])
    a = a / np.linalg.norm(a) * r
    trs = []
    for _ in range(rng.choice([1, 1, 2, 3])):
        k = rng.choice(["translate", "rotate", "scale", "mirror", "mirror", "copy"])
        if k == "translate":
            trs.append([k, [rng.choice([-2.0, 0.5, 3.0]) for _ in range(3)]])
        elif k == "rotate":
            trs.append([k, rng.choice([0.5, -1.0, 2.0]), rng.choice([[0.0, 0.0, 1.0], [1.0, 1.0, 0.0], [1.0, -2.0, 0.5]]),
                        [rng.choice([0.0, 1.0, -1.0]) for _ in range(3)]])
        elif k == "scale":
            trs.append([k, rng.choice([0.5, 2.0, 1.5]), [rng.choice([0.0, 1.0, -1.0]) for _ in range(3)]])
        elif k == "mirror":
            trs.append([k, rng.choice([[0.0, 0.0, 1.0], [1.0, 0.0, 0.0], [1.0, 1.0, 0.0], [2.0, 0.0, -1.0]]),
                        [rng.choice([0.0, 0.5, -1.0]) for _ in range(3)]])
        else:
            trs.append([k])
    return dict(cls=rng.choice(["EighthSphere", "Hemisphere"]), center=c, radius_point=[float(c[i] + a[i]) for i in range(3)],
                normal=n, transforms=trs, mode=rng.choice(["method", "method", "list"]))


def run_case(case):
    from classy_blocks.construct.shapes import sphere
    from classy_blocks.base import transforms as tr
    np = _np()
    with warnings.catch_warnings():
        warnings.simplefilter("ignore")
        s = getattr(sphere, case["cls"])(case["center"], case["radius_point"], case["normal"])
        for t in case["transforms"]:
            if t[0] == "copy":
                s = s.copy()
            elif case["mode"] == "list" and t[0] != "mirror":
                obj = {"translate": lambda: tr.Translation(t[1]), "rotate": lambda: tr.Rotation(t[2], t[1], t[3]),
                       "scale": lambda: tr.Scaling(t[1], t[2])}[t[0]]()
                s.transform([obj])
            elif t[0] == "translate":
                s.translate(t[1])
            elif t[0] == "rotate":
                s.rotate(t[1], t[2], t[3])
            elif t[0] == "scale":
                s.scale(t[1], t[2])
            elif t[0] == "mirror":
                s.mirror(t[1], t[2])
        geom = s.geometry
        label = s.geometry_label
        outer = []
        for op in s.shell:
            f = op.get_face("right")
            outer += [[float(x) for x in p.position] for p in f.points]
        labels = sorted({l for op in s.shell for l in op.side_projects if l})
    return dict(geometry={k: list(v) for k, v in geom.items()}, label=label, outer=outer, projected_to=labels)


def oracle(case, ob):
    np = _np()
    c = np.array(case["center"], dtype=float)
    r = float(np.linalg.norm(np.array(case["radius_point"]) - c))
    for t in case["transforms"]:
        c = apply(c, t)
        if t[0] == "scale":
            r *= abs(t[1])
    g = ob["geometry"]
    if list(g) != [ob["label"]]:
        return ("the shape defines the geometries %r, its label is %r" % (list(g), ob["label"]), "label")
    if ob["projected_to"] != [ob["label"]]:
        return ("the shell is projected to %r, the shape's geometry is %r" % (ob["projected_to"], ob["label"]), "label")
    text = " ; ".join(g[ob["label"]])
    mc = re.search(r"centre \(\s*([-+0-9.eE]+)\s+([-+0-9.eE]+)\s+([-+0-9.eE]+)\s*\)", text)
    mr = re.search(r"radius\s+([-+0-9.eE]+)", text)
    if "searchableSphere" not in text or not mc or not mr:
        return ("cannot read a searchableSphere from %r" % text, "unreadable")
    gc = np.array([float(x) for x in mc.groups()])
    gr = float(mr.group(1))
    first_kind = next((t[0] for t in case["transforms"] if t[0] != "copy"), "copy")
    kinds = "+".join(sorted({t[0] for t in case["transforms"]}))
    if float(np.max(np.abs(gc - c))) > 1e-6 * (1 + float(np.max(np.abs(c)))):
        return ("after %s the shape's sphere has centre %s; the transformed centre is %s" % (
            [t[0] for t in case["transforms"]], gc.tolist(), c.tolist()), "centre")
    if abs(gr - r) > 1e-6 * r:
        return ("after %s the shape's sphere has radius %r; the transformed radius is %r" % ([t[0] for t in case["transforms"]], gr, r),
                "radius")
    for p in ob["outer"]:
        d = float(np.linalg.norm(np.array(p) - gc))
        if abs(d - gr) > 1e-6 * (1 + gr):
            return ("a corner %s of a projected side is %r from the sphere's centre, its radius is %r" % (p, d, gr), "outer-off-sphere")
    _ = first_kind
    return None


def check(case):
    try:
        ob = run_case(case)
    except Exception as e:  # noqa: BLE001
        return dict(kind="sphere", case=case, why="raised %s: %s" % (type(e).__name__, str(e)[:200]), sig="C09:sphere-geometry:raises")
    bad = oracle(case, ob)
    if bad:
        return dict(kind="sphere", case=case, why=bad[0], sig="C09:sphere-geometry:" + bad[1])
    return None


def shrink(case, sig):
    cur = json.loads(json.dumps(case))
    changed = True
    while changed and len(cur["transforms"]) > 1:
        changed = False
        for i in range(len(cur["transforms"])):
            c2 = json.loads(json.dumps(cur))
            del c2["transforms"][i]
            f = check(c2)
            if f and f["sig"].split(":")[2] == sig.split(":")[2]:
                cur, changed = c2, True
                break
    return cur
