"""Shared machinery of C01 / C02 / C04: random block assemblies, chop placements, schedule injection,
implementation runner with livelock watchdog, independent family oracle, Coq literals for
Model/Propagate.v."""
import itertools
import os
import re
import warnings

import core

AXIS_PAIRS_REF = (((0, 1), (3, 2), (7, 6), (4, 5)), ((0, 3), (1, 2), (5, 6), (4, 7)), ((0, 4), (1, 5), (2, 6), (3, 7)))
XYZ = [(0, 0, 0), (1, 0, 0), (1, 1, 0), (0, 1, 0), (0, 0, 1), (1, 0, 1), (1, 1, 1), (0, 1, 1)]


def rot24():
    rz = [1, 2, 3, 0, 5, 6, 7, 4]
    rx = [3, 2, 6, 7, 0, 1, 5, 4]
    ident = list(range(8))
    seen = [ident]
    todo = [ident]
    while todo:
        p = todo.pop(0)
        for g in (rz, rx):
            q = [g[p[i]] for i in range(8)]
            if q not in seen:
                seen.append(q)
                todo.append(q)
    assert len(seen) == 24
    return seen


ROT24 = rot24()


class Assembly:
    """cells: list of lattice cells (i,j,k); perm: per cell a renumbering; chops: dict (cell idx, axis) -> list of
    chop dicts (kwargs of Operation.chop); jitter: dict lattice point -> (dx,dy,dz)."""

    def __init__(self, cells, perms, chops, jitter, order=None):
        self.cells = cells
        self.perms = perms
        self.chops = chops
        self.jitter = jitter
        self.order = order or list(range(len(cells)))
        self.mode = ""
        # curved edges: list of [owner cell idx, corner_1, corner_2, [dx,dy,dz]] - the owner operation gets a
        # three-point arc between its corners c1,c2 (a block edge) through their mid point displaced by the offset
        self.arcs = []
        # vertices moved AFTER Mesh.assemble() and before writing: list of [vertex index, [dx,dy,dz]]
        self.moves = []

    def to_json(self):
        return dict(cells=[list(c) for c in self.cells], perms=self.perms,
                    chops=[[b, a, ch] for (b, a), ch in sorted(self.chops.items())],
                    jitter=[[list(k), list(v)] for k, v in sorted(self.jitter.items())], order=self.order,
                    **({"arcs": self.arcs} if self.arcs else {}), **({"moves": self.moves} if self.moves else {}),
                    **({"life": self.life} if getattr(self, "life", None) is not None else {}))

    @staticmethod
    def from_json(d):
        asm = Assembly([tuple(c) for c in d["cells"]], d["perms"],
                       {(b, a): ch for b, a, ch in d["chops"]},
                       {tuple(k): tuple(v) for k, v in d["jitter"]}, d.get("order"))
        asm.arcs = [list(a) for a in d.get("arcs", [])]
        asm.moves = [list(a) for a in d.get("moves", [])]
        if d.get("life") is not None:
            asm.life = int(d["life"])
        return asm

    def points(self, ci):
        i, j, k = self.cells[ci]
        pts = []
        for c in range(8):
            x, y, z = XYZ[self.perms[ci][c]]
            lp = (i + x, j + y, k + z)
            jx = self.jitter.get(lp, (0, 0, 0))
            pts.append([lp[0] + jx[0], lp[1] + jx[1], lp[2] + jx[2]])
        return pts


def gen_assembly(rng, max_cells=8, dims=(3, 3, 2), p_chop=0.35, conflict_bias=0.0, jitter=True, multi=0.2,
                 count_only=True, sparse=False, min_cells=1):
    """sparse=True: well-posed placements with exactly ONE chop per family (a count has to travel through the whole
    family, several passes of the propagation loop, directions of one block completed in different passes)."""
    nx, ny, nz = dims
    allc = [(i, j, k) for i in range(nx) for j in range(ny) for k in range(nz)]
    n = rng.randint(min(min_cells, len(allc)), min(max_cells, len(allc)))
    # grow a mostly connected set (edge-only and corner contacts arise at the fringe); sometimes disconnected
    cells = [rng.choice(allc)]
    while len(cells) < n:
        if rng.random() < 0.85:
            base = rng.choice(cells)
            d = rng.choice([(1, 0, 0), (-1, 0, 0), (0, 1, 0), (0, -1, 0), (0, 0, 1), (0, 0, -1),
                            (1, 1, 0), (1, 0, 1), (0, 1, 1), (1, -1, 0), (1, 1, 1)])
            c = (base[0] + d[0], base[1] + d[1], base[2] + d[2])
        else:
            c = rng.choice(allc)
        if c in allc and c not in cells:
            cells.append(c)
        elif rng.random() < 0.05:
            break
    perms = [rng.choice(ROT24) if rng.random() < 0.7 else list(range(8)) for _ in cells]
    jit = {}
    if jitter and rng.random() < 0.6:
        for i in range(nx + 1):
            for j in range(ny + 1):
                for k in range(nz + 1):
                    jit[(i, j, k)] = tuple(rng.choice([-0.125, 0, 0.0625, 0.125]) for _ in range(3))
    order = list(range(len(cells)))
    rng.shuffle(order)
    asm = Assembly(cells, perms, {}, jit, order)
    counts_pool = [2, 3, 4, 5]

    def one_chop(total=None):
        if total is not None:
            if total >= 4 and rng.random() < multi:
                k = rng.randint(1, total - 1)
                return [dict(length_ratio=0.5, count=k), dict(length_ratio=0.5, count=total - k)]
            return [dict(count=total)]
        if rng.random() < multi:
            return [dict(length_ratio=0.5, count=rng.choice(counts_pool)), dict(length_ratio=0.5, count=rng.choice(counts_pool))]
        if count_only or rng.random() < 0.6:
            return [dict(count=rng.choice(counts_pool))]
        return [dict(start_size=rng.choice([0.125, 0.25, 0.5]))]

    mode = rng.random()
    fams = families(asm)
    if mode < 0.1 and not sparse:
        # unstructured placement
        for b in range(len(cells)):
            for a in range(3):
                if rng.random() < p_chop:
                    asm.chops[(b, a)] = one_chop()
        asm.mode = "random"
        return asm
    # well-posed: every family gets 1..3 agreeing chops
    for fam in fams:
        tot = rng.choice(counts_pool) + rng.choice([0, 0, 2])
        for x in rng.sample(fam, min(len(fam), 1 if sparse else rng.choice([1, 1, 1, 2, 3]))):
            asm.chops[x] = one_chop(tot)
    asm.mode = "sparse" if sparse else "wellposed"
    if sparse and mode < 0.8:
        return asm
    if mode < 0.1 + conflict_bias + 0.2:
        # one conflicting chop somewhere in a family with at least two axes
        big = [f for f in fams if len(f) >= 2]
        if big:
            fam = rng.choice(big)
            free = [x for x in fam if x not in asm.chops] or fam[1:]
            x = rng.choice(free)
            other = [y for y in fam if y in asm.chops and y != x]
            base = chop_total(asm.chops[other[0]]) if other and chop_total(asm.chops[other[0]]) else 3
            asm.chops[x] = [dict(count=base + rng.choice([1, 2]))]
            asm.mode = "conflict"
    elif mode < 0.1 + conflict_bias + 0.2 + 0.15:
        fam = rng.choice(fams)
        for x in fam:
            asm.chops.pop(x, None)
        asm.mode = "underspecified"
    return asm


# ---- independent family computation (Python oracle) -------------------------------------------

def block_vertex_ids(asm):
    """vertex id per (cell, corner) by lattice point (jitter is per lattice point, so identity is exact)"""
    ids = {}
    out = []
    for ci, (i, j, k) in enumerate(asm.cells):
        row = []
        for c in range(8):
            x, y, z = XYZ[asm.perms[ci][c]]
            lp = (i + x, j + y, k + z)
            row.append(ids.setdefault(lp, len(ids)))
        out.append(row)
    return out


def families(asm):
    vids = block_vertex_ids(asm)
    parent = {}

    def find(x):
        while parent.setdefault(x, x) != x:
            parent[x] = parent[parent[x]]
            x = parent[x]
        return x

    def union(a, b):
        parent[find(a)] = find(b)

    edge_owner = {}
    for b in range(len(asm.cells)):
        for a in range(3):
            find((b, a))
            for (c1, c2) in AXIS_PAIRS_REF[a]:
                e = frozenset((vids[b][c1], vids[b][c2]))
                if e in edge_owner:
                    union((b, a), edge_owner[e])
                else:
                    edge_owner[e] = (b, a)
    fam = {}
    for b in range(len(asm.cells)):
        for a in range(3):
            fam.setdefault(find((b, a)), []).append((b, a))
    return list(fam.values())


def chop_total(chs):
    return sum(int(c["count"]) for c in chs) if all("count" in c for c in chs) else None


def make_consistent(asm, rng):
    """Rewrite chops so that every family has exactly agreeing totals (keeps where chops sit)."""
    for fam in families(asm):
        chopped = [x for x in fam if x in asm.chops]
        if not chopped:
            continue
        ref = asm.chops[chopped[0]]
        tot = chop_total(ref)
        for x in chopped[1:]:
            if tot is None:
                del asm.chops[x]
            else:
                asm.chops[x] = [dict(count=tot)]


def expected_outcome(asm, totals):
    """totals: dict (b,a) -> resolved total count of the user chops on that axis."""
    fams = families(asm)
    undefined = any(not any(x in asm.chops for x in fam) for fam in fams)
    conflict = False
    counts = {}
    for fam in fams:
        ts = {totals[x] for x in fam if x in asm.chops}
        if len(ts) > 1:
            conflict = True
        for x in fam:
            counts[x] = next(iter(ts)) if len(ts) == 1 else None
    if undefined:
        return "undefined", counts
    if conflict:
        return "inconsistent", counts
    return "ok", counts


# ---- implementation runner ---------------------------------------------------------------------

class Livelock(Exception):
    pass


def build_mesh(asm):
    import classy_blocks as cb
    mesh = cb.Mesh()
    ops = {}
    for ci in asm.order:
        pts = asm.points(ci)
        op = cb.Loft(cb.Face(pts[:4]), cb.Face(pts[4:]))
        for a in range(3):
            for ch in asm.chops.get((ci, a), []):
                op.chop(a, **ch)
        for oc, c1, c2, off in getattr(asm, "arcs", []):
            if oc != ci:
                continue
            mid = [(pts[c1][k] + pts[c2][k]) / 2 + off[k] for k in range(3)]
            lo, hi = min(c1, c2), max(c1, c2)
            if hi < 4:
                op.bottom_face.add_edge(lo if (lo + 1) % 4 == hi else hi, cb.Arc(mid))
            elif lo >= 4:
                op.top_face.add_edge((lo if (lo - 4 + 1) % 4 == hi - 4 else hi) - 4, cb.Arc(mid))
            else:
                assert hi == lo + 4, "not a block edge"
                op.add_side_edge(lo, cb.Arc(mid))
        ops[ci] = op
        mesh.add(op)
    return mesh, ops


def reorder_containers(mesh, prio):
    """Schedule injection (DESIGN 2.5): every list/set/dict attribute of an Axis (resp. Wire) that holds Axis (Wire)
    objects is replaced by a container of the same kind iterating in the order given by prio."""
    from classy_blocks.items.wires.axis import Axis
    from classy_blocks.items.wires.wire import Wire

    label = {}
    for bi, block in enumerate(mesh.block_list.blocks):
        for ai, axis in enumerate(block.axes):
            label[id(axis)] = ("a", bi, ai)
            for k, w in enumerate(axis.wires.wires):
                label[id(w)] = ("w", bi, ai, k)

    class OrdSet(set):
        def __init__(self, items):
            super().__init__(items)
            self._ord = list(items)

        def __iter__(self):
            return iter(self._ord)

    def fix(obj, cls):
        for name, val in list(vars(obj).items()):
            if isinstance(val, (list, set, dict)) and len(val) > 0 and all(isinstance(x, cls) for x in val) \
                    and name not in ("wires",):
                items = sorted(list(val), key=lambda x: prio(label[id(x)]))
                if isinstance(val, list):
                    setattr(obj, name, items)
                elif isinstance(val, dict):
                    setattr(obj, name, {k: val[k] for k in items})
                else:
                    setattr(obj, name, OrdSet(items))

    for block in mesh.block_list.blocks:
        for axis in block.axes:
            fix(axis, Axis)
            for w in axis.wires.wires:
                fix(w, Wire)
    return label


class ForeignNeighbour(Exception):
    """the neighbour/coincident relation of an assembled mesh names objects of another (earlier) assembly"""


def iteration_orders(mesh, label):
    """The orders in which the implementation will walk neighbours / coincidents."""
    co = {}
    nb = {}
    for bi, block in enumerate(mesh.block_list.blocks):
        for ai, axis in enumerate(block.axes):
            lst = getattr(axis, "neighbour_list", None)
            if lst is None:
                lst = list(axis.neighbours)
            if any(id(x) not in label for x in lst):
                raise ForeignNeighbour("block %d axis %d lists a neighbour axis that belongs to no block of this assembly" % (bi, ai))
            nb[(bi, ai)] = [label[id(x)][1:] for x in lst]
            for k, w in enumerate(axis.wires.wires):
                lw = getattr(w, "coincident_list", None)
                if lw is None:
                    lw = list(w.coincidents)
                if any(id(x) not in label for x in lw):
                    raise ForeignNeighbour("block %d axis %d wire %d lists a coincident wire that belongs to no block of this assembly" % (bi, ai, k))
                co[(bi, ai, k)] = [label[id(x)][1:] for x in lw]
    return co, nb


def parse_blocks(text):
    """hex entries of a blockMeshDict: list of (vertex ids, (nx,ny,nz), grading kind, grading text)"""
    out = []
    m = re.search(r"blocks\s*\(\s*(.*?)\n\);", text, flags=re.S)
    if not m:
        return out
    for line in m.group(1).splitlines():
        mm = re.match(r"\s*hex\s*\(\s*([\d\s]+)\)\s*(\S*)\s*\(\s*(\d+)\s+(\d+)\s+(\d+)\s*\)\s*(simpleGrading|edgeGrading)\s*\((.*)\)\s*//", line)
        if mm:
            out.append(([int(x) for x in mm.group(1).split()], (int(mm.group(3)), int(mm.group(4)), int(mm.group(5))),
                        mm.group(6), mm.group(7)))
    return out


def life_variant(asm):
    """how the mesh object has lived before the write that is observed (chosen by the assembly itself, so that replays
    agree): 0 fresh; 1 already written once (same outcome expected again, also after an error); 2 assembled, cleared and
    assembled again; 3 graded explicitly before writing; 4 written (or refused) once, then cleared and assembled again.  The grading a write produces is a function of the model, not of
    what the mesh object went through."""
    import hashlib
    import json
    if getattr(asm, "life", None) is not None:
        return int(asm.life)
    h = int(hashlib.sha1(json.dumps(asm.to_json(), sort_keys=True, default=str).encode()).hexdigest()[:6], 16)
    return (h % 10) if (h % 10) < 5 else 0


def _write_outcome(mesh, path, ex, livelock):
    try:
        with warnings.catch_warnings():
            warnings.simplefilter("ignore")
            mesh.write(path)
        with open(path) as f:
            text = f.read()
        blocks = text[text.index("blocks"):text.index("edges")] if ("blocks" in text and "edges" in text) else text
        return "ok", blocks
    except livelock:
        return "nofuel", None
    except ex.UndefinedGradingsError:
        return "undefined", None
    except ex.InconsistentGradingsError:
        return "inconsistent", None
    except Exception as e:  # noqa: BLE001
        return "error:" + type(e).__name__, None


def run_impl(asm, workdir, prio=None, budget_factor=6):
    """Returns dict(outcome=..., counts=[[nx,ny,nz]...] in block order, wire_counts=..., orders=..., file=text)"""
    from classy_blocks.base import exceptions as ex
    from classy_blocks.items.block import Block

    mesh, _ops = build_mesh(asm)
    life = life_variant(asm)
    with warnings.catch_warnings():
        warnings.simplefilter("ignore")
        mesh.assemble()
        if life == 2 and not prio:
            mesh.clear()
            mesh.assemble()
        if life == 4 and not prio:
            try:
                mesh.write(os.path.join(workdir, "bmd_first_%d" % os.getpid()))
            except Exception:  # noqa: BLE001  (a refused first write is part of the life)
                pass
            mesh.clear()
            mesh.assemble()
    if prio:
        label = reorder_containers(mesh, prio)
    else:
        label = {}
        for bi, block in enumerate(mesh.block_list.blocks):
            for ai, axis in enumerate(block.axes):
                label[id(axis)] = ("a", bi, ai)
                for k, w in enumerate(axis.wires.wires):
                    label[id(w)] = ("w", bi, ai, k)
    verts = [[v.index for v in b.vertices] for b in mesh.block_list.blocks]
    try:
        co, nb = iteration_orders(mesh, label)
    except ForeignNeighbour as e:
        # nothing the model could be run on: reported by the direct oracle
        return dict(verts=verts, co={}, nb={}, outcome="error:ForeignNeighbour", message=str(e), life=life, copy_calls=0,
                    chop_counts={}, life_diff="after clear() and a second assemble(): " + str(e))
    res = dict(verts=verts, co=co, nb=nb)
    nblocks = len(mesh.block_list.blocks)
    budget = budget_factor * (4 * nblocks + 2) * max(1, nblocks)
    calls = [0]
    orig = Block.copy_grading

    def counted(self):
        calls[0] += 1
        if calls[0] > budget:
            raise Livelock()
        return orig(self)

    Block.copy_grading = counted
    path = os.path.join(workdir, "bmd_%d" % os.getpid())
    first = None
    try:
        if life == 1:
            first = _write_outcome(mesh, path, ex, Livelock)
            calls[0] = 0
        elif life == 3:
            try:
                with warnings.catch_warnings():
                    warnings.simplefilter("ignore")
                    mesh.grade()
            except Exception:  # noqa: BLE001  (the write below meets the same error)
                pass
            calls[0] = 0
    except Exception:  # noqa: BLE001
        pass
    try:
        with warnings.catch_warnings():
            warnings.simplefilter("ignore")
            mesh.write(path)
        res["outcome"] = "ok"
    except Livelock:
        res["outcome"] = "nofuel"
    except ex.UndefinedGradingsError:
        res["outcome"] = "undefined"
    except ex.InconsistentGradingsError:
        res["outcome"] = "inconsistent"
    except Exception as e:  # pragma: no cover
        res["outcome"] = "error:" + type(e).__name__
        res["message"] = str(e)[:300]
    finally:
        Block.copy_grading = orig
    res["copy_calls"] = calls[0]
    res["life"] = life
    if first is not None:
        second_blocks = None
        if res["outcome"] == "ok":
            with open(path) as f:
                t2 = f.read()
            second_blocks = t2[t2.index("blocks"):t2.index("edges")] if ("blocks" in t2 and "edges" in t2) else t2
        if first[0] != res["outcome"]:
            res["life_diff"] = "the first write ended %s, the second write of the same mesh %s" % (first[0], res["outcome"])
        elif first[0] == "ok" and first[1] != second_blocks:
            res["life_diff"] = "the second write of the same mesh lists other blocks (counts/gradings) than the first"
    if res["outcome"] == "ok":
        res["counts"] = [[ax.count for ax in b.axes] for b in mesh.block_list.blocks]
        res["wire_counts"] = [[w.grading.count for ax in b.axes for w in ax.wires.wires] for b in mesh.block_list.blocks]
        res["wire_specs"] = [[[list(s) for s in w.grading.specification] for ax in b.axes for w in ax.wires.wires]
                             for b in mesh.block_list.blocks]
        res["wire_lengths"] = [[w.length for ax in b.axes for w in ax.wires.wires] for b in mesh.block_list.blocks]
        with open(path) as f:
            res["file"] = f.read()
        res["parsed"] = parse_blocks(res["file"])
    # resolved totals of the user chops (axis-level grading of chopped axes)
    tot = {}
    for bi, b in enumerate(mesh.block_list.blocks):
        for ai, ax in enumerate(b.axes):
            if len(ax.wires.chops) > 0 and type(ax.wires).__name__ == "WireChopManager":
                try:
                    tot[(bi, ai)] = [int(c.results["count"]) if c.results else None for c in ax.wires.chops]
                except Exception:
                    tot[(bi, ai)] = None
    res["chop_counts"] = tot
    if os.path.exists(path):
        os.remove(path)
    return res


def chop_counts_static(asm):
    """Counts of user chops per (insertion position, axis) resolved without the mesh: count-only chops."""
    out = {}
    for pos, ci in enumerate(asm.order):
        for a in range(3):
            chs = asm.chops.get((ci, a))
            if chs:
                out[(pos, a)] = [int(c["count"]) if "count" in c else None for c in chs]
    return out


def sections_may_disagree(asm):
    """some family holds two chopped axes whose chop lists are not the same one-section list"""
    for fam in families(asm):
        chopped = [asm.chops[x] for x in fam if x in asm.chops]
        if len(chopped) >= 2 and any(len(c) > 1 for c in chopped):
            return True
    return False


def life_oracle(res):
    """None or the reason: a repeated write must end like the first"""
    return res.get("life_diff")


def direct_oracle(asm, res):
    """C01/C02 stated on the implementation's observable output. Returns None or a reason string."""
    if res.get("life_diff"):
        return res["life_diff"]
    # block index = insertion position
    pos_of = {ci: p for p, ci in enumerate(asm.order)}
    stat = chop_counts_static(asm)
    totals = {}
    for (p, a), cs in stat.items():
        if any(c is None for c in cs):
            cs = res["chop_counts"].get((p, a))
            if cs is None or any(c is None for c in cs):
                return None  # counts not resolvable independently: oracle does not apply
        totals[(asm.order[p], a)] = sum(cs)
    exp, counts = expected_outcome(asm, totals)
    out = res["outcome"]
    if out == "nofuel":
        return "propagation does not terminate (copy step called %d times)" % res["copy_calls"]
    if out.startswith("error:"):
        return "unexpected exception %s: %s" % (out, res.get("message"))
    if exp == "undefined":
        return None if out == "undefined" else "a family has no chop but outcome is %s" % out
    if exp == "inconsistent":
        return None if out in ("inconsistent",) else "conflicting chops in a family but outcome is %s" % out
    if out == "inconsistent" and sections_may_disagree(asm):
        # equal totals, but a family holds chops with different section lists: since the repair of the C04 defect the
        # consistency check also compares the section lists on shared edges; C01/C02 do not decide that case (C04 does)
        return None
    if out != "ok":
        return "every family has agreeing chops but outcome is %s" % out
    # counts
    for ci in range(len(asm.cells)):
        for a in range(3):
            got = res["counts"][pos_of[ci]][a]
            if got != counts[(ci, a)]:
                return "block %d axis %d written with count %d, family chop gives %d" % (pos_of[ci], a, got, counts[(ci, a)])
    # shared edges in the written file
    parsed = res["parsed"]
    if len(parsed) != len(asm.cells):
        return "file has %d hex entries for %d blocks" % (len(parsed), len(asm.cells))
    edge_count = {}
    for (vs, n3, _k, _g) in parsed:
        for a in range(3):
            for (c1, c2) in AXIS_PAIRS_REF[a]:
                e = frozenset((vs[c1], vs[c2]))
                if len(e) == 2:
                    if e in edge_count and edge_count[e] != n3[a]:
                        return "edge %s carries %d and %d cells" % (sorted(e), edge_count[e], n3[a])
                    edge_count[e] = n3[a]
    for bi, wc in enumerate(res["wire_counts"]):
        for a in range(3):
            if any(wc[4 * a + k] != res["counts"][bi][a] for k in range(4)):
                return "block %d axis %d: wire counts %r differ from written %d" % (bi, a, wc[4 * a:4 * a + 4], res["counts"][bi][a])
    return None


# ---- Coq literals ------------------------------------------------------------------------------

def nl(l):
    return "[" + "; ".join(str(int(x)) for x in l) + "]"


def coq_blocks(res, asm, chop_counts):
    """bs literal in block (insertion) order; chop_counts: dict (pos, axis) -> list of counts"""
    items = []
    for p, vs in enumerate(res["verts"]):
        ch = [nl(chop_counts.get((p, a), [])) for a in range(3)]
        items.append("{| verts := %s; uchops := [%s] |}" % (nl(vs), "; ".join(ch)))
    return "[" + ";\n    ".join(items) + "]"


def coq_orders(res):
    co = "[" + "; ".join("((%d, %d, %d), [%s])" % (b, a, k, "; ".join("(%d, %d, %d)" % t for t in l))
                         for (b, a, k), l in sorted(res["co"].items()) if l) + "]"
    nb = "[" + "; ".join("((%d, %d), [%s])" % (b, a, "; ".join("(%d, %d)" % t for t in l))
                         for (b, a), l in sorted(res["nb"].items()) if l) + "]"
    return co, nb


def coq_expected(res):
    o = res["outcome"]
    if o == "ok":
        return "EOk [%s] [%s]" % ("; ".join(nl(c) for c in res["counts"]), "; ".join(nl(c) for c in res["wire_counts"]))
    return {"undefined": "EUndefined", "inconsistent": "EInconsistent", "nofuel": "ENoFuel"}.get(o, "EOther")


PREBUILT = ["Base/Hex.v", "Model/Propagate.v", "Model/PropagateCases.v", "Proofs/PropagateBasics.v", "Proofs/PropagateTerm.v",
            "Proofs/PropagateInv.v", "Proofs/PropagateInit.v", "Proofs/PropagateShort.v", "Proofs/PropagateFinal.v"]

CASE_HEADER = """From Coq Require Import List Bool Arith.
From CB Require Import Model.Propagate Model.PropagateCases.
Import ListNotations.
"""
