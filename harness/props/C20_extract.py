"""C20 - guard extractor: `if <cond>: raise ...` statements of one function -> Gallina boolean.

Fragment: comparisons (also chained), `abs`, `and`/`or`/`not`, numeric constants, tuple constants
compared with a shape, names bound by a simple assignment earlier in the same function (inlined),
and *atoms*: sub-expressions whose source text matches one of the regular expressions given for the
guard; an atom becomes a variable of the guard.  Everything else is `Unsupported`; the caller then
falls back to the reference guard and relies on the behavioural probes.
"""
import ast
import inspect
import re
import textwrap
from fractions import Fraction


class Unsupported(Exception):
    pass


class G(str):
    """gallina text carrying the equivalent python expression in .py"""
    def __new__(cls, gal, py):
        o = str.__new__(cls, gal)
        o.py = py
        return o


class Extractor:
    def __init__(self, func, typ, atoms, consts):
        """typ: 'Q' or 'Z' (type of the numeric variables); atoms: list of (var, regex, kind) with kind in
        {'num', 'bool', 'shape'}; consts: {source text: Gallina constant name}"""
        self.typ = typ
        self.atoms = [(v, re.compile(r), k) for (v, r, k) in atoms]
        self.consts = consts
        src = textwrap.dedent(inspect.getsource(func))
        tree = ast.parse(src)
        self.fn = tree.body[0]
        if not isinstance(self.fn, (ast.FunctionDef,)):
            raise Unsupported("not a function")
        self.used = set()

    # ---- expressions -------------------------------------------------------------------------
    def lit(self, v):
        if isinstance(v, bool):
            raise Unsupported("bool literal")
        if self.typ == "Z":
            if isinstance(v, int):
                return G("(%d)%%Z" % v, "(%d)" % v)
            raise Unsupported("non-integer literal in an integer guard")
        fr = Fraction(v)
        return G("((%d) # %d)%%Q" % (fr.numerator, fr.denominator), "Fraction(%d, %d)" % (fr.numerator, fr.denominator))

    def atom(self, node):
        txt = ast.unparse(node)
        for (v, rx, k) in self.atoms:
            if rx.fullmatch(txt):
                self.used.add(v)
                return G(v, "v[%r]" % v), k
        return None

    def assigned(self, name, before_line):
        """last simple assignment `name = expr` (anywhere in the function) before the given line"""
        found = None
        best = -1
        for st in ast.walk(self.fn):
            if not hasattr(st, "lineno") or st.lineno >= before_line or st.lineno <= best:
                continue
            if isinstance(st, ast.Assign) and len(st.targets) == 1 and isinstance(st.targets[0], ast.Name) \
                    and st.targets[0].id == name:
                found, best = st.value, st.lineno
            elif isinstance(st, ast.AnnAssign) and isinstance(st.target, ast.Name) and st.target.id == name and st.value:
                found, best = st.value, st.lineno
        return found

    def term(self, node, line, depth=0):
        """numeric term -> (gallina, kind)"""
        if depth > 6:
            raise Unsupported("inlining too deep")
        a = self.atom(node)
        if a:
            return a
        txt = ast.unparse(node)
        if txt in self.consts:
            return G(self.consts[txt], "v[%r]" % self.consts[txt]), "num"
        if isinstance(node, ast.Constant) and isinstance(node.value, (int, float)):
            return self.lit(node.value), "num"
        if isinstance(node, ast.UnaryOp) and isinstance(node.op, ast.USub):
            t, k = self.term(node.operand, line, depth + 1)
            if k != "num":
                raise Unsupported("negated non-number")
            return G("(- %s)" % t, "(- %s)" % t.py), "num"
        if isinstance(node, ast.BinOp) and isinstance(node.op, (ast.Sub, ast.Add)):
            l, kl = self.term(node.left, line, depth + 1)
            r, kr = self.term(node.right, line, depth + 1)
            if kl != "num" or kr != "num":
                raise Unsupported("arithmetic on non-numbers")
            op = "-" if isinstance(node.op, ast.Sub) else "+"
            return G("(%s %s %s)" % (l, op, r), "(%s %s %s)" % (l.py, op, r.py)), "num"
        if isinstance(node, ast.Call) and isinstance(node.func, ast.Name) and node.func.id == "abs" and len(node.args) == 1:
            t, k = self.term(node.args[0], line, depth + 1)
            if k != "num":
                raise Unsupported("abs of non-number")
            return G("(%s %s)" % ("Qabs" if self.typ == "Q" else "Z.abs", t), "abs(%s)" % t.py), "num"
        if isinstance(node, ast.Tuple) and all(isinstance(e, ast.Constant) and isinstance(e.value, int) for e in node.elts):
            return G("[" + "; ".join("(%d)%%Z" % e.value for e in node.elts) + "]", repr([e.value for e in node.elts])), "shape"
        if isinstance(node, ast.Name):
            val = self.assigned(node.id, line)
            if val is not None:
                return self.term(val, line, depth + 1)
        raise Unsupported("term outside the fragment: %s" % txt[:60])

    def cmp(self, op, l, kl, r, kr):
        if kl == "shape" or kr == "shape":
            if kl != kr:
                raise Unsupported("shape compared with a number")
            if isinstance(op, ast.Eq):
                return G("(zlist_eqb %s %s)" % (l, r), "(list(%s) == list(%s))" % (l.py, r.py))
            if isinstance(op, ast.NotEq):
                return G("(negb (zlist_eqb %s %s))" % (l, r), "(list(%s) != list(%s))" % (l.py, r.py))
            raise Unsupported("ordering of shapes")
        if kl != "num" or kr != "num":
            raise Unsupported("comparison of non-numbers")
        le, eq = ("Qle_bool", "Qeq_bool") if self.typ == "Q" else ("Z.leb", "Z.eqb")
        if isinstance(op, ast.LtE):
            return G("(%s %s %s)" % (le, l, r), "(%s <= %s)" % (l.py, r.py))
        if isinstance(op, ast.GtE):
            return G("(%s %s %s)" % (le, r, l), "(%s >= %s)" % (l.py, r.py))
        if isinstance(op, ast.Lt):
            return G("(negb (%s %s %s))" % (le, r, l), "(%s < %s)" % (l.py, r.py))
        if isinstance(op, ast.Gt):
            return G("(negb (%s %s %s))" % (le, l, r), "(%s > %s)" % (l.py, r.py))
        if isinstance(op, ast.Eq):
            return G("(%s %s %s)" % (eq, l, r), "(%s == %s)" % (l.py, r.py))
        if isinstance(op, ast.NotEq):
            return G("(negb (%s %s %s))" % (eq, l, r), "(%s != %s)" % (l.py, r.py))
        raise Unsupported("comparison operator")

    def cond(self, node, line):
        a = self.atom(node)
        if a:
            if a[1] != "bool":
                raise Unsupported("number used as a condition")
            return a[0]
        if isinstance(node, ast.UnaryOp) and isinstance(node.op, ast.Not):
            c = self.cond(node.operand, line)
            return G("(negb %s)" % c, "(not %s)" % c.py)
        if isinstance(node, ast.BoolOp):
            parts = [self.cond(v, line) for v in node.values]
            op = " && " if isinstance(node.op, ast.And) else " || "
            pop = " and " if isinstance(node.op, ast.And) else " or "
            return G("(" + op.join(parts) + ")", "(" + pop.join(x.py for x in parts) + ")")
        if isinstance(node, ast.Compare):
            terms = [self.term(x, line) for x in [node.left] + list(node.comparators)]
            parts = []
            for i, op in enumerate(node.ops):
                (l, kl), (r, kr) = terms[i], terms[i + 1]
                parts.append(self.cmp(op, l, kl, r, kr))
            return parts[0] if len(parts) == 1 else G("(" + " && ".join(parts) + ")", "(" + " and ".join(x.py for x in parts) + ")")
        if isinstance(node, ast.Name):
            val = self.assigned(node.id, line)
            if val is not None:
                return self.cond(val, line)
        raise Unsupported("condition outside the fragment: %s" % ast.unparse(node)[:60])

    # ---- statements --------------------------------------------------------------------------
    def raises(self, body, path):
        """yield (path conditions [list of (node, negated)], cond node, line) for `if c: raise` reachable
        through plain if/else nesting"""
        for st in body:
            if isinstance(st, ast.If):
                direct = any(isinstance(x, ast.Raise) for x in st.body)
                if direct:
                    yield (path, st.test, st.lineno)
                else:
                    yield from self.raises(st.body, path + [(st.test, False)])
                if st.orelse:
                    yield from self.raises(st.orelse, path + [(st.test, True)])

    def extract(self):
        """Returns (gallina boolean or None, list of source texts used, notes)"""
        found = []
        notes = []
        for (path, test, line) in self.raises(self.fn.body, []):
            save = set(self.used)
            try:
                self.used = set()
                c = self.cond(test, line)
                own = set(self.used)
                pcs = []
                for (pn, neg) in path:
                    pc = self.cond(pn, line)
                    pcs.append(G("(negb %s)" % pc, "(not %s)" % pc.py) if neg else pc)
                if not own:
                    self.used = save
                    continue
                g = c if not pcs else G("(" + " && ".join(pcs + [c]) + ")", "(" + " and ".join(x.py for x in pcs + [c]) + ")")
                found.append((g, ast.unparse(test)))
                self.used = save | own | self.used
            except Unsupported as e:
                self.used = save
                notes.append("line %d: %s" % (line, e))
        if not found:
            return None, [], notes
        g = found[0][0] if len(found) == 1 else G("(" + " || ".join(x[0] for x in found) + ")", "(" + " or ".join(x[0].py for x in found) + ")")
        return g, [x[1] for x in found], notes
