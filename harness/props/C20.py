"""C20 - Construction and life-cycle preconditions are enforced symmetrically.

Ties:
 (AST) every explicit `if <cond>: raise` guard of the inventory is extracted from the working tree of
       /repo (props/C20_extract.py) into a Gallina boolean in coq/Gen/C20/Guards.v; Properties/C20.v
       proves `guard x = true <-> ~ spec x` for ALL rationals / integers x.  A guard that is no longer
       inside the extractor's fragment is replaced by the reference guard of Model/C20_Guards.v and is
       then tied by the probes only (reported in the evidence, never an alarm by itself).
 (F)   index / count guards (explicit or by lookup) are tabulated over their whole small domain into
       coq/Gen/C20/Tables.v and proved equal to the specification.
 (U)   probes: every guard is called on both sides of each boundary; accept/reject is compared with the
       Gen guard evaluated inside Coq (vm_compute over Q / Z) and with the direct oracle; histories for
       the mesh life cycle, clamps/links and projected-edge labels are compared with the state machines.
"""
import json
import math
import warnings
from fractions import Fraction

import core
from core import GenError, CorrResult, Prop
from props.C20_extract import Extractor, Unsupported

DELTAS = [1e-8, 2e-7, 1e-3, 0.5]
BOUNDARY = 1e-9


def _cb():
    import classy_blocks as cb  # noqa
    return cb


def exc_class(e):
    """creation / value / key_index / runtime / library / other"""
    from classy_blocks.base import exceptions as ex
    from classy_blocks.construct import shape as sh
    if isinstance(e, (ex.ShapeCreationError, sh.ShapeCreationError)):
        return "creation"
    if isinstance(e, ValueError):
        return "value"
    if isinstance(e, LookupError):
        return "key_index"
    if isinstance(e, RuntimeError):
        return "runtime"
    if type(e).__module__.startswith("classy_blocks"):
        return "library"
    return "other:" + type(e).__name__


def attempt(fn):
    """-> ('ok', None) or ('rejected', class)"""
    with warnings.catch_warnings():
        warnings.simplefilter("ignore")
        try:
            fn()
        except Exception as e:  # noqa
            return ("rejected", exc_class(e))
    return ("ok", None)


def F(x):
    return Fraction(float(x))


def fdot(a, b):
    return sum(F(x) * F(y) for x, y in zip(a, b))


def fsub(a, b):
    return [F(x) - F(y) for x, y in zip(a, b)]


def fcross(a, b):
    return [a[1] * b[2] - a[2] * b[1], a[2] * b[0] - a[0] * b[2], a[0] * b[1] - a[1] * b[0]]


def qlit(fr):
    fr = Fraction(fr)
    return "((%d) # %d)%%Q" % (fr.numerator, fr.denominator)


def zlit(i):
    return "(%d)%%Z" % int(i)


def blit(b):
    return "true" if b else "false"


def zlist(l):
    return "[" + "; ".join(zlit(i) for i in l) + "]"


# frames: (axis point 1, axis vector, radius vector exactly perpendicular to the axis, |radius vector|)
FRAMES = [
    ([0.0, 0.0, 0.0], [1.0, 0.0, 0.0], [0.0, 1.0, 0.0], 1.0),
    ([1.0, 2.0, 3.0], [0.0, 0.0, 2.0], [1.5, 0.0, 0.0], 1.5),
    ([0.5, -1.0, 2.0], [1.0, 2.0, 2.0], [2.0, -2.0, 1.0], 3.0),
    ([-1.0, 0.0, 1.0], [3.0, 0.0, 4.0], [2.0, 0.0, -1.5], 2.5),
]


def lean(frame, d):
    """radius point whose radius vector has (nearly exactly) dot product d with the axis"""
    a1, ax, r0, _R = frame
    n2 = sum(x * x for x in ax)
    e = d / n2
    return [a1[i] + r0[i] + e * ax[i] for i in range(3)]


def frame_args(frame, d):
    a1, ax, r0, R = frame
    a2 = [a1[i] + ax[i] for i in range(3)]
    rp = lean(frame, d)
    exact = fdot(fsub(a2, a1), fsub(rp, a1))
    return a1, a2, rp, exact


def signed_deltas(rng, extra):
    out = []
    for d in DELTAS:
        out += [d, -d]
    out.append(0.0)
    for _ in range(extra):
        m = 10 ** rng.uniform(-9, 0)
        out.append(m if rng.random() < 0.5 else -m)
    return out


TOLF = None


def tol():
    global TOLF
    if TOLF is None:
        from classy_blocks.util import constants
        TOLF = float(constants.TOL)
    return TOLF


def near(x, b):
    return abs(float(x) - float(b)) < BOUNDARY


# ================================================================================================
# the inventory.  Every guard: name, how to call the implementation on a probe, the exact scalars the
# guard sees (for the Coq side), the Gallina expression of the whole call's rejection in terms of the
# Gen guards, the direct oracle and (when explicit in the source) what to extract.

class Guard:
    name = ""
    typ = "Q"            # type of the numeric variables of the extracted guard
    params = []          # [(var, coq type)]
    atoms = []           # [(var, regex on source text, kind)]
    ref = ""             # reference guard (Gallina, in terms of the variables), fall-back
    anchor = ""          # where in /repo

    def func(self):      # python function holding the explicit guard, or None
        return None

    def probes(self, rng, extra):
        return []

    def run(self, p):    # -> ('ok', None) | ('rejected', class)
        raise NotImplementedError

    def model(self, p):  # Gallina boolean: the call is rejected
        raise NotImplementedError

    def oracle(self, p):  # 'reject' | 'accept' | 'either'
        raise NotImplementedError

    def boundary(self, p):
        return False

    def scalars(self, p):     # the values of the guard's variables on this probe (exact)
        return {}

    def extra_reject(self, p):  # other documented reasons why the whole call is rejected
        return False


class PerpGuard(Guard):
    typ = "Q"
    params = [("d", "Q")]
    atoms = [("d", r"np\.dot\(.*\)", "num")]
    ref = "ref_perp TOL d"

    def probes(self, rng, extra):
        return [dict(frame=i, d=d) for i in range(len(FRAMES)) for d in signed_deltas(rng, extra)]

    def exact(self, p):
        return frame_args(FRAMES[p["frame"]], p["d"])[3]

    def scalars(self, p):
        return {"d": self.exact(p), "check": p.get("check", True)}

    def model(self, p):
        return "g_%s %s" % (self.name, qlit(self.exact(p)))

    def oracle(self, p):
        d = abs(self.exact(p))
        if near(d, tol()):
            return "either"
        return "reject" if d > F(tol()) else "accept"

    def boundary(self, p):
        return near(abs(self.exact(p)), tol())


class SemiCylinderPerp(PerpGuard):
    name = "semicylinder_perp"
    anchor = "construct/shapes/cylinder.py SemiCylinder.__init__ (also Cylinder)"
    classes = ("SemiCylinder", "Cylinder")

    def func(self):
        return _cb().SemiCylinder.__init__

    def probes(self, rng, extra):
        return [dict(p, cls=c) for p in PerpGuard.probes(self, rng, extra) for c in self.classes]

    def run(self, p):
        a1, a2, rp, _ = frame_args(FRAMES[p["frame"]], p["d"])
        return attempt(lambda: getattr(_cb(), p["cls"])(a1, a2, rp))


class FrustumPerp(PerpGuard):
    name = "frustum_perp"
    anchor = "construct/shapes/frustum.py Frustum.__init__"

    def func(self):
        return _cb().Frustum.__init__

    def run(self, p):
        a1, a2, rp, _ = frame_args(FRAMES[p["frame"]], p["d"])
        return attempt(lambda: _cb().Frustum(a1, a2, rp, 0.7 * FRAMES[p["frame"]][3]))


class AnnulusPerp(PerpGuard):
    name = "annulus_perp"
    anchor = "construct/flat/sketches/annulus.py Annulus.__init__ (through ExtrudedRing)"

    def func(self):
        from classy_blocks.construct.flat.sketches.annulus import Annulus
        return Annulus.__init__

    AXN = [1, 2, 3, 5]   # |axis| of the frames: the guard sees the unit normal

    def args(self, p):
        return frame_args(FRAMES[p["frame"]], p["d"] * self.AXN[p["frame"]])

    def exact(self, p):
        return self.args(p)[3] / self.AXN[p["frame"]]

    def run(self, p):
        a1, a2, rp, _ = self.args(p)
        return attempt(lambda: _cb().ExtrudedRing(a1, a2, rp, 0.4 * FRAMES[p["frame"]][3]))


QUADS = [
    ([0.0, 0.0, 0.0], [1.0, 0.0, 0.0], [1.0, 1.0, 0.0], [0.0, 1.0, 0.0], [0.0, 0.0, 1.0]),
    ([1.0, 2.0, 3.0], [3.0, 2.0, 3.0], [3.0, 2.0, 5.0], [1.0, 2.0, 5.0], [0.0, -0.25, 0.0]),
]


class FaceCoplanar(PerpGuard):
    name = "face_coplanar"
    anchor = "construct/flat/face.py Face.__init__ (check_coplanar)"
    atoms = [("d", r"np\.dot\(.*\)", "num"), ("check", r"check_coplanar", "bool")]
    params = [("check", "bool"), ("d", "Q")]
    ref = "check && ref_perp TOL d"

    def func(self):
        return _cb().Face.__init__

    def points(self, p):
        p0, p1, p2, p3, n = QUADS[p["frame"] % len(QUADS)]
        # lift corner 2 along n so that the triple product is (close to) d
        base = fdot(fsub(p1, p0), fcross(fsub(p3, p0), fsub(n, [0, 0, 0])))
        h = p["d"] / float(base)
        return [p0, p1, [p2[i] + h * n[i] for i in range(3)], p3]

    def exact(self, p):
        q = self.points(p)
        return fdot(fsub(q[1], q[0]), fcross(fsub(q[3], q[0]), fsub(q[2], q[0])))

    def probes(self, rng, extra):
        return [dict(frame=i, d=d, check=c) for i in range(len(QUADS)) for d in signed_deltas(rng, extra)
                for c in (True, False)]

    def run(self, p):
        return attempt(lambda: _cb().Face(self.points(p), check_coplanar=p["check"]))

    def model(self, p):
        return "g_%s %s %s" % (self.name, blit(p["check"]), qlit(self.exact(p)))

    def oracle(self, p):
        if not p["check"]:
            return "accept"
        return PerpGuard.oracle(self, p)


class LengthRatio(Guard):
    name = "length_ratio"
    typ = "Q"
    params = [("r", "Q")]
    atoms = [("r", r"chop\.length_ratio", "num")]
    ref = "ref_length_ratio r"
    anchor = "grading/grading.py Grading.add_chop"

    def func(self):
        from classy_blocks.grading.grading import Grading
        return Grading.add_chop

    def probes(self, rng, extra):
        vals = [0.0, 1.0, 0.25, 0.5]
        for d in DELTAS:
            vals += [d, -d, 1 - d, 1 + d]
        vals += [rng.uniform(-1, 2) for _ in range(extra)]
        return [dict(r=v, via=via) for v in vals for via in ("grading", "mesh")]

    def run(self, p):
        from classy_blocks.grading.grading import Grading
        from classy_blocks.grading.chop import Chop
        if p["via"] == "grading":
            return attempt(lambda: Grading(1.0).add_chop(Chop(length_ratio=p["r"], count=5)))

        def mesh():
            cb = _cb()
            m = cb.Mesh()
            b = cb.Box([0, 0, 0], [1, 1, 1])
            for a in range(3):
                b.chop(a, count=3, length_ratio=p["r"] if a == 0 else 1.0)
            m.add(b)
            m.assemble()
            m.grade()
        return attempt(mesh)

    def model(self, p):
        return "g_length_ratio %s" % qlit(F(p["r"]))

    def scalars(self, p):
        return {"r": F(p["r"])}

    def oracle(self, p):
        return "accept" if 0 < p["r"] <= 1 else "reject"


RINGS = [FRAMES[0], FRAMES[2], FRAMES[3]]


class AnnulusRadii(Guard):
    name = "annulus_radii"
    typ = "Q"
    params = [("inner", "Q"), ("outer", "Q")]
    atoms = [("inner", r"self\.inner_radius", "num"), ("outer", r"self\.outer_radius", "num")]
    ref = "ref_annulus_radii TOL inner outer"
    anchor = "construct/flat/sketches/annulus.py Annulus.__init__ (through ExtrudedRing)"

    def func(self):
        from classy_blocks.construct.flat.sketches.annulus import Annulus
        return Annulus.__init__

    def probes(self, rng, extra):
        ds = signed_deltas(rng, extra)
        return [dict(frame=i, d=d, n=n) for i in range(len(RINGS)) for d in ds for n in ((8,) if abs(d) != 0 else (8, 4, 12))]

    def radii(self, p):
        R = RINGS[p["frame"]][3]
        inner = R - p["d"]
        return inner, R

    def run(self, p):
        a1, ax, r0, R = RINGS[p["frame"]]
        a2 = [a1[i] + ax[i] for i in range(3)]
        rp = [a1[i] + r0[i] for i in range(3)]
        inner, _ = self.radii(p)
        return attempt(lambda: _cb().ExtrudedRing(a1, a2, rp, inner, n_segments=p["n"]))

    def gap(self, p):
        inner, R = self.radii(p)
        return F(R) - F(inner)

    def scalars(self, p):
        inner, R = self.radii(p)
        return {"inner": F(inner), "outer": F(R)}

    def model(self, p):
        inner, R = self.radii(p)
        return "g_annulus_radii %s %s" % (qlit(F(inner)), qlit(F(R)))

    def boundary(self, p):
        return near(self.gap(p), tol())

    def oracle(self, p):
        g = self.gap(p)
        inner, _ = self.radii(p)
        if g <= 0:
            return "reject"          # inner radius not below outer
        if g >= 2 * F(tol()) and inner > 1e-3:
            return "accept"
        return "either"


class ChainLength(Guard):
    typ = "Q"
    params = [("l", "Q")]
    atoms = [("l", r"length", "num")]
    ref = "ref_chain_length l"
    cls = ""

    def source(self, i):
        cb = _cb()
        a1, ax, r0, R = FRAMES[i]
        a2 = [a1[k] + ax[k] for k in range(3)]
        rp = [a1[k] + r0[k] for k in range(3)]
        if self.cls == "ExtrudedRing":
            return cb.ExtrudedRing(a1, a2, rp, 0.5 * R)
        return cb.Cylinder(a1, a2, rp)

    def func(self):
        return getattr(_cb(), self.cls).chain.__func__

    def probes(self, rng, extra):
        ls = [x for x in signed_deltas(rng, extra) if x != 0.0]
        return [dict(frame=i, l=l, start=s) for i in (0, 2) for l in ls for s in (False, True)]

    def run(self, p):
        cb = _cb()

        def go():
            src = self.source(p["frame"])
            if self.cls == "Frustum":
                cb.Frustum.chain(src, p["l"], 0.3, start_face=p["start"])
            else:
                getattr(cb, self.cls).chain(src, p["l"], start_face=p["start"])
        return attempt(go)

    def model(self, p):
        return "g_%s %s" % (self.name, qlit(F(p["l"])))

    def scalars(self, p):
        return {"l": F(p["l"])}

    def boundary(self, p):
        return 0 <= p["l"] < 1e-6     # a nearly zero axis fails other checks (normal not defined)

    def oracle(self, p):
        if self.boundary(p):
            return "either"
        return "reject" if p["l"] < 0 else "accept"


class CylinderChain(ChainLength):
    name = "cylinder_chain"
    cls = "Cylinder"
    anchor = "construct/shapes/cylinder.py Cylinder.chain"


class FrustumChain(ChainLength):
    name = "frustum_chain"
    cls = "Frustum"
    anchor = "construct/shapes/frustum.py Frustum.chain"


class RingChain(ChainLength):
    name = "ring_chain"
    cls = "ExtrudedRing"
    anchor = "construct/shapes/rings.py ExtrudedRing.chain"


class Contract(Guard):
    name = "ring_contract"
    typ = "Q"
    params = [("inner", "Q"), ("src", "Q")]
    atoms = [("inner", r"inner_radius", "num"), ("src", r"sketch_1\.inner_radius", "num")]
    ref = "ref_contract inner src"
    anchor = "construct/shapes/rings.py ExtrudedRing.contract"
    SRC = 0.5

    def func(self):
        return _cb().ExtrudedRing.contract.__func__

    def probes(self, rng, extra):
        vals = [0.0, 0.25, self.SRC, 0.9, -0.5]
        for d in DELTAS[:3]:
            vals += [d, -d, self.SRC - d, self.SRC + d]
        vals += [rng.uniform(-0.2, 0.8) for _ in range(extra)]
        return [dict(inner=v) for v in vals]

    def run(self, p):
        cb = _cb()

        def go():
            src = cb.ExtrudedRing([0, 0, 0], [1, 0, 0], [0, 1, 0], self.SRC)
            cb.ExtrudedRing.contract(src, p["inner"])
        return attempt(go)

    def model(self, p):
        i, s = qlit(F(p["inner"])), qlit(F(self.SRC))
        return "g_ring_contract %s %s || g_annulus_radii %s %s" % (i, s, i, s)

    def scalars(self, p):
        return {"inner": F(p["inner"]), "src": F(self.SRC)}

    def extra_reject(self, p):
        return F(self.SRC) - F(p["inner"]) < F(tol())

    def boundary(self, p):
        return near(p["inner"], self.SRC) or near(p["inner"], self.SRC - tol()) or near(p["inner"], 0)

    def oracle(self, p):
        i = p["inner"]
        if i <= 0 or i >= self.SRC:
            return "reject"
        if 1e-3 <= i <= self.SRC - 2 * tol():
            return "accept"
        return "either"


# ---- integer guards (indices, counts): probed on a whole small range -----------------------------
QUAD = [[0, 0, 0], [1, 0, 0], [1, 1, 0], [0, 1, 0]]


def new_face():
    return _cb().Face(QUAD)


def new_loft():
    cb = _cb()
    return cb.Loft(cb.Face(QUAD), cb.Face(QUAD).translate([0, 0, 1]))


def arc():
    from classy_blocks.construct.edges import Arc
    return Arc([0.5, -0.2, 0.3])


class IntGuard(Guard):
    typ = "Z"
    params = [("c", "Z")]
    lo, hi = -6, 9           # probed range
    ok_lo, ok_hi = 0, 3      # accepted range of the specification

    def probes(self, rng, extra):
        return [dict(c=c) for c in range(self.lo, self.hi + 1)]

    def model(self, p):
        return "g_%s %s" % (self.name, zlit(p["c"]))

    def scalars(self, p):
        return {"c": p.get("c"), "a": p.get("a"), "b": p.get("b"), "given": True}

    def oracle(self, p):
        return "accept" if self.ok_lo <= p["c"] <= self.ok_hi else "reject"


class FaceAddEdge(IntGuard):
    name = "face_add_edge"
    atoms = [("c", r"corner", "num")]
    ref = "ref_corner4 c"
    anchor = "construct/flat/face.py Face.add_edge"

    def func(self):
        return _cb().Face.add_edge

    def run(self, p):
        return attempt(lambda: new_face().add_edge(p["c"], arc()))


class AddSideEdge(IntGuard):
    name = "add_side_edge"
    atoms = [("c", r"corner_idx", "num")]
    ref = "ref_corner4 c"
    anchor = "construct/operations/operation.py Operation.add_side_edge"

    def func(self):
        return _cb().Loft.add_side_edge

    def run(self, p):
        return attempt(lambda: new_loft().add_side_edge(p["c"], arc()))


class ProjectCorner(IntGuard):
    name = "project_corner"
    atoms = [("c", r"corner", "num")]
    ref = "ref_corner8 c"
    lo, hi = -10, 12
    ok_lo, ok_hi = 0, 7
    anchor = "construct/operations/operation.py Operation.project_corner"

    def func(self):
        return _cb().Loft.project_corner

    def run(self, p):
        return attempt(lambda: new_loft().project_corner(p["c"], "geo"))


def hex_edge(a, b):
    xyz = [(0, 0, 0), (1, 0, 0), (1, 1, 0), (0, 1, 0), (0, 0, 1), (1, 0, 1), (1, 1, 1), (0, 1, 1)]
    return 0 <= a < 8 and 0 <= b < 8 and sum(1 for k in range(3) if xyz[a][k] != xyz[b][k]) == 1


class PairGuard(IntGuard):
    params = [("a", "Z"), ("b", "Z")]
    lo, hi = -9, 9

    def probes(self, rng, extra):
        return [dict(a=a, b=b) for a in range(self.lo, self.hi + 1) for b in range(self.lo, self.hi + 1)]

    def model(self, p):
        return "g_%s %s %s || negb (hex_edge_z %s %s)" % (self.name, zlit(p["a"]), zlit(p["b"]), zlit(p["a"]), zlit(p["b"]))

    def extra_reject(self, p):
        return not hex_edge(p["a"], p["b"])

    def oracle(self, p):
        return "accept" if hex_edge(p["a"], p["b"]) else "reject"


class ProjectEdge(PairGuard):
    name = "project_edge"
    atoms = [("a", r"corner_1", "num"), ("b", r"corner_2", "num")]
    ref = "ref_corner_pair8 a b"
    anchor = "construct/operations/operation.py Operation.project_edge"

    def func(self):
        return _cb().Loft.project_edge

    def run(self, p):
        return attempt(lambda: new_loft().project_edge(p["a"], p["b"], "geo"))


class BlockAddEdge(PairGuard):
    name = "block_add_edge"
    atoms = [("a", r"corner_1", "num"), ("b", r"corner_2", "num")]
    ref = "ref_corner_pair8 a b"
    anchor = "items/block.py Block.add_edge"

    def func(self):
        from classy_blocks.items.block import Block
        return Block.add_edge

    def run(self, p):
        from classy_blocks.items.block import Block
        from classy_blocks.items.vertex import Vertex
        return attempt(lambda: Block(0, [Vertex([i, 0.1 * i * i, 0.3 * i], i) for i in range(8)]).add_edge(p["a"], p["b"], None))


class FrameAddBeam(PairGuard):
    """guard by set membership: outside the fragment on purpose, tabulated only"""
    name = "frame_add_beam"
    lo, hi = -2, 9
    ref = "false"
    anchor = "util/frame.py Frame.add_beam"

    def run(self, p):
        from classy_blocks.util.frame import Frame
        return attempt(lambda: Frame().add_beam(p["a"], p["b"], 1))

    def model(self, p):
        return "negb (hex_edge_z %s %s)" % (zlit(p["a"]), zlit(p["b"]))


class OpChop(IntGuard):
    """guard by dictionary lookup: tabulated only"""
    name = "operation_chop"
    lo, hi = -3, 5
    ok_lo, ok_hi = 0, 2
    ref = "false"
    anchor = "construct/operations/operation.py Operation.chop"

    def run(self, p):
        return attempt(lambda: new_loft().chop(p["c"], count=3))

    def model(self, p):
        return "negb (in_range 0 2 %s)" % zlit(p["c"])


class ShapeChop(OpChop):
    name = "shape_chop"
    anchor = "construct/shape.py LoftedShape.chop"

    def run(self, p):
        return attempt(lambda: _cb().Cylinder([0, 0, 0], [1, 0, 0], [0, 1, 0]).chop(p["c"], count=3))


class LabelCount(IntGuard):
    name = "label_count"
    atoms = [("c", r"len\(self\.label\)", "num")]
    ref = "ref_label_count c"
    lo, hi = 0, 5
    ok_lo, ok_hi = 1, 2
    anchor = "construct/edges.py Project.check_length"

    def func(self):
        from classy_blocks.construct.edges import Project
        return Project.check_length

    def run(self, p):
        from classy_blocks.construct.edges import Project
        return attempt(lambda: Project(["s%d" % i for i in range(p["c"])]))


class FaceEdges(IntGuard):
    name = "face_edges"
    params = [("given", "bool"), ("c", "Z")]
    atoms = [("c", r"len\(edges\)", "num"), ("given", r"edges is not None", "bool")]
    ref = "ref_edges_given given c"
    lo, hi = 0, 7
    ok_lo, ok_hi = 4, 4
    anchor = "construct/flat/face.py Face.__init__ (edges)"

    def func(self):
        return _cb().Face.__init__

    def run(self, p):
        return attempt(lambda: _cb().Face(QUAD, [None] * p["c"]))

    def model(self, p):
        return "g_face_edges true %s" % zlit(p["c"])


class SideVertices(IntGuard):
    name = "side_vertices"
    atoms = [("c", r"len\(vertices\)", "num")]
    ref = "ref_count_is 8 c"
    lo, hi = 5, 11
    ok_lo, ok_hi = 8, 8
    anchor = "items/side.py Side.__init__"

    def func(self):
        from classy_blocks.items.side import Side
        return Side.__init__

    def run(self, p):
        from classy_blocks.items.side import Side
        from classy_blocks.items.vertex import Vertex
        return attempt(lambda: Side("top", [Vertex([i, 0, 0], i) for i in range(p["c"])]))


class FromSeries(IntGuard):
    name = "from_series"
    atoms = [("c", r"len\(faces\)", "num")]
    ref = "ref_count_lt 2 c"
    lo, hi = 0, 5
    ok_lo, ok_hi = 2, 5
    anchor = "construct/operations/operation.py Operation.from_series"

    def func(self):
        return _cb().Loft.from_series.__func__

    def run(self, p):
        cb = _cb()
        return attempt(lambda: cb.Loft.from_series([cb.Face(QUAD).translate([0, 0, i]) for i in range(p["c"])]))


class FillSegments(IntGuard):
    name = "cylinder_fill"
    atoms = [("c", r"source\.sketch_1\.n_segments", "num")]
    ref = "ref_count_is 8 c"
    lo, hi = 3, 13
    ok_lo, ok_hi = 8, 8
    anchor = "construct/shapes/cylinder.py Cylinder.fill"

    def func(self):
        return _cb().Cylinder.fill.__func__

    def probes(self, rng, extra):
        return [dict(c=c) for c in (3, 4, 5, 6, 7, 8, 9, 10, 12, 13)]

    def run(self, p):
        cb = _cb()
        return attempt(lambda: cb.Cylinder.fill(cb.ExtrudedRing([0, 0, 0], [1, 0, 0], [0, 1, 0], 0.5, n_segments=p["c"])))


class FaceCounts(IntGuard):
    name = "face_counts"
    params = [("a", "Z"), ("b", "Z")]
    atoms = [("a", r"len\(sketch_1\.faces\)", "num"), ("b", r"len\(sketch_2\.faces\)", "num")]
    ref = "ref_counts_differ a b"
    anchor = "construct/shape.py LoftedShape.__init__"

    def func(self):
        from classy_blocks.construct.shape import LoftedShape
        return LoftedShape.__init__

    def probes(self, rng, extra):
        # grids n x 1 (so that the grid shapes agree whenever the counts do); mid: None or a count
        out = []
        for a in range(1, 5):
            for b in range(1, 5):
                out.append(dict(a=a, b=b, mid=None))
        for a in range(1, 4):
            for m in range(1, 4):
                out.append(dict(a=a, b=a, mid=m))
        # the optional argument may also be a LIST of mid sketches (every form of it is checked the same way)
        for a in range(1, 4):
            for m in range(1, 4):
                out.append(dict(a=a, b=a, mid=[m]))
                out.append(dict(a=a, b=a, mid=[a, m]))
                out.append(dict(a=a, b=a, mid=[m, a]))
        return out

    def run(self, p):
        from classy_blocks.construct.flat.sketches.grid import Grid
        from classy_blocks.construct.shape import LoftedShape

        class LS(LoftedShape):
            pass

        def g(n, z):
            return Grid([0, 0, z], [n, 1, z], n, 1)
        if isinstance(p["mid"], list):
            mid = [g(m, 0.25 + 0.5 * i / max(1, len(p["mid"]))) for i, m in enumerate(p["mid"])]
        else:
            mid = None if p["mid"] is None else g(p["mid"], 0.5)
        return attempt(lambda: LS(g(p["a"], 0), g(p["b"], 1), mid))

    @staticmethod
    def mids(p):
        return [] if p["mid"] is None else (p["mid"] if isinstance(p["mid"], list) else [p["mid"]])

    def model(self, p):
        s = "g_face_counts %s %s" % (zlit(p["a"]), zlit(p["b"]))
        for m in self.mids(p):
            s += " || ref_counts_differ %s %s" % (zlit(m), zlit(p["a"]))
        return s

    def extra_reject(self, p):
        return any(m != p["a"] for m in self.mids(p))

    def oracle(self, p):
        same = p["a"] == p["b"] and all(m == p["a"] for m in self.mids(p))
        return "accept" if same else "reject"


class ShapeGuard(Guard):
    """array shape checks: the variable is the numpy shape of the argument"""
    typ = "Z"
    params = [("s", "list Z")]

    def model(self, p):
        return "g_%s %s" % (self.name, zlist(p["shape"]))

    def scalars(self, p):
        return {"s": list(p["shape"])}

    def oracle(self, p):
        return "accept" if list(p["shape"]) == self.want else "reject"

    def data(self, shape):
        import numpy as np
        n = 1
        for k in shape:
            n *= k
        return (np.arange(n, dtype=float) * 0.37 + 0.1).reshape(shape).tolist() if shape else 0.5


class PointShape(ShapeGuard):
    name = "point_shape"
    atoms = [("s", r"np\.shape\(self\.position\)", "shape")]
    ref = "ref_shape_is [(3)%Z] s"
    want = [3]
    anchor = "construct/point.py Point.__init__"

    def func(self):
        from classy_blocks.construct.point import Point
        return Point.__init__

    def probes(self, rng, extra):
        return [dict(shape=s) for s in ([], [0], [1], [2], [3], [4], [5], [1, 3], [3, 1], [2, 3], [3, 3])]

    def run(self, p):
        from classy_blocks.construct.point import Point
        return attempt(lambda: Point(self.data(p["shape"])))


class FacePoints(ShapeGuard):
    name = "face_points"
    atoms = [("s", r"np\.shape\(points\)", "shape")]
    ref = "ref_shape_is [(4)%Z; (3)%Z] s"
    want = [4, 3]
    anchor = "construct/flat/face.py Face.__init__ (points)"

    def func(self):
        return _cb().Face.__init__

    def probes(self, rng, extra):
        return [dict(shape=[n, k]) for n in range(0, 7) for k in (2, 3, 4)] + [dict(shape=[4]), dict(shape=[12]), dict(shape=[4, 3, 1])]

    def run(self, p):
        return attempt(lambda: _cb().Face(self.data(p["shape"])))


class FlagGuard(Guard):
    typ = "Z"
    params = [("f", "bool")]

    def model(self, p):
        return "g_%s %s" % (self.name, blit(p["f"]))

    def scalars(self, p):
        return {"f": p["f"]}


class ElbowChain(FlagGuard):
    name = "elbow_chain"
    atoms = [("f", r"isinstance\(source\.sketch_1, Disk\)", "bool")]
    ref = "ref_flag_not f"
    anchor = "construct/shapes/elbow.py Elbow.chain"
    SRC = ["Cylinder", "Frustum", "Elbow", "SemiCylinder", "ExtrudedRing"]

    def func(self):
        return _cb().Elbow.chain.__func__

    def source(self, k):
        cb = _cb()
        if k == "Cylinder":
            return cb.Cylinder([0, 0, 0], [1, 0, 0], [0, 1, 0])
        if k == "SemiCylinder":
            return cb.SemiCylinder([0, 0, 0], [1, 0, 0], [0, 1, 0])
        if k == "Frustum":
            return cb.Frustum([0, 0, 0], [1, 0, 0], [0, 1, 0], 0.5)
        if k == "ExtrudedRing":
            return cb.ExtrudedRing([0, 0, 0], [1, 0, 0], [0, 1, 0], 0.5)
        return cb.Elbow([0, 0, 0], [0, 1, 0], [1, 0, 0], 1.0, [0, 3, 0], [0, 0, 1], 0.8)

    def probes(self, rng, extra):
        return [dict(src=k, start=s, f=k in ("Cylinder", "Frustum", "Elbow")) for k in self.SRC for s in (False, True)]

    def run(self, p):
        cb = _cb()
        return attempt(lambda: cb.Elbow.chain(self.source(p["src"]), 1.0, [0, 3, 0], [0, 0, 1], 0.8, start_face=p["start"]))

    def oracle(self, p):
        return "accept" if p["f"] else "reject"


class MeshFlag(FlagGuard):
    atoms = [("f", r"self\.is_assembled", "bool")]
    ref = "ref_flag_not f"
    method = ""

    def func(self):
        return getattr(_cb().Mesh, self.method)

    def probes(self, rng, extra):
        return [dict(f=False, ops=0), dict(f=False, ops=1), dict(f=True, ops=1), dict(f=True, ops=2)]

    def run(self, p):
        cb = _cb()
        m = cb.Mesh()
        for i in range(p["ops"]):
            b = cb.Box([i, 0, 0], [i + 1, 1, 1])
            for a in range(3):
                b.chop(a, count=2)
            m.add(b)
        if p["f"]:
            m.assemble()
        return attempt(getattr(m, self.method))

    def oracle(self, p):
        return "accept" if p["f"] else "reject"


class MeshGrade(MeshFlag):
    name = "mesh_grade"
    method = "grade"
    anchor = "mesh.py Mesh.grade"


class MeshBackport(MeshFlag):
    name = "mesh_backport"
    method = "backport"
    anchor = "mesh.py Mesh.backport"


class JunctionClamp(FlagGuard):
    name = "junction_add_clamp"
    atoms = [("f", r"self\.clamp is not None", "bool")]
    ref = "ref_flag f"
    anchor = "optimize/junction.py Junction.add_clamp"

    def func(self):
        from classy_blocks.optimize.junction import Junction
        return Junction.add_clamp

    def probes(self, rng, extra):
        return [dict(f=False), dict(f=True)]

    def run(self, p):
        import numpy as np
        from classy_blocks.optimize.junction import Junction
        from classy_blocks.optimize.clamps.free import FreeClamp
        j = Junction(np.array([[0.0, 0.0, 0.0], [1.0, 0.0, 0.0]]), 0)
        if p["f"]:
            j.add_clamp(FreeClamp([0, 0, 0]))
        return attempt(lambda: j.add_clamp(FreeClamp([0, 0, 0])))

    def oracle(self, p):
        return "reject" if p["f"] else "accept"


class ShellChop(FlagGuard):
    """Shell.chop refuses a store with a face that shares no point with another one"""
    name = "shell_chop"
    atoms = [("f", r"self\.aware_face_store\.is_disconnected", "bool")]
    ref = "ref_flag f"
    anchor = "construct/shapes/shell.py Shell.chop"
    # x-offsets of unit quads in the plane z = 0; quads at distance 1 share an edge
    SETS = [[0, 1], [0, 1, 2], [0, 3], [0], [0, 1, 5], [0, 1, 3, 4], [0, 2, 4]]

    def func(self):
        return _cb().Shell.chop

    def probes(self, rng, extra):
        out = []
        for xs in self.SETS:
            solitary = any(all(abs(x - y) != 1 for y in xs) for x in xs)
            out.append(dict(xs=xs, f=solitary))
        return out

    def run(self, p):
        cb = _cb()

        def go():
            faces = [cb.Face([[x, 0, 0], [x + 1, 0, 0], [x + 1, 1, 0], [x, 1, 0]]) for x in p["xs"]]
            cb.Shell(faces, 0.1).chop(count=3)
        return attempt(go)

    def oracle(self, p):
        return "reject" if p["f"] else "accept"


GUARDS = [SemiCylinderPerp(), FrustumPerp(), AnnulusPerp(), FaceCoplanar(), LengthRatio(), AnnulusRadii(),
          CylinderChain(), FrustumChain(), RingChain(), Contract(),
          FaceAddEdge(), AddSideEdge(), ProjectCorner(), ProjectEdge(), BlockAddEdge(), FrameAddBeam(),
          OpChop(), ShapeChop(), LabelCount(), FaceEdges(), SideVertices(), FromSeries(), FillSegments(),
          FaceCounts(), PointShape(), FacePoints(), ElbowChain(), MeshGrade(), MeshBackport(), JunctionClamp(),
          ShellChop()]
BY_NAME = {g.name: g for g in GUARDS}


# ================================================================================================
# histories (state machines)

MCALLS = ["add", "assemble", "clear", "grade", "backport"]
COQ_MCALL = {"add": "MAdd", "assemble": "MAssemble", "clear": "MClear", "grade": "MGrade", "backport": "MBackport"}


def gen_mesh_history(rng):
    n = rng.randint(1, 9)
    w = rng.choice([[3, 2, 2, 3, 2], [1, 1, 1, 3, 3], [2, 3, 1, 2, 2]])
    h, asm, ops = [], False, 0
    while len(h) < n:
        c = rng.choices(MCALLS, weights=w)[0]
        if c == "assemble" and asm:
            continue            # assembling twice without clear() duplicates blocks (C12), not this guard
        if c == "add" and asm:
            continue            # additions after assemble() are picked up by the next assemble only
        if c == "add":
            ops += 1
        if c == "assemble":
            asm = ops > 0
        if c == "clear":
            asm = False
        h.append(c)
    return h


def run_mesh_history(h):
    """-> list of booleans: the call passed the life-cycle guard"""
    cb = _cb()
    m = cb.Mesh()
    out = []
    k = 0
    for c in h:
        if c == "add":
            b = cb.Box([2 * k, 0, 0], [2 * k + 1, 1, 1])
            k += 1
            for a in range(3):
                b.chop(a, count=2)
            m.add(b)
            out.append(True)
            continue
        r = attempt(getattr(m, c))
        # exceptions of the grading machinery itself (inconsistent / repeated gradings, C12) are not this guard
        out.append(r[0] == "ok" or r[1] in ("library",))
    return out


def oracle_mesh_history(h, obs):
    ops, asm = 0, False
    for c, o in zip(h, obs):
        if c == "add":
            ops += 1
        elif c == "assemble":
            asm = asm or ops > 0
        elif c == "clear":
            asm = False
        else:
            if o and not asm:
                return "%s accepted on a mesh that is not assembled" % c
            if not o and asm:
                return "%s rejected on an assembled mesh" % c
    return None


_GRID = []


def grid_points():
    if _GRID:
        return _GRID[0][0].copy(), [list(a) for a in _GRID[0][1]]
    _GRID.append(_grid_points())
    return grid_points()


def _grid_points():
    cb = _cb()
    m = cb.Mesh()
    m.add(cb.Box([0, 0, 0], [1, 1, 1]))
    m.add(cb.Box([1, 0, 0], [2, 1, 1]))
    m.assemble()
    import numpy as np
    pts = np.array([v.position for v in m.vertices])
    addr = [[v.index for v in b.vertices] for b in m.blocks]
    return pts, addr


OFFS = [0.0, 0.0, 1e-8, 2e-7, 1e-3, 0.3]


def gen_grid_history(rng, npts):
    h = []
    for _ in range(rng.randint(1, 7)):
        if rng.random() < 0.2:
            # a vertex moves (what an optimization does through GridBase.update); later positions are matched against the
            # vertices where they are NOW, also when the position named is where a vertex used to be
            h.append(["move", rng.randrange(npts), rng.choice([0.25, -0.25, 0.5]), rng.randrange(3)])
        elif rng.random() < 0.6:
            h.append(["clamp", rng.randrange(npts), rng.choice(OFFS), rng.randrange(3)] + (["old"] if rng.random() < 0.4 else []))
        else:
            a = rng.randrange(npts)
            b = a if rng.random() < 0.15 else rng.randrange(npts)
            h.append(["link", a, rng.choice(OFFS), rng.randrange(3), b, rng.choice(OFFS), rng.randrange(3)])
    return h


def _pos(pts, j, off, ax):
    p = [float(x) for x in pts[j]]
    p[ax] += off
    return p


def _match(pts, p):
    """junction matched by position p within TOL (exact rational distance), first one"""
    t2 = F(tol()) ** 2
    for j in range(len(pts)):
        d2 = sum((F(p[k]) - F(pts[j][k])) ** 2 for k in range(3))
        if abs(float(d2) ** 0.5 - tol()) < BOUNDARY:
            return "boundary"
        if d2 < t2:
            return j
    return None


def run_grid_history(h, hex_grid=True):
    from classy_blocks.optimize.grid import HexGrid
    from classy_blocks.optimize.clamps.free import FreeClamp
    from classy_blocks.optimize.links import TranslationLink
    import numpy as np
    pts0, addr = grid_points()
    grid = HexGrid(pts0.copy(), addr)
    pts = [[float(x) for x in p] for p in pts0]   # where the vertices are now
    old = [[float(x) for x in p] for p in pts0]   # where they were at the start
    leaders = set()
    out, model = [], []
    for c in h:
        if c[0] == "move":
            if c[1] in leaders:
                continue  # a leader drags its followers along: not part of this model
            pts[c[1]] = _pos(pts, c[1], c[2], c[3])
            grid.update(c[1], np.array(pts[c[1]]))
        elif c[0] == "clamp":
            p = _pos(old if c[-1] == "old" else pts, c[1], c[2], c[3])
            model.append(("clamp", _match(pts, p)))
            out.append(attempt(lambda: grid.add_clamp(FreeClamp(p)))[0] == "ok")
        else:
            pl, pf = _pos(pts, c[1], c[2], c[3]), _pos(pts, c[4], c[5], c[6])
            ml, mf = _match(pts, pl), _match(pts, pf)
            model.append(("link", ml, mf))
            ok = attempt(lambda: grid.add_link(TranslationLink(pl, pf)))[0] == "ok"
            out.append(ok)
            if ok and isinstance(ml, int):
                leaders.add(ml)
    return out, model


def oracle_grid_history(model, obs):
    clamped = set()
    for m, o in zip(model, obs):
        if m[0] == "clamp":
            if m[1] is None and o:
                return "clamp that matches no vertex accepted"
            if m[1] is not None and m[1] in clamped and o:
                return "second clamp on vertex %d accepted" % m[1]
            if m[1] is not None and m[1] not in clamped and not o:
                return "valid clamp rejected"
            if o:
                clamped.add(m[1])
        else:
            bad = m[1] is None or m[2] is None or m[1] == m[2]
            if bad and o:
                return "link that matches no pair of distinct vertices accepted"
            if not bad and not o:
                return "valid link rejected"
    return None


def gen_label_history(rng):
    pool = [0, 1, 2, 3]
    ctor = rng.sample(pool, rng.choice([0, 1, 1, 2, 2, 3]))
    adds = [[rng.choice(pool) for _ in range(rng.choice([1, 1, 2]))] for _ in range(rng.randint(0, 4))]
    return ctor, adds


def run_label_history(ctor, adds):
    from classy_blocks.construct.edges import Project
    names = ["s%d" % i for i in range(4)]
    out = []
    box = {}

    def make():
        box["p"] = Project([names[i] for i in ctor])
    r = attempt(make)
    out.append(r[0] == "ok")
    if r[0] != "ok":
        return out, []
    counts = []
    for a in adds:
        arg = names[a[0]] if len(a) == 1 else [names[i] for i in a]
        out.append(attempt(lambda: box["p"].add_label(arg))[0] == "ok")
        counts.append(len(set(box["p"].label)))
    return out, counts


# the same rule through the operation's addressing calls: an edge of the block collects the surfaces of every project_edge
# naming it and of every project_side(..., edges=True) of a side it belongs to; the call that would give some edge a third
# surface is refused (blockMesh knows projections to one or two surfaces only)
OP_SIDES = {"bottom": (0, 1, 2, 3), "top": (4, 5, 6, 7), "left": (4, 0, 3, 7), "right": (5, 1, 2, 6), "front": (4, 5, 1, 0),
            "back": (7, 6, 2, 3)}
OP_EDGES = [(0, 1), (1, 2), (2, 3), (3, 0), (4, 5), (5, 6), (6, 7), (7, 4), (0, 4), (1, 5), (2, 6), (3, 7)]


def gen_op_label_history(rng):
    calls = []
    for _ in range(rng.randint(2, 5)):
        if rng.random() < 0.5:
            a, b = rng.choice(OP_EDGES)
            if rng.random() < 0.5:
                a, b = b, a
            calls.append(["edge", a, b, rng.sample(["ga", "gb", "gc"], rng.choice([1, 1, 2]))])
        else:
            calls.append(["side", rng.choice(sorted(OP_SIDES)), rng.choice(["ga", "gb", "gc"])])
    return calls


def run_op_label_history(calls):
    import classy_blocks as cb
    op = cb.Box([0.0, 0.0, 0.0], [1.0, 1.25, 1.5])
    out = []
    for c in calls:
        if c[0] == "edge":
            r = attempt(lambda: op.project_edge(c[1], c[2], list(c[3]) if len(c[3]) > 1 else c[3][0]))
        else:
            r = attempt(lambda: op.project_side(c[1], c[2], edges=True))
        out.append(r[0] == "ok")
        if r[0] != "ok":
            break
    return out


def oracle_op_label_history(calls, obs):
    have = {frozenset(e): set() for e in OP_EDGES}
    for c, o in zip(calls, obs):
        if c[0] == "edge":
            touched = {frozenset((c[1], c[2])): set(c[3])}
        else:
            q = OP_SIDES[c[1]]
            touched = {frozenset((q[i], q[(i + 1) % 4])): {c[2]} for i in range(4)}
        over = [sorted(e) for e, new in touched.items() if len(have[e] | new) > 2]
        if bool(over) == o:
            return "call %r %s although edge(s) %s would then be projected to %s surfaces" % (
                c, "accepted" if o else "rejected", over or "none", "more than two" if over else "at most two")
        if not o:
            return None
        for e, new in touched.items():
            have[e] |= new
    return None


def oracle_label_history(ctor, adds, obs):
    have = list(ctor)
    if (1 <= len(have) <= 2) != obs[0]:
        return "constructor with %d labels %s" % (len(have), "accepted" if obs[0] else "rejected")
    if not obs[0]:
        return None
    s = set(have)
    for a, o in zip(adds, obs[1:]):
        s |= set(a)
        if (1 <= len(s) <= 2) != o:
            return "edge projected to %d surfaces %s" % (len(s), "accepted" if o else "rejected")
    return None


# ================================================================================================
# S1: Gen files

TABLED = ["face_add_edge", "add_side_edge", "project_corner", "project_edge", "block_add_edge", "frame_add_beam",
          "operation_chop", "shape_chop", "label_count", "face_edges", "side_vertices", "from_series",
          "cylinder_fill", "point_shape", "face_points"]


def extract_all(log=None):
    """-> {name: (gallina, extracted?, sources, notes)}"""
    out = {}
    for g in GUARDS:
        fn = None
        try:
            fn = g.func()
        except Exception as e:  # moved / renamed: fall back, the probes decide
            out[g.name] = (g.ref, False, [], ["function not found: %s" % e])
            continue
        if fn is None:
            out[g.name] = (g.ref, False, [], ["implicit guard (lookup): tabulated"])
            continue
        try:
            ex = Extractor(fn, g.typ, g.atoms, {"TOL": "TOL", "constants.TOL": "TOL"})
            gal, srcs, notes = ex.extract()
        except (Unsupported, OSError, TypeError, SyntaxError, IndexError) as e:
            gal, srcs, notes = None, [], ["extractor: %s" % e]
        if gal is None:
            out[g.name] = (g.ref, False, [], notes + ["no explicit guard inside the fragment: reference guard, tied by probes"])
            continue
        # the explicit condition is used only if it is the effective guard: it must reproduce accept/reject of
        # the real call on every probe (otherwise a lookup or a callee decides, and the reference guard + probes tie)
        bad = None
        import random
        for p in g.probes(random.Random(0), 0):
            if g.boundary(p):
                continue
            v = dict(g.scalars(p))
            v["TOL"] = F(tol())
            try:
                says = bool(eval(gal.py, {"Fraction": Fraction, "v": v, "abs": abs, "list": list})) or g.extra_reject(p)
            except Exception as e:  # noqa
                bad = "cannot evaluate the extracted guard: %s" % e
                break
            if says != (g.run(p)[0] != "ok"):
                bad = "explicit condition (%s) is not the effective guard at %s" % (" ; ".join(srcs), json.dumps(p))
                break
        if bad:
            out[g.name] = (g.ref, False, [], notes + [bad + ": reference guard, tied by probes"])
        else:
            out[g.name] = (gal, True, srcs, notes)
    return out


def emit_guards(ext):
    o = ["(* GENERATED by harness/props/C20.py from the working tree of /repo -- do not edit *)",
         "From Coq Require Import QArith Qabs ZArith Bool List.",
         "From CB Require Import Base.Hex Model.C20_Guards.",
         "Import ListNotations.", "",
         "Definition TOL : Q := %s." % qlit(F(tol())), ""]
    for g in GUARDS:
        gal, ok, srcs, _notes = ext[g.name]
        o.append("(* %s   %s *)" % (g.anchor, ("extracted from: " + " ; ".join(srcs)) if ok else "NOT extracted: reference guard"))
        args = " ".join("(%s : %s)" % (v, t) for (v, t) in g.params)
        scope = "%Q" if g.typ == "Q" else "%Z"
        o.append("Definition g_%s %s : bool := (%s)%s." % (g.name, args, gal, scope))
        o.append("Definition extracted_%s : bool := %s." % (g.name, blit(ok)))
        o.append("")
    return "\n".join(o) + "\n"


def tabulate():
    import random
    rng = random.Random(0)
    tabs = {}
    for name in TABLED:
        g = BY_NAME[name]
        rows = []
        for p in g.probes(rng, 0):
            r = g.run(p)
            rows.append((p, r[0] == "ok"))
        if not rows:
            raise GenError("empty table for %s" % name)
        tabs[name] = rows
    return tabs


def emit_tables(tabs):
    o = ["(* GENERATED by harness/props/C20.py: accept (true) / reject (false) of the real calls on their whole probed index domain *)",
         "From Coq Require Import ZArith Bool List.", "Import ListNotations.", "Open Scope Z_scope.", ""]
    for name in TABLED:
        rows = tabs[name]
        g = BY_NAME[name]
        if isinstance(g, PairGuard):
            o.append("Definition tab_%s : list (Z * Z * bool) :=\n  [%s]." % (name, "; ".join("(%d, %d, %s)" % (p["a"], p["b"], blit(ok)) for p, ok in rows)))
        elif isinstance(g, ShapeGuard):
            o.append("Definition tab_%s : list (list Z * bool) :=\n  [%s]." % (name, "; ".join("([%s], %s)" % ("; ".join(str(x) for x in p["shape"]), blit(ok)) for p, ok in rows)))
        else:
            o.append("Definition tab_%s : list (Z * bool) :=\n  [%s]." % (name, "; ".join("(%d, %s)" % (p["c"], blit(ok)) for p, ok in rows)))
    return "\n".join(o) + "\n"


def parse_id_list(so):
    import re
    m = re.search(r"=\s*\[(.*?)\]\s*:\s*list nat", so, flags=re.S)
    if not m:
        raise RuntimeError("cannot parse Coq output: %r" % so[:400])
    body = m.group(1).strip()
    if not body:
        return []
    return [int(x) for x in body.replace("\n", " ").split(";")]


def region(g, p):
    """coarse description of where the probe lies, for signatures"""
    if "d" in p:
        return "negative-deviation" if p["d"] < 0 else ("zero" if p["d"] == 0 else "positive-deviation")
    if "c" in p and isinstance(g, IntGuard) and not isinstance(g, PairGuard):
        return "below-range" if p["c"] < g.ok_lo else ("above-range" if p["c"] > g.ok_hi else "in-range")
    if "a" in p and "b" in p and isinstance(g, PairGuard):
        if min(p["a"], p["b"]) < 0:
            return "negative-corner"
        if max(p["a"], p["b"]) > 7:
            return "corner-above-7"
        return "in-range-pair"
    if "l" in p:
        return "negative" if p["l"] < 0 else "positive"
    if "r" in p:
        return "r<=0" if p["r"] <= 0 else ("r>1" if p["r"] > 1 else "inside")
    if "inner" in p:
        return "inner<=0" if p["inner"] <= 0 else "inner>=outer" if p["inner"] >= Contract.SRC else "inside"
    return "case"


def judge(g, p, r):
    """direct oracle on one probe -> None or a failure description"""
    want = g.oracle(p)
    if want == "reject" and r[0] == "ok":
        return "accepted although the documented precondition is violated"
    if want == "accept" and r[0] != "ok":
        return "rejected (%s) although the precondition holds" % r[1]
    if want == "reject" and str(r[1]).startswith("other:"):
        # the property names the kinds of exception that count as an enforced precondition
        return "refused only by an incidental %s, not by a creation / value / key / runtime error" % r[1][6:]
    return None


def verdict(why):
    if why.startswith("refused only by"):
        return "wrong-exception-kind"
    return "accepts-invalid" if (why.startswith("accepted") or " accepted" in why) else "rejects-valid"


class C20(Prop):
    pid = "C20"
    title = "Construction and life-cycle preconditions are enforced symmetrically"
    prebuilt = ["Base/Hex.v", "Model/C20_Guards.v", "Proofs/C20_Guards.v"]
    gen_dependent_files = ["Gen/C20/Guards.v", "Gen/C20/Tables.v"]
    property_files = ["Properties/C20.v"]
    trusted = [
        "guard extractor harness/props/C20_extract.py (syntactic: comparisons, abs, and/or/not, chained comparisons, "
        "constants, simple local assignments inlined, listed atoms as variables); every extracted guard is also probed "
        "behaviourally on both sides of each boundary and compared with its Gallina form inside Coq",
        "guards outside the fragment (lookups, set membership, loops, any(...)) are tied by whole-range tabulation "
        "(coq/Gen/C20/Tables.v) and by sampled histories only",
        "exact rational scalars (dot products, radius differences) are computed by the harness from the float arguments "
        "with fractions.Fraction; comparisons within 1e-9 of a guard's own threshold are counted as boundary, either way",
    ]
    partial = []

    def generate(self, ctx):
        ext = extract_all()
        self._ext = ext
        for g in GUARDS:
            gal, ok, srcs, notes = ext[g.name]
            if not ok and g.func.__func__ is not Guard.func:
                ctx.log("C20 note: guard %s not extracted (%s)" % (g.name, "; ".join(notes)[:200]))
        ctx.write_gen("Guards", emit_guards(ext))
        self._tabs = tabulate()
        ctx.write_gen("Tables", emit_tables(self._tabs))

    # ---- S3 ------------------------------------------------------------------------------------
    def probe_all(self, ctx, extra, res=None):
        """runs every probe; returns (cases, failures)"""
        cases, fails = [], []
        for g in GUARDS:
            for p in g.probes(ctx.rng, extra):
                r = g.run(p)
                bnd = g.boundary(p)
                cases.append((g, p, r, bnd))
                bad = judge(g, p, r)
                if bad:
                    fails.append(dict(kind="probe", guard=g.name, anchor=g.anchor, params=p, observed=list(r), why=bad,
                                      region=region(g, p)))
                if res is not None:
                    res.evaluations += 1
                    res.count("guard=" + g.name)
                    res.count("outcome=" + (r[0] if r[0] == "ok" else "rejected:" + str(r[1])))
                    if bnd:
                        res.boundary += 1
                    if g.oracle(p) != "either":
                        res.distinct.add(g.name + ":" + json.dumps(p, sort_keys=True))
        return cases, fails

    def correspond(self, ctx):
        res = CorrResult()
        res.rule = ("every guard of the inventory called on both sides of each boundary (deviations +-{1e-8,2e-7,1e-3,0.5} and random "
                    "magnitudes, indices over the whole probed range, counts, shapes); accept/reject compared with the Gen guard "
                    "(extracted from the source, or reference) evaluated in Coq on the exact rational scalars; plus random histories "
                    "for mesh life cycle, clamps/links on a HexGrid and labels of a projected edge against the state machines; "
                    "non-trivial = the oracle demands a definite outcome; distinct by (guard, parameters) / history")
        ext = getattr(self, "_ext", None) or extract_all()
        res.notes.append("extracted from the AST in this run: " + ", ".join(n for n, v in ext.items() if v[1]))
        res.notes.append("reference guard (not extracted, tied by probes/tables): " + ", ".join(n for n, v in ext.items() if not v[1]))
        cases, fails = self.probe_all(ctx, ctx.n(4, 40), res)
        res.oracle_failures += fails
        res.samples = [dict(guard=g.name, params=p, observed=list(r)) for (g, p, r, _b) in cases[:: max(1, len(cases) // 6)]][:6]
        head = ["From Coq Require Import QArith Qabs ZArith Bool List.",
                "From CB Require Import Base.Hex Model.C20_Guards Gen.C20.Guards.", "Import ListNotations.", ""]
        tail = ["Eval vm_compute in (map (fun c => fst (fst c)) (filter (fun c => negb (Bool.eqb (snd (fst c)) (snd c))) cases))."]
        shards = []
        refs = {}
        live = [(i, c) for i, c in enumerate(cases) if not c[3]]
        per = 400
        for k in range(0, len(live), per):
            chunk = live[k:k + per]
            body = ["Definition cases : list (nat * bool * bool) := ["]
            body.append(";\n".join("(%d, (%s), %s)" % (j, g.model(p), blit(r[0] != "ok")) for j, (i, (g, p, r, _b)) in enumerate(chunk)))
            body.append("].")
            shards.append(("probes_%d" % (k // per), "\n".join(head + body + tail) + "\n"))
            refs["probes_%d" % (k // per)] = [("probe", i) for i, _c in chunk]

        # histories
        nh = ctx.n(150, 3000)
        mh = []
        for _ in range(nh):
            h = gen_mesh_history(ctx.rng)
            obs = run_mesh_history(h)
            mh.append((h, obs))
            res.evaluations += 1
            res.count("history=mesh")
            if any(c in ("grade", "backport") for c in h):
                res.distinct.add("mesh:" + ",".join(h))
            bad = oracle_mesh_history(h, obs)
            if bad:
                res.oracle_failures.append(dict(kind="mesh_history", guard="mesh_lifecycle", calls=h, observed=obs, why=bad, region="history"))
        pts, _addr = grid_points()
        gh = []
        for _ in range(nh):
            h = gen_grid_history(ctx.rng, len(pts))
            obs, model = run_grid_history(h)
            if any("boundary" in m for m in model):
                res.boundary += 1
                continue
            gh.append((h, obs, model))
            res.evaluations += 1
            res.count("history=grid")
            res.distinct.add("grid:" + json.dumps(h))
            bad = oracle_grid_history(model, obs)
            if bad:
                res.oracle_failures.append(dict(kind="grid_history", guard="grid_clamps_links", calls=h, observed=obs, why=bad, region="history"))
        lh = []
        for _ in range(nh):
            ctor, adds = gen_label_history(ctx.rng)
            obs, _counts = run_label_history(ctor, adds)
            lh.append((ctor, adds, obs))
            res.evaluations += 1
            res.count("history=labels")
            res.distinct.add("labels:" + json.dumps([ctor, adds]))
            bad = oracle_label_history(ctor, adds, obs)
            if bad:
                res.oracle_failures.append(dict(kind="label_history", guard="project_labels", ctor=ctor, adds=adds, observed=obs, why=bad, region="history"))

        for _ in range(nh):
            calls = gen_op_label_history(ctx.rng)
            obs = run_op_label_history(calls)
            res.evaluations += 1
            res.count("history=operation-labels")
            res.distinct.add("oplabels:" + json.dumps(calls))
            bad = oracle_op_label_history(calls, obs)
            if bad:
                res.oracle_failures.append(dict(kind="op_label_history", guard="project_labels", calls=calls, observed=obs, why=bad, region="history"))

        def bl(l):
            return "[" + "; ".join(blit(x) for x in l) + "]"

        def on(x):
            return "None" if x is None else "(Some %d)" % x

        def nl(l):
            return "[" + "; ".join(str(int(x)) for x in l) + "]"
        hhead = ["From Coq Require Import Bool List Arith.", "From CB Require Import Base.Hex Model.C20_Guards.", "Import ListNotations.",
                 "Fixpoint bl_eqb (a b : list bool) : bool := match a, b with [], [] => true | x :: a', y :: b' => Bool.eqb x y && bl_eqb a' b' | _, _ => false end.",
                 ""]
        htail = ["Eval vm_compute in (map fst (filter (fun c => negb (bl_eqb (fst (snd c)) (snd (snd c)))) cases))."]
        for k in range(0, len(mh), 500):
            body = ["Definition cases : list (nat * (list bool * list bool)) := ["]
            body.append(";\n".join("(%d, (m_run m_init [%s], %s))" % (j, "; ".join(COQ_MCALL[c] for c in h), bl(obs))
                                   for j, (h, obs) in enumerate(mh[k:k + 500])))
            body.append("].")
            shards.append(("hist_mesh_%d" % (k // 500), "\n".join(hhead + body + htail) + "\n"))
            refs["hist_mesh_%d" % (k // 500)] = [("mesh", k + j) for j in range(len(mh[k:k + 500]))]
        for k in range(0, len(gh), 500):
            body = ["Definition cases : list (nat * (list bool * list bool)) := ["]
            rows = []
            for j, (h, obs, model) in enumerate(gh[k:k + 500]):
                calls = "; ".join(("GClamp %s" % on(m[1])) if m[0] == "clamp" else ("GLink %s %s" % (on(m[1]), on(m[2]))) for m in model)
                rows.append("(%d, (g_run [] [%s], %s))" % (j, calls, bl(obs)))
            body.append(";\n".join(rows))
            body.append("].")
            shards.append(("hist_grid_%d" % (k // 500), "\n".join(hhead + body + htail) + "\n"))
            refs["hist_grid_%d" % (k // 500)] = [("grid", k + j) for j in range(len(gh[k:k + 500]))]
        for k in range(0, len(lh), 500):
            body = ["Definition cases : list (nat * (list bool * list bool)) := ["]
            body.append(";\n".join("(%d, (l_history %s [%s], %s))" % (j, nl(ctor), "; ".join(nl(a) for a in adds), bl(obs))
                                   for j, (ctor, adds, obs) in enumerate(lh[k:k + 500])))
            body.append("].")
            shards.append(("hist_labels_%d" % (k // 500), "\n".join(hhead + body + htail) + "\n"))
            refs["hist_labels_%d" % (k // 500)] = [("labels", k + j) for j in range(len(lh[k:k + 500]))]

        for (name, rc, so, se) in core.run_cases_parallel(ctx, shards):
            if rc != 0:
                res.error = "case file %s failed to compile: %s" % (name, se[-800:])
                return res
            for j in parse_id_list(so):
                kind, i = refs[name][j]
                if kind == "labels":
                    c = lh[i]
                    res.mismatches.append(dict(case=name + ":%d" % j, kind="label_history", ctor=c[0], adds=c[1], impl=c[2]))
                elif kind == "grid":
                    c = gh[i]
                    res.mismatches.append(dict(case=name + ":%d" % j, kind="grid_history", calls=c[0], impl=c[1]))
                elif kind == "mesh":
                    c = mh[i]
                    res.mismatches.append(dict(case=name + ":%d" % j, kind="mesh_history", calls=c[0], impl=c[1]))
                else:
                    g, p, r, _b = cases[i]
                    res.mismatches.append(dict(case=name + ":%d" % j, kind="probe", guard=g.name, params=p, impl=list(r), model=g.model(p)))
        res.traces = len(mh) + len(gh) + len(lh)
        return res

    # ---- S4 ------------------------------------------------------------------------------------
    def search(self, ctx, broken, corr):
        """denser probing of every guard with the direct oracle"""
        _cases, fails = self.probe_all(ctx, ctx.n(60, 300))
        return fails

    def signature(self, rp):
        return "C20:%s:%s:%s" % (rp.get("guard"), verdict(rp.get("why", "")), rp.get("region", ""))

    def replay(self, ctx, obj):
        k = obj.get("kind")
        if k == "probe":
            g = BY_NAME[obj["guard"]]
            r = g.run(obj["params"])
            print("implementation:", r)
            print("oracle demands:", g.oracle(obj["params"]), "->", judge(g, obj["params"], r) or "ok")
        elif k == "mesh_history":
            obs = run_mesh_history(obj["calls"])
            print("implementation:", obs)
            print("oracle:", oracle_mesh_history(obj["calls"], obs) or "ok")
        elif k == "grid_history":
            obs, model = run_grid_history(obj["calls"])
            print("implementation:", obs)
            print("oracle:", oracle_grid_history(model, obs) or "ok")
        elif k == "op_label_history":
            obs = run_op_label_history(obj["calls"])
            print("implementation: calls accepted:", obs)
            print("oracle:", oracle_op_label_history(obj["calls"], obs) or "ok")
        elif k == "label_history":
            obs, _c = run_label_history(obj["ctor"], obj["adds"])
            print("implementation:", obs)
            print("oracle:", oracle_label_history(obj["ctor"], obj["adds"], obs) or "ok")
        else:
            print("nothing to replay:", obj.get("kind"))
        return 0


PROP = C20()
