"""C01 - Blocks that share an edge always agree on its cell count.

Same model and machinery as C02 (props/grading_common.py, Model/Propagate.v); the generator is biased
towards conflicting chop placements (directly adjacent chopped blocks, conflicts through un-chopped
blocks, edge-only contacts, re-oriented blocks)."""
import json

import core
from core import CorrResult, Prop
from props import grading_common as gc
from props import C02 as c02


def gen_all_chopped(rng):
    """2..4 boxes in a row, EVERY direction of every box chopped by the user (nothing has to be propagated, so a lost
    neighbour relation cannot surface as an undefined-grading error), counts across the row agreeing or not; the mesh is
    re-assembled or written once before the observed write"""
    n = rng.randint(2, 4)
    d = rng.randrange(3)
    cells = [tuple(i if k == d else 0 for k in range(3)) for i in range(n)]
    perms = [rng.choice(gc.ROT24) for _ in cells]
    order = list(range(n))
    rng.shuffle(order)
    asm = gc.Assembly(cells, perms, {}, {}, order)
    base = {}
    for fam in gc.families(asm):
        a = rng.choice([2, 3, 5])
        for x in fam:
            asm.chops[x] = [dict(count=a if rng.random() < 0.8 else a + rng.choice([1, 2, 6]))]
    asm.life = rng.choice([1, 2, 3, 4, 4])
    asm.mode = "all-chopped"
    return asm


def gen_far_chops(rng):
    n = rng.randint(4, 6)
    d = rng.randrange(3)
    cells = [tuple(i if k == d else 0 for k in range(3)) for i in range(n)]
    perms = [rng.choice(gc.ROT24) for _ in cells]
    order = list(range(n))
    rng.shuffle(order)
    asm = gc.Assembly(cells, perms, {}, {}, order)
    # families: each block's direction along the row is its own family; the two directions across the row span all blocks
    fams = gc.families(asm)
    a = rng.choice([2, 3, 5])
    b = a if rng.random() < 0.35 else rng.choice([x for x in (2, 3, 4, 5, 7, 15) if x != a])
    for fam in fams:
        blocks = sorted({x[0] for x in fam})
        if len(blocks) == 1:
            asm.chops[fam[0]] = [dict(count=rng.choice([1, 2, 3]))]
            continue
        first = [x for x in fam if x[0] == 0][0]
        last = [x for x in fam if x[0] == n - 1][0]
        asm.chops[first] = [dict(count=a)]
        if rng.random() < 0.75:
            asm.chops[last] = [dict(count=b)]
    asm.mode = "far-chops"
    return asm


class C01(Prop):
    pid = "C01"
    prebuilt = gc.PREBUILT
    gen_dependent_files = []
    property_files = ["Properties/C01.v"]
    trusted = [
        "hand model Model/Propagate.v; tied by sampled correspondence (outcome kind, per-block and per-wire counts, coincident and "
        "neighbour sets of the implementation validated as permutations of the model's) under native and injected iteration orders",
        "chop counts are inputs of the model (count-only chops; their resolution is C03)",
        "'shared edge' is vertex-index equality after assembly (vertex merging is C05)",
    ]

    def correspond(self, ctx):
        res = CorrResult()
        res.rule = ("random lattice assemblies (1..8 cells quick, ..14 thorough; face/edge-only/corner contacts, random rotations of "
                    "each block's numbering, jitter, random insertion order) with chop placements biased to conflicts (~45% conflicting, "
                    "rest consistent/under-specified); native and injected iteration orders; compared in Coq: outcome kind, counts per "
                    "block and per wire; direct oracle on the written file: every vertex pair that is an edge of two hex entries carries "
                    "one count; non-trivial = >=2 blocks and >=1 chop")
        rng = ctx.rng
        spec = [(a, None) for a in c02.load_corpus("C01")]
        for i in range(ctx.n(150, 4000)):
            asm = gc.gen_assembly(rng, max_cells=ctx.n(8, 14), dims=(3, 3, 2) if ctx.quick else (4, 3, 3), conflict_bias=0.25)
            spec.append((asm, None))
            if i % 2 == 0:
                spec.append((asm, c02.make_prio(rng)))
        # chops that meet (agree or conflict) only through a chain of un-chopped blocks: a row of 4..6 boxes, the two end
        # boxes chopped across the row, every insertion order equally likely
        for i in range(ctx.n(40, 600)):
            spec.append((gen_far_chops(rng), None if i % 3 else c02.make_prio(rng)))
        for i in range(ctx.n(30, 400)):
            spec.append((gen_all_chopped(rng), None))
        done = c02.corr_grading(ctx, res, spec, "c01")
        res.samples = [dict(assembly=a.to_json(), injected=inj, outcome=r["outcome"], counts=r.get("counts")) for (a, inj, r) in done[:3]]
        return res

    def search(self, ctx, broken, corr):
        fails = []
        rng = ctx.rng
        for i in range(ctx.n(400, 4000)):
            asm = gen_all_chopped(rng) if i % 4 == 0 else gc.gen_assembly(rng, max_cells=5, conflict_bias=0.4)
            for prio in (None, c02.make_prio(rng)):
                r = gc.run_impl(asm, ctx.work, prio)
                why = gc.direct_oracle(asm, r)
                if why:
                    fails.append(dict(kind="assembly", assembly=c02.shrink(asm, prio, ctx).to_json(), injected=prio is not None,
                                      outcome=r["outcome"], why=why))
                    break
            if len(fails) >= 3:
                break
        return fails

    def signature(self, rp):
        return "%s:%s:%s" % (self.pid, rp.get("kind"), (rp.get("why") or "")[:60])

    def replay(self, ctx, obj):
        asm = gc.Assembly.from_json(obj["assembly"])
        r = gc.run_impl(asm, ctx.work, None)
        print("implementation outcome:", r["outcome"], r.get("counts"))
        print("oracle:", gc.direct_oracle(asm, r) or "ok")
        return 0


PROP = C01()
