"""C19, stream (M): round shapes that were mirrored (the second half of a symmetric geometry).  Direct oracle only:
core and shell partition the operations into those that do not touch and those that touch the outer surface -
decided here from the corner positions and the mirrored constructor arguments alone."""
import json
import warnings


def _np():
    import numpy as np
    return np


def gen_case(rng):
    kind = rng.choice(["Cylinder", "SemiCylinder", "Frustum"])
    p1 = [rng.choice([-2.0, 0.0, 1.5]) for _ in range(3)]
    ax = rng.choice([[0.0, 0.0, 2.0], [1.0, 0.0, 0.0], [1.0, 2.0, 2.0]])
    np = _np()
    a = np.array(ax)
    t = np.cross(a, [0.3, -0.5, 0.8])
    r1 = rng.choice([0.5, 1.0])
    rv = t / np.linalg.norm(t) * r1
    case = dict(kind=kind, p1=p1, p2=[float(p1[i] + ax[i]) for i in range(3)], rp=[float(p1[i] + rv[i]) for i in range(3)],
                r2=rng.choice([0.3, 0.8, 1.4]), copy=rng.random() < 0.6,
                normal=rng.choice([[0.0, 0.0, 1.0], [1.0, 0.0, 0.0], [1.0, 1.0, 0.0], [2.0, -1.0, 0.5]]),
                origin=[rng.choice([0.0, 0.5, -1.0]) for _ in range(3)],
                then=rng.choice([None, None, ["translate", [1.0, -2.0, 0.5]], ["rotate", 0.5, [0.0, 1.0, 0.0], [0.0, 0.0, 0.0]]]))
    return case


def run_case(case):
    import classy_blocks as cb
    with warnings.catch_warnings():
        warnings.simplefilter("ignore")
        if case["kind"] == "Frustum":
            s = cb.Frustum(case["p1"], case["p2"], case["rp"], case["r2"])
        else:
            s = getattr(cb, case["kind"])(case["p1"], case["p2"], case["rp"])
        if case["copy"]:
            s = s.copy()
        s.mirror(case["normal"], case["origin"])
        if case["then"]:
            if case["then"][0] == "translate":
                s.translate(case["then"][1])
            else:
                s.rotate(case["then"][1], case["then"][2], case["then"][3])
        ops = list(s.operations)
        ids = {id(o): n for n, o in enumerate(ops)}
        return dict(points=[[[float(x) for x in p] for p in o.point_array] for o in ops],
                    core=[ids.get(id(o), -1) for o in s.core], shell=[ids.get(id(o), -1) for o in s.shell])


def oracle(case, ob):
    np = _np()
    n = np.array(case["normal"], dtype=float)
    n = n / np.linalg.norm(n)
    o = np.array(case["origin"], dtype=float)

    def m(p):
        p = np.array(p, dtype=float)
        return p - 2 * float(np.dot(p - o, n)) * n

    def then(p):
        t = case["then"]
        if not t:
            return p
        if t[0] == "translate":
            return p + np.array(t[1])
        k = np.array(t[2], dtype=float)
        k = k / np.linalg.norm(k)
        v = p - np.array(t[3])
        import math
        return np.array(t[3]) + v * math.cos(t[1]) + np.cross(k, v) * math.sin(t[1]) + k * float(np.dot(k, v)) * (1 - math.cos(t[1]))
    p1, p2 = then(m(case["p1"])), then(m(case["p2"]))
    r1 = float(np.linalg.norm(np.array(case["rp"]) - np.array(case["p1"])))
    r2 = case["r2"] if case["kind"] == "Frustum" else r1
    ax = p2 - p1
    L = float(np.linalg.norm(ax))
    ax = ax / L

    def level(p):
        v = np.array(p) - p1
        t = float(np.dot(v, ax)) / L
        d = float(np.linalg.norm(v - float(np.dot(v, ax)) * ax))
        return d / (r1 + (r2 - r1) * t)
    sides = [[0, 1, 2, 3], [4, 5, 6, 7], [0, 4, 7, 3], [1, 2, 6, 5], [0, 1, 5, 4], [3, 2, 6, 7]]
    touching = []
    for k, pts in enumerate(ob["points"]):
        lv = [level(p) for p in pts]
        if max(lv) > 1 + 1e-6:
            return ("a corner of operation %d lies outside the mirrored shape's outer surface (level %.6g)" % (k, max(lv)), "geometry")
        # the straight side of a half cylinder is not its outer surface; an arc-side has all four corners at level 1
        if any(all(abs(lv[c] - 1) <= 1e-6 for c in sd) for sd in sides):
            touching.append(k)
    nops = len(ob["points"])
    if -1 in ob["core"] or -1 in ob["shell"]:
        return ("core/shell hold objects that are not operations of the shape", "foreign")
    if sorted(ob["core"] + ob["shell"]) != list(range(nops)):
        return ("core %r and shell %r do not partition the %d operations" % (ob["core"], ob["shell"], nops), "partition")
    if sorted(ob["shell"]) != touching:
        return ("after mirror(): shell = %r, the operations with a side on the outer surface are %r (core = %r)" % (
            sorted(ob["shell"]), touching, sorted(ob["core"])), "shell")
    return None


def check(case):
    try:
        ob = run_case(case)
    except Exception as e:  # noqa: BLE001
        return dict(what="mirrored-round", case=case, why="raised %s: %s" % (type(e).__name__, str(e)[:200]), sig="C19:mirrored-round:raises")
    bad = oracle(case, ob)
    if bad:
        return dict(what="mirrored-round", case=case, why=bad[0], sig="C19:mirrored-round:" + bad[1])
    return None
