"""C07, stream (d): operations whose curved side edges are made by a constructor (Loft.from_series over 3..6
cross-sections, Revolve) and that are then moved as a whole (translate / rotate / scale / mirror / invert, also on a
copy).  Direct oracle only: the case says which curve the user described between which two points of space; from
the written vertices and edges alone the oracle requires exactly one entry on that vertex pair, of the right kind,
drawing that curve (spline: the described interior points in the order that leads from the entry's first vertex to
its second; arc: a point of the circle through the described three points, on the described side of the chord) and
a block wire of the described length on that pair."""
import json
import math
import warnings

from core import GenError


def _np():
    import numpy as np
    return np


def _cb():
    import classy_blocks as cb  # noqa
    return cb


# ---- rigid / similarity maps, computed here independently of the library ----------------------------------------

def rot_point(p, angle, axis, origin):
    np = _np()
    p, axis, origin = (np.asarray(x, dtype=float) for x in (p, axis, origin))
    k = axis / np.linalg.norm(axis)
    v = p - origin
    return origin + v * math.cos(angle) + np.cross(k, v) * math.sin(angle) + k * float(np.dot(k, v)) * (1 - math.cos(angle))


def apply_tr(p, t):
    np = _np()
    p = np.asarray(p, dtype=float)
    if t[0] == "translate":
        return p + np.asarray(t[1], dtype=float)
    if t[0] == "rotate":
        return rot_point(p, t[1], t[2], t[3])
    if t[0] == "scale":
        o = np.asarray(t[2], dtype=float)
        return o + (p - o) * t[1]
    if t[0] == "mirror":
        n = np.asarray(t[1], dtype=float)
        n = n / np.linalg.norm(n)
        o = np.asarray(t[2], dtype=float)
        return p - 2 * float(np.dot(p - o, n)) * n
    if t[0] in ("invert", "copy"):
        return p
    raise GenError("unknown transform %r" % (t,))


def apply_all(p, trs):
    for t in trs:
        p = apply_tr(p, t)
    return [float(x) for x in p]


# ---- generation -------------------------------------------------------------------------------------------------

def gen_transforms(rng, revolve_axis=None):
    out = []
    for _ in range(rng.choice([0, 1, 1, 2, 3])):
        k = rng.choice(["translate", "rotate", "rotate", "scale", "mirror", "mirror", "invert", "invert", "copy"])
        if k == "translate":
            out.append([k, [rng.choice([-2.0, -0.5, 0.25, 1.0, 3.0]) for _ in range(3)]])
        elif k == "rotate":
            ax = rng.choice([[1.0, 0.0, 0.0], [0.0, 1.0, 0.0], [0.0, 0.0, 1.0], [1.0, 1.0, 0.0], [1.0, -2.0, 0.5]])
            out.append([k, rng.choice([0.5, -0.75, 1.0, 2.0, math.pi / 3]), ax, [rng.choice([0.0, 0.5, -1.0]) for _ in range(3)]])
        elif k == "scale":
            out.append([k, rng.choice([0.5, 2.0, 1.5]), [rng.choice([0.0, 0.5, -1.0]) for _ in range(3)]])
        elif k == "mirror":
            n = rng.choice([[0.0, 0.0, 1.0], [1.0, 0.0, 0.0], [0.0, 1.0, 0.0], [1.0, 0.0, 1.0], [1.0, 2.0, -1.0]])
            out.append([k, n, [rng.choice([0.0, 0.5, -1.0]) for _ in range(3)]])
        else:
            out.append([k])
    return out


def gen_ctor_case(rng, ctor=None):
    if ctor == "series" or (ctor is None and rng.random() < 0.5):
        # cross-sections of a twisted, drifting duct: strongly non-uniform heights so that any other order of the
        # interior points is a visibly different (longer) curve
        k = rng.choice([3, 4, 4, 5, 6])
        hs = sorted(rng.sample([0.2, 0.4, 0.5, 0.9, 1.3, 1.4, 2.0, 2.2, 3.0], k - 1))
        zs = [0.0] + hs
        faces = []
        for j, z in enumerate(zs):
            tw = 0.15 * j * rng.choice([1, 1, -1])
            dx, dy = 0.1 * j * j, -0.05 * j
            quad = [[0.0, 0.0], [1.0, 0.0], [1.0, 1.0], [0.0, 1.0]]
            pts = []
            for (x, y) in quad:
                xr = 0.5 + (x - 0.5) * math.cos(tw) - (y - 0.5) * math.sin(tw)
                yr = 0.5 + (x - 0.5) * math.sin(tw) + (y - 0.5) * math.cos(tw)
                pts.append([xr + dx, yr + dy, z + 0.05 * x * j])
            faces.append(pts)
        if rng.random() < 0.3:
            faces.reverse()  # given from the top to the bottom: a left-handed series is the user's business, the edges are not
        case = dict(ctor="series", faces=faces)
    else:
        r0 = rng.choice([0.6, 1.0, 2.0])
        base = [[r0, 0.0, 0.0], [r0 + 0.5, 0.0, 0.0], [r0 + 0.6, 0.0, 0.4], [r0 + 0.1, 0.0, 0.5]]
        axis = [0.0, 0.0, 1.0]
        origin = [0.0, 0.0, 0.0]
        angle = rng.choice([0.5, math.pi / 3, 1.0, 2.0, -0.7])
        pre = []
        if rng.random() < 0.5:
            # the same revolve somewhere else in space
            pre = [["rotate", rng.choice([0.4, 1.1]), [1.0, 1.0, 0.0], [0.0, 0.0, 0.0]], ["translate", [0.5, -1.0, 2.0]]]
            base = [apply_all(p, pre) for p in base]
            origin = apply_all(origin, pre)
            axis = [a - b for a, b in zip(apply_all([0.0, 0.0, 1.0], pre), apply_all([0.0, 0.0, 0.0], pre))]
        case = dict(ctor="revolve", base=base, angle=angle, axis=axis, origin=origin)
    case["transforms"] = gen_transforms(rng)
    case["reassemble"] = rng.random() < 0.3
    return case


# ---- what the user described ------------------------------------------------------------------------------------

def described(case):
    """-> list of 4 dicts(a, b, kind, mids) in final positions"""
    trs = case["transforms"]
    out = []
    if case["ctor"] == "series":
        faces = case["faces"]
        for i in range(4):
            mids = [apply_all(f[i], trs) for f in faces[1:-1]]
            out.append(dict(a=apply_all(faces[0][i], trs), b=apply_all(faces[-1][i], trs),
                            kind="arc" if len(mids) == 1 else "spline", mids=mids))
    else:
        for i in range(4):
            p = case["base"][i]
            top = rot_point(p, case["angle"], case["axis"], case["origin"])
            mid = rot_point(p, case["angle"] / 2, case["axis"], case["origin"])
            out.append(dict(a=apply_all(p, trs), b=apply_all(top, trs), kind="arc", mids=[apply_all(mid, trs)]))
    return out


# ---- implementation ---------------------------------------------------------------------------------------------

def run_ctor_case(case):
    from props import C07 as base7
    cb = _cb()
    with warnings.catch_warnings():
        warnings.simplefilter("ignore")
        if case["ctor"] == "series":
            op = cb.Loft.from_series([cb.Face(f) for f in case["faces"]])
        else:
            op = cb.Revolve(cb.Face(case["base"]), case["angle"], case["axis"], case["origin"])
        for t in case["transforms"]:
            if t[0] == "translate":
                op.translate(t[1])
            elif t[0] == "rotate":
                op.rotate(t[1], t[2], t[3])
            elif t[0] == "scale":
                op.scale(t[1], t[2])
            elif t[0] == "mirror":
                op.mirror(t[1], t[2])
            elif t[0] == "invert":
                op.invert()
            elif t[0] == "copy":
                op = op.copy()
        mesh = cb.Mesh()
        mesh.add(op)
        mesh.assemble()
        if case.get("reassemble"):
            mesh.clear()
            mesh.assemble()
        text = mesh.edge_list.description
    vpos = base7.vertex_positions(mesh)
    entries = base7.parse_edges_section(text)
    wires = []
    for block in mesh.block_list.blocks:
        for w in block.wire_list:
            wires.append([w.vertices[0].index, w.vertices[1].index, base7.safe_length(w.edge)])
    return dict(vpos=vpos, entries=entries, wires=wires)


# ---- Model/C07_Series.v against the constructor (stream (d), series cases) ------------------------------------------

def _canon_ids(faces):
    """id of a point = first position in the flattened face list holding the same coordinates"""
    flat = [p for f in faces for p in f]
    ids = []
    for k, p in enumerate(flat):
        ids.append(next(j for j in range(k + 1) if all(abs(a - b) <= 1e-12 for a, b in zip(flat[j], p))))
    return flat, ids


def _edge_code(edge, flat, ids):
    """(kind code, ids of its points): 1 Line, 2 Arc, 3 Spline; anything else / a point that is none of the given: 99"""
    np = _np()
    _cb()
    from classy_blocks.construct import edges as E

    def pid(q):
        q = [float(x) for x in np.asarray(q, dtype=float).reshape(-1)]
        for j, p in enumerate(flat):
            if len(q) == 3 and all(abs(a - b) <= 1e-12 for a, b in zip(p, q)):
                return ids[j]
        return 999999
    if type(edge) is E.Line:
        return (1, [])
    if type(edge) is E.Arc:
        return (2, [pid(edge.point.position)])
    if type(edge) is E.Spline:
        return (3, [pid(q) for q in edge.curve.discretize()])
    return (99, [])


def series_observation(faces):
    """Loft.from_series on the faces, nothing else: (faces as ids, side edges as built, side edges after invert())"""
    cb = _cb()
    flat, ids = _canon_ids(faces)
    with warnings.catch_warnings():
        warnings.simplefilter("ignore")
        op = cb.Loft.from_series([cb.Face(f) for f in faces])
        if len(op.side_edges) != 4:
            raise GenError("an operation with %d side edges" % len(op.side_edges))
        built = [_edge_code(e, flat, ids) for e in op.side_edges]
        op.invert()
        inverted = [_edge_code(e, flat, ids) for e in op.side_edges]
    k = 0
    fid = []
    for f in faces:
        fid.append(ids[k:k + len(f)])
        k += len(f)
    return dict(faces=fid, built=built, inverted=inverted)


def series_coq_case(cid, ob):
    def nl(l):
        return "[" + "; ".join(str(int(x)) for x in l) + "]"

    def codes(cs):
        return "[" + "; ".join("(%d, %s)" % (k, nl(p)) for (k, p) in cs) + "]"
    return "(%d, ([%s], %s, %s))" % (cid, "; ".join(nl(f) for f in ob["faces"]), codes(ob["built"]), codes(ob["inverted"]))


def series_cases_file(obs):
    body = ["From Coq Require Import List Bool Arith.", "From CB Require Import Model.C07_Series.", "Import ListNotations.",
            "Definition cases : list (nat * (list (list nat) * list (nat * list nat) * list (nat * list nat))) := [",
            ";\n".join(series_coq_case(i, ob) for i, ob in enumerate(obs)), "].",
            "Eval vm_compute in (map fst (filter (fun c => negb (series_agree (snd c))) cases))."]
    return "\n".join(body) + "\n"


# ---- oracle -----------------------------------------------------------------------------------------------------

def circle3(a, m, b):
    """centre, radius, unit normal of the circle through three points; None if collinear"""
    np = _np()
    a, m, b = (np.asarray(x, dtype=float) for x in (a, m, b))
    u, v = m - a, b - a
    n = np.cross(u, v)
    nn = float(np.dot(n, n))
    if nn < 1e-18:
        return None
    c = a + (float(np.dot(u, u)) * np.cross(v, n) + float(np.dot(v, v)) * np.cross(n, u)) / (2 * nn)
    return c, float(np.linalg.norm(a - c)), n / math.sqrt(nn)


def arc_length3(a, m, b):
    np = _np()
    cr = circle3(a, m, b)
    if cr is None:
        return None
    c, r, n = cr
    a, m, b = (np.asarray(x, dtype=float) for x in (a, m, b))

    def ang(p):
        x = float(np.dot(p - c, a - c))
        y = float(np.dot(np.cross(a - c, p - c), n))
        t = math.atan2(y, x)
        return t if t >= 0 else t + 2 * math.pi
    tb, tm = ang(b), ang(m)
    if tm > tb:  # the arc runs the other way round
        tb = 2 * math.pi - tb
    return r * tb


def oracle_ctor(case, ob, exact_mid=False):
    from props import C07 as base7
    np = _np()
    bad = []
    vpos = ob["vpos"]
    scale = max(1.0, max(abs(x) for p in vpos for x in p))
    tol = 5e-7 * scale
    want_pairs = set()
    for i, d in enumerate(described(case)):
        ia, ib = base7.index_of(d["a"], vpos, tol), base7.index_of(d["b"], vpos, tol)
        if ia is None or ib is None:
            bad.append(("side edge %d: its described end points are not vertices of the mesh" % i, "C07:ctor:%s:ends-missing" % case["ctor"]))
            continue
        want_pairs.add(frozenset((ia, ib)))
        es = [e for e in ob["entries"] if {e["v1"], e["v2"]} == {ia, ib}]
        if len(es) != 1:
            bad.append(("side edge %d (%d-%d): %d entries instead of one" % (i, ia, ib, len(es)), "C07:ctor:%s:not-exactly-once" % case["ctor"]))
            continue
        e = es[0]
        if e["kind"] != d["kind"]:
            bad.append(("side edge %d: written as %s, described as %s" % (i, e["kind"], d["kind"]), "C07:ctor:%s:kind" % case["ctor"]))
            continue
        seq = d["mids"] if e["v1"] == ia else list(reversed(d["mids"]))
        first, last = (d["a"], d["b"]) if e["v1"] == ia else (d["b"], d["a"])
        if d["kind"] == "spline":
            pts = e.get("points") or []
            if len(pts) != len(seq) or any(not base7.near(p, q, tol) for p, q in zip(pts, seq)):
                rev = len(pts) == len(seq) and all(base7.near(p, q, tol) for p, q in zip(pts, reversed(seq)))
                bad.append(("side edge %d: spline %d %d lists %s, described from vertex %d: %s%s" % (
                    i, e["v1"], e["v2"], json.dumps(pts), e["v1"], json.dumps(seq), " (reversed)" if rev else ""),
                    "C07:ctor:%s:spline-points%s" % (case["ctor"], "-reversed" if rev else "")))
                continue
            want_len = base7.polyline_len([first] + seq + [last])
        else:
            p = np.asarray(e["point"], dtype=float)
            cr = circle3(d["a"], d["mids"][0], d["b"])
            if cr is None:
                continue
            c, r, n = cr
            a, b, m = (np.asarray(x, dtype=float) for x in (d["a"], d["b"], d["mids"][0]))
            off_circle = abs(float(np.linalg.norm(p - c)) - r) > 1e-6 * scale or abs(float(np.dot(p - c, n))) > 1e-6 * scale
            side_m = m - (a + b) / 2
            wrong_side = float(np.dot(p - (a + b) / 2, side_m)) <= 0 if float(np.linalg.norm(side_m)) > 1e-9 else False
            if off_circle or wrong_side:
                bad.append(("side edge %d: arc %d %d through %s does not draw the described arc through %s (%s)" % (
                    i, e["v1"], e["v2"], json.dumps(e["point"]), json.dumps(d["mids"][0]),
                    "off the circle by %.3g" % abs(float(np.linalg.norm(p - c)) - r) if off_circle else "on the other side of the chord"),
                    "C07:ctor:%s:arc-%s" % (case["ctor"], "off-circle" if off_circle else "wrong-side")))
                continue
            if exact_mid and float(np.linalg.norm(p - m)) > 1e-6 * scale:
                bad.append(("side edge %d: arc %d %d is written through %s; half-way along the described arc lies %s" % (
                    i, e["v1"], e["v2"], json.dumps(e["point"]), json.dumps(d["mids"][0])), "C07:ctor:%s:arc-not-halfway" % case["ctor"]))
                continue
            want_len = arc_length3(d["a"], d["mids"][0], d["b"])
        ws = [w for w in ob["wires"] if {w[0], w[1]} == {ia, ib}]
        for w in ws:
            if w[2] is None or want_len is None:
                continue
            rel = 1e-9 if d["kind"] == "spline" else 1e-6
            if abs(w[2] - want_len) > rel * (1 + want_len):
                bad.append(("side edge %d: the block wire %d-%d has length %r, the described curve %r" % (i, w[0], w[1], w[2], want_len),
                            "C07:ctor:%s:wire-length" % case["ctor"]))
                break
    for e in ob["entries"]:
        if frozenset((e["v1"], e["v2"])) not in want_pairs:
            bad.append(("entry %s %d %d belongs to no described side edge" % (e["kind"], e["v1"], e["v2"]), "C07:ctor:%s:extra-entry" % case["ctor"]))
            break
    return bad


def check_ctor(case, exact_mid=False, pid="C07"):
    """-> list of failure dicts (empty when the written edges draw what was described)"""
    try:
        ob = run_ctor_case(case)
    except GenError as e:
        return [dict(kind="ctor", case=case, why="observation failed: %s" % e, sig="C07:ctor:unreadable-output")]
    except Exception as e:  # noqa: BLE001
        return [dict(kind="ctor", case=case, why="raised %s: %s" % (type(e).__name__, e), sig="C07:ctor:%s:raises" % case["ctor"])]
    return [dict(kind="ctor", case=case, why=why, sig=sig.replace("C07:", pid + ":", 1)) for (why, sig) in oracle_ctor(case, ob, exact_mid)[:1]]


def shrink_ctor(case, sig):
    """drop transforms / cross-sections while the same signature stays"""
    cur = json.loads(json.dumps(case))
    changed = True
    while changed:
        changed = False
        for i in range(len(cur["transforms"])):
            c2 = json.loads(json.dumps(cur))
            del c2["transforms"][i]
            if any(f["sig"] == sig for f in check_ctor(c2)):
                cur, changed = c2, True
                break
        if not changed and cur.get("reassemble"):
            c2 = dict(cur, reassemble=False)
            if any(f["sig"] == sig for f in check_ctor(c2)):
                cur, changed = c2, True
        if not changed and cur["ctor"] == "series" and len(cur["faces"]) > 3:
            for i in range(1, len(cur["faces"]) - 1):
                c2 = json.loads(json.dumps(cur))
                del c2["faces"][i]
                if any(f["sig"] == sig for f in check_ctor(c2)):
                    cur, changed = c2, True
                    break
    return cur
