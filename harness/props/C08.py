"""C08 - Alternative arc specifications equal the analytic circle.

Tie (N, source): Model/C08_Arcs.v transcribes arc_from_theta, arc_from_origin (both branches), arc_mid,
arc_length_3point, ArcEdgeBase.length and polyline_length as real-valued functions.
* The vector code - arc_from_theta (angle.py), arc_from_origin incl. the centre-adjustment and flatness branches
  (origin.py), arc_mid / divide_arc(count=1), arc_length_3point, unit_vector, norm (functions.py) - is translated from the
  WORKING TREE on every run by harness/translate_np.py (python ast -> Gallina, fail closed: any node outside its fragment
  is a GenError) into coq/Gen/C08/Source.v, and Proofs/C08_SourceEq.v - compiled on every run - proves that every
  translated function equals the model's function for ALL arguments on which the python text has a real-number reading
  (C08_source_is_model; the side conditions - no division by zero, i.e. no numpy nan - are hypotheses of the lemmas).
* For every generated case the real edge classes of /repo are run (AngleEdge / OriginEdge / ArcEdge / SplineEdge ... built by
  the edge factory on Vertex objects), the doubles they return are turned into exact dyadic literals and Coq decides (tactic
  `interval`, 64 then 120 bits, staged enclosures: Proofs/C08_Corr.v) that the model applied to the same inputs agrees
  within the tolerance of DESIGN 2.4, including the branch the code took.  This now validates the translator's reading of
  numpy float semantics (and remains the only tie for ArcEdgeBase.length / is_valid and polyline_length).
The theorems of Properties/C08.v are about that model, hence (C08_on_source) about the translated source.

Direct oracle (independent of the Coq model): every case is generated FROM an analytic circle
(centre, radius, orthonormal frame, angles), so the expected third point and the expected length
radius*angle are known without looking at any formula of the code.
"""
import hashlib
import json
import math
import os
import re
import warnings

import core
import translate_np
from core import CorrResult, GenError, Prop

TWO_PI = 2 * math.pi


# ------------------------------------------------------------------------------------------------
# small vector helpers (harness side, plain Python floats via numpy)

def _np():
    import numpy as np
    return np


def unit(v):
    np = _np()
    v = np.asarray(v, dtype=float)
    return v / math.sqrt(float(np.dot(v, v)))


def rand_unit(rng):
    np = _np()
    while True:
        v = np.array([rng.gauss(0, 1) for _ in range(3)])
        if np.linalg.norm(v) > 0.2:
            return unit(v)


def rand_frame(rng):
    """right-handed orthonormal (u, v, a): rotation about a by +t sends u to u cos t + v sin t"""
    np = _np()
    a = rand_unit(rng)
    while True:
        w = rand_unit(rng)
        u = np.cross(a, w)
        if np.linalg.norm(u) > 0.3:
            break
    u = unit(u)
    v = np.cross(a, u)
    return u, unit(v), a


def circ(c, R, u, v, t):
    return c + R * (math.cos(t) * u + math.sin(t) * v)


def lst(v):
    return [float(x) for x in v]


def rand_centre_radius(rng):
    np = _np()
    R = 10 ** rng.uniform(-1, 2)
    c = np.array([rng.uniform(-3, 3) for _ in range(3)]) * rng.choice([0.1, 1.0, 1.0, 10.0])
    return c, R


# ------------------------------------------------------------------------------------------------
# case generators.  Every case is a JSON-serialisable dict with everything needed to replay it.

def gen_theta(rng, stratum=None):
    c, R = rand_centre_radius(rng)
    u, v, a = rand_frame(rng)
    strata = ["minor", "minor", "reflex", "reflex", "near_pi", "pi", "small", "large"]
    s = stratum or rng.choice(strata)
    if s == "minor":
        t = rng.uniform(0.2, math.pi - 0.05)
    elif s == "reflex":
        t = rng.uniform(math.pi + 0.05, TWO_PI - 0.2)
    elif s == "near_pi":
        t = math.pi + rng.choice([-1, 1]) * rng.choice([1e-3, 1e-2, 3e-2])
    elif s == "pi":
        t = math.pi
    elif s == "small":
        t = rng.uniform(0.06, 0.2)
    else:
        t = rng.uniform(TWO_PI - 0.2, TWO_PI - 0.06)
    sign = rng.choice([1, -1])
    theta = sign * t
    p1 = circ(c, R, u, v, 0.0)
    p2 = circ(c, R, u, v, theta)
    return dict(kind="theta", stratum=s, centre=lst(c), radius=R, u=lst(u), v=lst(v), axis=lst(a * rng.choice([1.0, 0.37, 4.2])),
                theta=theta, p1=lst(p1), p2=lst(p2), expect_mid=lst(circ(c, R, u, v, theta / 2)), expect_len=R * t)


def gen_helix(rng):
    """axis not perpendicular to the chord: no circle is specified; correspondence only"""
    np = _np()
    case = gen_theta(rng, rng.choice(["minor", "reflex"]))
    a = unit(case["axis"])
    p2 = np.array(case["p2"]) + a * case["radius"] * rng.uniform(0.1, 0.5)
    case.update(kind="helix", p2=lst(p2), expect_mid=None, expect_len=None)
    return case


def gen_origin(rng, stratum=None):
    c, R = rand_centre_radius(rng)
    u, v, _a = rand_frame(rng)
    s = stratum or rng.choice(["equidistant"] * 4 + ["off_centre", "flat"])
    phi = rng.choice([rng.uniform(0.1, math.pi - 0.1), rng.uniform(0.1, math.pi - 0.1), rng.uniform(math.pi - 0.1, math.pi - 0.02)])
    p1 = circ(c, R, u, v, 0.0)
    p3 = circ(c, R, u, v, phi)
    case = dict(kind="origin", stratum=s, p1=lst(p1), p3=lst(p3), phi=phi)
    if s == "equidistant":
        case.update(origin=lst(c), flatness=1, radius=R, expect_mid=lst(circ(c, R, u, v, phi / 2)), expect_len=R * phi)
    elif s == "off_centre":
        # origin moved in the plane of the arc, away from the chord: the code adjusts the centre along
        # the chord bisector to the mean radius
        shift = (u * rng.uniform(-0.2, 0.2) + v * rng.uniform(-0.2, 0.2)) * R * min(1.0, math.cos(phi / 2) + 0.05)
        case.update(origin=lst(c + shift), flatness=1, radius=None, expect_mid=None, expect_len=None)
    else:
        case.update(origin=lst(c), flatness=rng.choice([1.5, 2, 3.0, 0.9, 0.5]), radius=None, expect_mid=None, expect_len=None)
    return case


def gen_arc3(rng, stratum=None):
    c, R = rand_centre_radius(rng)
    u, v, _a = rand_frame(rng)
    s = stratum or rng.choice(["minor", "minor", "reflex_early", "reflex_early", "reflex_mid", "reflex_late", "near_pi"])
    if s == "minor":
        phi = rng.uniform(0.15, math.pi - 0.05)
        psi = rng.uniform(0.15, 0.85) * phi
    elif s == "near_pi":
        phi = math.pi + rng.choice([-1, 1]) * rng.choice([1e-3, 1e-2])
        psi = rng.uniform(0.2, 0.8) * phi
    elif s == "reflex_mid":
        phi = rng.uniform(math.pi + 0.05, TWO_PI - 0.15)
        psi = phi / 2
    elif s == "reflex_early":
        phi = rng.uniform(math.pi + 0.05, TWO_PI - 0.15)
        psi = rng.uniform(0.1, math.pi - 0.05)
    else:  # the given point lies more than half a turn after the start point
        phi = rng.uniform(math.pi + 0.3, TWO_PI - 0.15)
        psi = rng.uniform(math.pi + 0.05, phi - 0.1)
    if rng.random() < 0.5:
        v = -v  # both senses of rotation
    return dict(kind="arc3", stratum=s, radius=R, phi=phi, psi=psi, ps=lst(circ(c, R, u, v, 0.0)),
                pb=lst(circ(c, R, u, v, psi)), pe=lst(circ(c, R, u, v, phi)), expect_len=R * phi)


def gen_poly(rng):
    np = _np()
    n = rng.randint(2, 6)  # Spline/PolyLine data need at least two intermediate points
    scale = 10 ** rng.uniform(-1, 1.5)
    pts = [[rng.uniform(-1, 1) * scale for _ in range(3)] for _ in range(n + 2)]
    if rng.random() < 0.2:  # straight, evenly run polyline: equality case of the chord bound
        a, b = np.array(pts[0]), np.array(pts[-1])
        pts = [lst(a + (b - a) * (i / (n + 1))) for i in range(n + 2)]
    return dict(kind="poly", edge=rng.choice(["spline", "polyLine"]), v1=pts[0], v2=pts[-1], points=pts[1:-1])


def gen_chord(rng, stratum=None):
    """other edge kinds, only for the chord bound.
    stratum "seam": OnCurve edge on a full CircleCurve (bounds 0..2 pi) with one vertex within half a coarse step (2 pi / 14) of
    the seam on either side and the other vertex a short arc away on the other side of the seam"""
    np = _np()
    if stratum == "seam":
        c, R = rand_centre_radius(rng)
        u, v, a = rand_frame(rng)
        near, far = rng.uniform(0.02, 0.2), rng.uniform(0.3, 1.0)
        t1, t2 = (near, TWO_PI - far) if rng.random() < 0.5 else (TWO_PI - near, far)
        if rng.random() < 0.5:
            t1, t2 = t2, t1
        return dict(kind="chord", edge="curve_circle", stratum="seam", origin=lst(c), rim=lst(circ(c, R, u, v, 0.0)), normal=lst(a),
                    v1=lst(circ(c, R, u, v, t1)), v2=lst(circ(c, R, u, v, t2)))
    k = rng.choice(["line", "project", "arc_collinear", "curve_discrete", "curve_line", "curve_circle", "curve_linear"])
    scale = 10 ** rng.uniform(-1, 1.5)
    v1 = [rng.uniform(-1, 1) * scale for _ in range(3)]
    v2 = [rng.uniform(-1, 1) * scale for _ in range(3)]
    case = dict(kind="chord", edge=k, v1=v1, v2=v2)
    if k == "arc_collinear":
        t = rng.uniform(0.1, 0.9)
        case["point"] = lst(np.array(v1) + t * (np.array(v2) - np.array(v1)))
    elif k in ("curve_discrete", "curve_linear"):
        n = rng.randint(3, 8)
        pts = [[rng.uniform(-1, 1) * scale for _ in range(3)] for _ in range(n)]
        i, j = sorted(rng.sample(range(n), 2))
        if rng.random() < 0.3:
            i, j = j, i
        case.update(points=pts, v1=pts[i], v2=pts[j])
    elif k == "curve_line":
        a = np.array(v1)
        b = np.array(v2)
        case.update(cp1=lst(a - 0.3 * (b - a)), cp2=lst(b + 0.2 * (b - a)))
    elif k == "curve_circle":
        c, R = rand_centre_radius(rng)
        u, v, a = rand_frame(rng)
        t1, t2 = rng.uniform(0.1, 2.0), rng.uniform(2.5, 6.0)
        case.update(origin=lst(c), rim=lst(circ(c, R, u, v, 0.0)), normal=lst(a), v1=lst(circ(c, R, u, v, t1)), v2=lst(circ(c, R, u, v, t2)))
    return case


# ------------------------------------------------------------------------------------------------
# running the implementation

def _vertices(p, q):
    from classy_blocks.items.vertex import Vertex
    return Vertex(list(p), 0), Vertex(list(q), 1)


def _moved_here(case):
    """decided by the case itself (replays agree): the edge item is first created and evaluated on OTHER end positions and
    its vertices are then moved to the case's positions - what an optimizer does to an assembled mesh before it is written.
    An edge is a function of where its vertices are now."""
    return int(hashlib.sha1(json.dumps(case, sort_keys=True, default=str).encode()).hexdigest()[:4], 16) % 2 == 0


def _touch(edge):
    for name in ("third_point", "length", "is_valid", "description"):
        try:
            getattr(edge, name)
        except Exception:  # noqa: BLE001
            pass


_ARC_LINE = re.compile(r"^\tarc (\d+) (\d+) \(([-0-9.e+]+) ([-0-9.e+]+) ([-0-9.e+]+)\)$")


def written_point(description):
    last = description.split("\n")[-1]
    m = _ARC_LINE.match(last)
    if not m:
        return None
    return [float(m.group(3)), float(m.group(4)), float(m.group(5))]


def run_impl(case):
    """Returns a dict of observations or dict(error=<class name>)."""
    np = _np()
    from classy_blocks.construct import edges as ed
    from classy_blocks.items.edges.factory import factory
    from classy_blocks.util import functions as f
    k = case["kind"]
    out = {}
    with warnings.catch_warnings():
        warnings.simplefilter("ignore")
        try:
            if k in ("theta", "helix"):
                if _moved_here(case):
                    d = np.array(case["p2"], dtype=float) - np.array(case["p1"], dtype=float)
                    v1, v2 = _vertices(np.array(case["p1"]) + 0.5 * d, np.array(case["p2"]) + 2.0 * d)
                    edge = factory.create(v1, v2, ed.Angle(case["theta"], case["axis"]))
                    _touch(edge)
                    v1.move_to(case["p1"])
                    v2.move_to(case["p2"])
                else:
                    v1, v2 = _vertices(case["p1"], case["p2"])
                    edge = factory.create(v1, v2, ed.Angle(case["theta"], case["axis"]))
                out["axis"] = lst(edge.data.axis.components)
                out["third"] = lst(edge.third_point.position)
                out["valid"] = bool(edge.is_valid)
                out["length"] = float(edge.length)
                out["written"] = written_point(edge.description)
            elif k == "origin":
                if _moved_here(case):
                    o = np.array(case["origin"], dtype=float)
                    v1, v2 = _vertices(o + 0.5 * (np.array(case["p1"]) - o), o + 0.5 * (np.array(case["p3"]) - o))
                    edge = factory.create(v1, v2, ed.Origin(case["origin"], case["flatness"]))
                    _touch(edge)
                    v1.move_to(case["p1"])
                    v2.move_to(case["p3"])
                else:
                    v1, v2 = _vertices(case["p1"], case["p3"])
                    edge = factory.create(v1, v2, ed.Origin(case["origin"], case["flatness"]))
                out["third"] = lst(edge.third_point.position)
                out["valid"] = bool(edge.is_valid)
                out["length"] = float(edge.length)
                out["written"] = written_point(edge.description)
            elif k == "arc3":
                if _moved_here(case):
                    c = (np.array(case["ps"], dtype=float) + np.array(case["pe"], dtype=float)) / 2
                    v1, v2 = _vertices(c + 0.5 * (np.array(case["ps"]) - c), c + 0.5 * (np.array(case["pe"]) - c))
                    edge = factory.create(v1, v2, ed.Arc(case["pb"]))
                    _touch(edge)
                    v1.move_to(case["ps"])
                    v2.move_to(case["pe"])
                else:
                    v1, v2 = _vertices(case["ps"], case["pe"])
                    edge = factory.create(v1, v2, ed.Arc(case["pb"]))
                out["valid"] = bool(edge.is_valid)
                out["length"] = float(edge.length)
                out["length_fn"] = float(f.arc_length_3point(np.array(case["ps"]), np.array(case["pb"]), np.array(case["pe"])))
                out["written"] = written_point(edge.description)
            elif k == "poly":
                v1, v2 = _vertices(case["v1"], case["v2"])
                data = ed.Spline(case["points"]) if case["edge"] == "spline" else ed.PolyLine(case["points"])
                edge = factory.create(v1, v2, data)
                out["length"] = float(edge.length)
            elif k == "chord":
                from classy_blocks.construct.curves.analytic import CircleCurve, LineCurve
                from classy_blocks.construct.curves.discrete import DiscreteCurve
                from classy_blocks.construct.curves.interpolated import LinearInterpolatedCurve
                v1, v2 = _vertices(case["v1"], case["v2"])
                e = case["edge"]
                if e == "line":
                    data = ed.Line()
                elif e == "project":
                    data = ed.Project("geo")
                elif e == "arc_collinear":
                    data = ed.Arc(case["point"])
                elif e == "curve_discrete":
                    data = ed.OnCurve(DiscreteCurve(case["points"]))
                elif e == "curve_linear":
                    data = ed.OnCurve(LinearInterpolatedCurve(case["points"]))
                elif e == "curve_line":
                    data = ed.OnCurve(LineCurve(case["cp1"], case["cp2"]))
                elif e == "curve_circle":
                    data = ed.OnCurve(CircleCurve(case["origin"], case["rim"], case["normal"]))
                else:
                    raise GenError("unknown edge kind %r" % e)
                edge = factory.create(v1, v2, data)
                out["length"] = float(edge.length)
            else:
                raise GenError("unknown case kind %r" % k)
        except GenError:
            raise
        except Exception as e:  # noqa: BLE001
            return dict(error=type(e).__name__, message=str(e)[:200])
    return out


# ------------------------------------------------------------------------------------------------
# direct oracle: the property stated on the observable output, against the analytic circle

REL = 1e-9


def _dist(a, b):
    return math.sqrt(sum((x - y) ** 2 for x, y in zip(a, b)))


def _size(case):
    pts = [case[k] for k in ("p1", "p2", "p3", "ps", "pb", "pe", "v1", "v2") if k in case and case[k] is not None]
    s = max([math.sqrt(sum(x * x for x in p)) for p in pts] + [case.get("radius") or 0.0])
    return max(s, 1e-3)


def len_tol(case, expect):
    """closed-form tolerance; acos is ill-conditioned when the included angle is within 1e-6 of pi"""
    ang = abs(case.get("theta", case.get("phi", 1.0)))
    near = abs(math.sin(ang)) < 1e-6
    return (1e-6 if near else REL) * max(expect, _size(case)), near


def oracle(case, ob):
    """None if the property holds on this case, else (signature, explanation)."""
    k = case["kind"]
    if "error" in ob:
        return ("C08:%s:exception" % k, "the implementation raised %s (%s) on a valid specification" % (ob["error"], ob.get("message", "")))
    size = _size(case)
    if k in ("theta", "origin") and case.get("expect_mid") is not None:
        chord = _dist(case["p1"], case.get("p2", case.get("p3")))
        third = ob["third"]
        if any(math.isnan(x) for x in third):
            return ("C08:%s:nan" % k, "third point is NaN")
        d = _dist(third, case["expect_mid"])
        if d > REL * size * 10:
            if k == "theta":
                t = abs(case["theta"])
                where = "reflex" if t > math.pi + 1e-4 else ("near_pi" if abs(t - math.pi) <= 1e-4 else "minor")
                anti = [2 * c - m for c, m in zip(case["centre"], case["expect_mid"])]
                extra = " (it is the mid point of the complementary arc)" if _dist(third, anti) < 1e-6 * size else ""
                return ("C08:theta:mid:" + where, "third point %r is %.3g away from the point of the specified arc at half the "
                        "sector angle %r%s" % (third, d, case["expect_mid"], extra))
            return ("C08:origin:mid", "third point %r is %.3g away from the middle of the arc about the given origin" % (third, d))
        # written arc line shows the same point (8 decimals)
        if ob.get("valid") and (ob.get("written") is None or _dist(ob["written"], third) > 2e-8 * max(1.0, size)):
            return ("C08:%s:written" % k, "the arc line of the edge does not show the third point: %r vs %r" % (ob.get("written"), third))
        tol, _near = len_tol(case, case["expect_len"])
        if abs(ob["length"] - case["expect_len"]) > tol:
            return ("C08:%s:length" % k, "length %.12g differs from radius*angle = %.12g" % (ob["length"], case["expect_len"]))
        if ob["length"] < chord * (1 - REL):
            return ("C08:chord:%s" % k, "length %.12g below the end point distance %.12g" % (ob["length"], chord))
        return None
    if k == "origin":
        # adjusted centre: the third point is equidistant from both ends and the arc is longer than the chord;
        # with a flatness the radius of the circle through the three points is the (floored) scaled mean radius
        p1, p3, third = case["p1"], case["p3"], ob["third"]
        if any(math.isnan(x) for x in third):
            return ("C08:origin:nan", "third point is NaN")
        if abs(_dist(third, p1) - _dist(third, p3)) > 1e-8 * size:
            return ("C08:origin:adjusted_mid", "adjusted arc: third point not equidistant from the end points")
        chord = _dist(p1, p3)
        if ob["length"] < chord * (1 - REL):
            return ("C08:chord:origin", "length %.12g below the end point distance %.12g" % (ob["length"], chord))
        mean_r = 0.5 * (_dist(p1, case["origin"]) + _dist(p3, case["origin"]))
        want_r = mean_r if case["flatness"] == 1 else max(mean_r * case["flatness"], 1.001 * 0.5 * chord)
        h = _dist(third, [(a + b) / 2 for a, b in zip(p1, p3)])  # sagitta
        got_r = (h * h + chord * chord / 4) / (2 * h)
        if abs(got_r - want_r) > 1e-8 * max(want_r, size):
            return ("C08:origin:adjusted_radius", "adjusted arc has radius %.12g, expected %.12g" % (got_r, want_r))
        # same side of the chord as the origin's minor arc: third point and origin on opposite sides
        mid = [(a + b) / 2 for a, b in zip(p1, p3)]
        s = sum((t - m) * (o - m) for t, m, o in zip(third, mid, case["origin"]))
        if s > 1e-9 * size * size:
            return ("C08:origin:adjusted_side", "adjusted arc bulges towards the origin")
        return None
    if k == "arc3":
        chord = _dist(case["ps"], case["pe"])
        tol, _near = len_tol(case, case["expect_len"])
        for key in ("length", "length_fn"):
            if ob[key] < chord * (1 - REL):
                return ("C08:chord:arc", "length %.12g below the end point distance %.12g" % (ob[key], chord))
            if abs(ob[key] - case["expect_len"]) > tol:
                if case["psi"] > math.pi + 1e-6 and abs(ob[key] - case["radius"] * (TWO_PI - case["phi"])) <= tol:
                    return ("C08:arc3:late_point_reflex",
                            "three-point arc whose given point lies more than half a turn after the start point: length "
                            "%.12g is that of the complementary arc, not radius*angle = %.12g" % (ob[key], case["expect_len"]))
                return ("C08:arc3:length", "%s %.12g differs from radius*angle = %.12g" % (key, ob[key], case["expect_len"]))
        if ob.get("written") is None or _dist(ob["written"], case["pb"]) > 2e-8 * max(1.0, size):
            return ("C08:arc3:written", "the arc line does not show the given point")
        return None
    if k == "helix":
        return None
    if k in ("poly", "chord"):
        chord = _dist(case["v1"], case["v2"])
        slack = 1e-4 * size if case.get("edge", "").startswith("curve_") and case["edge"] not in ("curve_discrete",) else REL * size
        if not (ob["length"] >= chord - slack):
            return ("C08:chord:%s" % case["edge"], "length %.12g below the end point distance %.12g" % (ob["length"], chord))
        if k == "poly":
            pts = [case["v1"]] + case["points"] + [case["v2"]]
            want = sum(_dist(pts[i], pts[i + 1]) for i in range(len(pts) - 1))
            if abs(ob["length"] - want) > REL * max(want, size):
                return ("C08:poly:length", "length %.12g differs from the sum of the segments %.12g" % (ob["length"], want))
        if case.get("edge") in ("line", "project", "arc_collinear") and abs(ob["length"] - chord) > REL * size:
            return ("C08:chord:%s" % case["edge"], "straight edge of length %.12g between points %.12g apart" % (ob["length"], chord))
        return None
    return None


def guard_probes():
    """sector angles outside (0, 2*pi) in magnitude must be rejected"""
    from classy_blocks.items.edges.arcs.angle import arc_from_theta
    fails = []
    for ang in (0.0, TWO_PI, -TWO_PI, 7.0, -9.5):
        try:
            arc_from_theta([0.0, 0.0, 0.0], [1.0, 0.2, 0.0], ang, [0.0, 0.0, 1.0])
            fails.append(dict(kind="guard", theta=ang, why="sector angle %r accepted" % ang, sig="C08:theta:guard"))
        except ValueError:
            pass
        except Exception as e:  # noqa: BLE001
            fails.append(dict(kind="guard", theta=ang, why="sector angle %r raised %s" % (ang, type(e).__name__), sig="C08:theta:guard"))
    return fails


# ------------------------------------------------------------------------------------------------
# Coq side.  Every goal is a statement about the model functions themselves (arc_from_theta, arc_from_origin,
# arc_edge_length, polyline_length) on the dyadic inputs of one Python call; intermediate values (centres,
# adjusted radius) are enclosed in boxes that Coq checks first (lemmas of Proofs/C08_Corr.v), so that every term
# given to `interval` stays small.  The float values of the boxes are only hints: a wrong hint fails the goal.

R_ = core.float_to_R


def cvec(p):
    return "(%s, %s, %s)" % (R_(p[0]), R_(p[1]), R_(p[2]))


class Pool:
    """the inputs of one goal: every float becomes a universally quantified real with the hypothesis
    `a = <exact dyadic literal>` (so each literal is read once by `interval`, however often the model uses it)"""

    def __init__(self):
        self.names = {}

    def r(self, x):
        x = float(x)
        key = x.hex()
        if key not in self.names:
            self.names[key] = ("a%d" % len(self.names), x)
        return self.names[key][0]

    def vec(self, p):
        return "(%s, %s, %s)" % (self.r(p[0]), self.r(p[1]), self.r(p[2]))

    def goal(self, gid, stmt, tactic):
        """tactic is a format string with one %(iv)s-style slot set: it is tried at 64 and then at 120 bits, so that
        a goal is reported as MISMATCH only if the numbers disagree, not because an enclosure was too wide"""
        items = sorted(self.names.values(), key=lambda nv: int(nv[0][1:]))
        binders = " ".join(n for n, _x in items)
        hyps = " -> ".join("%s = %s" % (n, R_(x)) for n, x in items)
        t1 = tactic.replace("@IV@", "interval with (i_prec 64)")
        t2 = tactic.replace("@IV@", "interval with (i_prec 120)")
        return ("Goal forall %s : R, %s ->\n  %s.\nProof.\n  intros; boxes.\n  first [ %s; idtac \"OK %d\" | %s; idtac \"OK %d\" | idtac \"MISMATCH %d\" ].\nAbort.\n"
                % (binders, hyps, stmt, t1, gid, t2, gid, gid))


CBV_LIST = ("close3 inbox arc_from_theta theta_pm theta_rm theta_len theta_chord arc_mid secant_mid vunit dist "
            "arc_from_origin_noadj origin_new_centre origin_mean_radius "
            "a3_len_flip_at a3_len_noflip_at acos_atan a3_x_at a3_flipq_at a3_centre a3_denom arc_collinearity polyline_length "
            "norm norm2 dot cross vadd vsub vscale vx vy vz fst snd dy tol_const")
CBV = "cbv [%s] in *" % CBV_LIST
IV = "@IV@"
IVS = "repeat split; " + IV
IVBOX = "split; [ %s | split; [ %s | %s ] ]" % (IV, IV, IV)  # inbox lo hi p: three double inequalities
BOXW = 1e-14  # half width of the enclosures of intermediate values, relative to the size of the case


def box(c, half):
    lo = [float(x) - half for x in c]
    hi = [float(x) + half for x in c]
    return cvec(lo), cvec(hi)


def _fr(p):
    from fractions import Fraction
    return [Fraction(float(x)) for x in p]


def _fdot(a, b):
    return a[0] * b[0] + a[1] * b[1] + a[2] * b[2]


def _fcross(a, b):
    return [a[1] * b[2] - a[2] * b[1], a[2] * b[0] - a[0] * b[2], a[0] * b[1] - a[1] * b[0]]


def _fsub(a, b):
    return [a[i] - b[i] for i in range(3)]


def a3_exact(ps, pb, pe):
    """exact rational evaluation of the centre, of the sign quantity and of 1 - cos^2 of arc_length_3point:
    hints for the staged proof (a wrong hint makes the goal fail, it cannot make it pass)"""
    ps, pb, pe = _fr(ps), _fr(pb), _fr(pe)
    a, b = _fsub(pb, ps), _fsub(pe, ps)
    denom = _fdot(a, a) * _fdot(b, b) - _fdot(a, b) ** 2
    if denom <= 0:
        return None
    fact = (_fdot(b, b) - _fdot(a, b)) / (2 * denom)
    w = _fcross(_fcross(a, b), a)
    centre = [ps[i] + a[i] / 2 + fact * w[i] for i in range(3)]
    rs, rb, re_ = _fsub(ps, centre), _fsub(pb, centre), _fsub(pe, centre)
    q = _fdot(_fcross(rs, rb), _fcross(rs, re_))
    r4 = _fdot(re_, re_) ** 2
    sin2 = 1 - _fdot(rs, re_) ** 2 / (_fdot(rs, rs) * _fdot(re_, re_))
    return dict(centre=[float(x) for x in centre], q=float(q / r4), sin2=float(sin2))


def length_goal(gid, case, ends, L, valid, size):
    """ArcEdgeBase.length of the arc through ends = (v1, third point, v2)"""
    P = Pool()
    cps, cpb, cpe = (P.vec(e) for e in ends)
    k = case["kind"]
    ltol, near = len_tol(case, abs(L)) if k != "helix" else (REL * max(size, abs(L)), False)
    stmt = "Rabs (arc_edge_length tol_const %s %s %s - %s) <= %s" % (cps, cpb, cpe, R_(L), R_(ltol))
    if not valid:
        tac = "apply arc_edge_length_collinear; [ %s; %s | %s; %s ]" % (CBV, IV, CBV, IV)
        return (gid, "length-straight", P.goal(gid, stmt, tac))
    h = a3_exact(*ends)
    if h is None:
        return None
    lo, hi = box(h["centre"], BOXW * size)
    if h["sin2"] < 1e-12:
        # half circle to within rounding: cos = -1 +- 1e-12, acos is evaluated at the end of its domain where the
        # atan form is not available: the angle is enclosed between acos(-1 + 1e-10) = pi - 1.4e-5 and pi by
        # monotonicity (a3_len_at_near_pi), which decides the length to 2e-5 relative only (counted as boundary;
        # the direct oracle checks these cases to 1e-6)
        stmt = "Rabs (arc_edge_length tol_const %s %s %s - %s) <= %s" % (cps, cpb, cpe, R_(L), R_(2e-5 * max(abs(L), size)))
        inner = ("apply (a3_len_at_near_pi _ _ _ _ _ _ %s); [ %s; split; %s | %s; %s | %s; %s | %s; %s ]"
                 % (R_(-1 + 1e-10), CBV, IV, CBV, IV, CBV, IV, CBV, IV))
        staged = ("apply (a3_length_staged _ _ _ _ _ %s %s); [ %s; %s | intros x y z Hx Hy Hz; %s ]" % (lo, hi, CBV, IVBOX, inner))
        tac = "apply arc_edge_length_valid; [ %s; %s | %s; %s | %s ]" % (CBV, IV, CBV, IV, staged)
        return (gid, "length-halfcircle", P.goal(gid, stmt, tac))
    if abs(h["q"]) < 1e-9:
        branch, what = "a3_len_at_either", "length-boundary"
    elif h["q"] < 0:
        branch, what = "a3_len_at_flip", "length-flip"
    else:
        branch, what = "a3_len_at_noflip", "length-noflip"
    staged = ("apply (a3_length_staged _ _ _ _ _ %s %s); [ %s; %s | intros x y z Hx Hy Hz; apply %s; %s; %s ]"
              % (lo, hi, CBV, IVBOX, branch, CBV, IVS))
    tac = "apply arc_edge_length_valid; [ %s; %s | %s; %s | %s ]" % (CBV, IV, CBV, IV, staged)
    return (gid, what, P.goal(gid, stmt, tac))


def origin_hints(case):
    """50-digit re-computation of the adjusted radius and centre of arc_from_origin"""
    import decimal
    from decimal import Decimal as D
    ctx = decimal.Context(prec=60)

    def dv(p):
        return [ctx.create_decimal(D(float(x))) for x in p]

    def dot(a, b):
        return sum((ctx.multiply(a[i], b[i]) for i in range(3)), D(0))

    def sub(a, b):
        return [ctx.subtract(a[i], b[i]) for i in range(3)]

    def cross(a, b):
        return [a[1] * b[2] - a[2] * b[1], a[2] * b[0] - a[0] * b[2], a[0] * b[1] - a[1] * b[0]]

    with decimal.localcontext(ctx):
        p1, p3, c = dv(case["p1"]), dv(case["p3"]), dv(case["origin"])
        r1, r3 = sub(p1, c), sub(p3, c)
        chord = sub(p3, p1)
        nchord = dot(chord, chord).sqrt()
        mean = (dot(r1, r1).sqrt() + dot(r3, r3).sqrt()) / 2
        if case["flatness"] == 1:
            radius, floor = mean, None
        else:
            a, b = mean * D(float(case["flatness"])), D(1001) / D(1000) / 2 * nchord
            radius, floor = max(a, b), (b > a)
        w = cross(cross(r1, r3), chord)
        nw = dot(w, w).sqrt()
        h = (radius * radius - nchord * nchord / 4).sqrt()
        centre = [(p3[i] + p1[i]) / 2 + h * w[i] / nw for i in range(3)]
        return float(radius), floor, [float(x) for x in centre]


def coq_goals(case, ob, gid_base, quick=False):
    """Returns list of (gid, what, text or None)."""
    goals = []
    k = case["kind"]
    if "error" in ob:
        return goals
    size = _size(case)
    tol = REL * size
    nan = any(isinstance(x, float) and math.isnan(x) for x in ob.get("third", [])) or math.isnan(ob.get("length", 0.0))
    if nan:
        return [(gid_base, "nan", "Goal False.\nProof. idtac \"MISMATCH %d\".\nAbort.\n" % gid_base)]
    P = Pool()
    if k in ("theta", "helix"):
        stmt = "close3 (arc_from_theta %s %s %s %s) %s %s" % (P.vec(case["p1"]), P.vec(case["p2"]), P.r(case["theta"]), P.vec(ob["axis"]),
                                                            cvec(ob["third"]), R_(tol))
        goals.append((gid_base, "mid", P.goal(gid_base, stmt, "%s; %s" % (CBV, IVS))))
        ends = (case["p1"], ob["third"], case["p2"])
    elif k == "origin":
        p1, p3, c = P.vec(case["p1"]), P.vec(case["p3"]), P.vec(case["origin"])
        m, t = cvec(ob["third"]), R_(tol)
        flat = case["flatness"]
        gap = abs(_dist(case["p1"], case["origin"]) - _dist(case["p3"], case["origin"]))
        if flat == 1 and gap <= 1e-7:
            stmt = "close3 (arc_from_origin tol_const %s %s %s 1) %s %s" % (p1, p3, c, m, t)
            tac = "apply origin_case_noadj; [ %s; %s | %s; %s ]" % (CBV, IV, CBV, IVS)
            goals.append((gid_base, "mid-origin", P.goal(gid_base, stmt, tac)))
        else:
            _radius, floor, centre = origin_hints(case)
            lo, hi = box(centre, BOXW * size)
            if flat == 1:
                stmt = "close3 (arc_from_origin tol_const %s %s %s 1) %s %s" % (p1, p3, c, m, t)
                head = "apply origin_case_adj; [ %s; %s | " % (CBV, IV)
                what = "mid-adjusted"
            else:
                stmt = "close3 (arc_from_origin tol_const %s %s %s %s) %s %s" % (p1, p3, c, P.r(flat), m, t)
                head = ("apply origin_case_flat; [ %s; %s; %s | rewrite %s by (%s; %s); "
                        % ("left" if flat < 1 else "right", CBV, IV, "origin_flat_radius_floor" if floor else "origin_flat_radius_scaled", CBV, IV))
                what = "mid-flat-floor" if floor else "mid-flat"
            tac = (head + "apply (origin_adj_staged _ _ _ _ _ _ %s %s); [ %s; %s | intros x y z Hx Hy Hz; %s; %s ] ]"
                   % (lo, hi, CBV, IVBOX, CBV, IVS))
            goals.append((gid_base, what, P.goal(gid_base, stmt, tac)))
        ends = (case["p1"], ob["third"], case["p3"])
    elif k == "arc3":
        ends = (case["ps"], case["pb"], case["pe"])
        if case["psi"] > math.pi and abs(ob["length"] - case["expect_len"]) <= len_tol(case, case["expect_len"])[0]:
            # the region of the open finding (C08_three_point_late: the model measures the complementary arc); an
            # implementation that reports radius*angle here has repaired the finding and is not held to the model
            return [(gid_base + 1, "length-late-point-as-specified", None)]
    elif k == "poly":
        pts = [case["v1"]] + case["points"] + [case["v2"]]
        stmt = "Rabs (polyline_length [%s] - %s) <= %s" % ("; ".join(P.vec(p) for p in pts), R_(ob["length"]), R_(REL * max(size, ob["length"])))
        return [(gid_base, "polyline", P.goal(gid_base, stmt, "%s; %s" % (CBV, IV)))]
    elif k == "chord" and case["edge"] == "arc_collinear":
        g = length_goal(gid_base + 1, case, (case["v1"], case["point"], case["v2"]), ob["length"], False, size)
        return [g]
    else:
        return goals
    if quick and k == "theta" and case.get("stratum") in ("minor", "small", "large") and (gid_base // 10) % 2 == 1:
        return goals  # quick tier: the length of every second plain angle/axis arc is left to the direct oracle
    g = length_goal(gid_base + 1, case, ends, ob["length"], ob.get("valid", True), size)
    if g:
        goals.append(g)
    return goals


HEADER = ("From Coq Require Import Reals List.\nFrom Interval Require Import Tactic.\n"
          "From CB Require Import Base.Vec3 Model.C08_Arcs Proofs.C08_Corr Gen.C08.Consts.\nImport ListNotations.\nOpen Scope R_scope.\n\n")


def canonical(case):
    keys = [k for k in sorted(case) if not k.startswith("expect") and k not in ("centre", "u", "v", "radius", "stratum")]
    return json.dumps({k: case[k] for k in keys}, sort_keys=True)


def nontrivial(case):
    """general position: no coordinate axis is the arc axis / no end point coordinate vanishes"""
    pts = [case[k] for k in ("p1", "p2", "p3", "ps", "pe", "v1", "v2") if k in case]
    return all(abs(x) > 1e-6 for p in pts for x in p)


CORPUS = [
    # the reconnaissance case: three quarters of a turn about z between axis-aligned points
    dict(kind="theta", stratum="corpus", centre=[0.0, 0.0, 0.0], radius=1.0, u=[1.0, 0.0, 0.0], v=[0.0, 1.0, 0.0], axis=[0.0, 0.0, 1.0],
         theta=1.5 * math.pi, p1=[1.0, 0.0, 0.0], p2=[math.cos(1.5 * math.pi), -1.0, 0.0],
         expect_mid=[math.cos(0.75 * math.pi), math.sin(0.75 * math.pi), 0.0], expect_len=1.5 * math.pi),
    # the unit test of the suite (quarter circle, axis -z)
    dict(kind="theta", stratum="corpus", centre=[0.0, 0.0, 0.0], radius=1.0, u=[0.0, 1.0, 0.0], v=[1.0, 0.0, 0.0], axis=[0.0, 0.0, -1.0],
         theta=math.pi / 2, p1=[0.0, 1.0, 0.0], p2=[1.0, 0.0, 0.0],
         expect_mid=[math.sqrt(0.5), math.sqrt(0.5), 0.0], expect_len=math.pi / 2),
]


# ------------------------------------------------------------------------------------------------
# the source itself: which functions are translated (harness/translate_np.py), with the types of their parameters

SRC_MODULES = {
    "classy_blocks.util.functions": "util/functions.py",
    "classy_blocks.items.edges.arcs.angle": "items/edges/arcs/angle.py",
    "classy_blocks.items.edges.arcs.origin": "items/edges/arcs/origin.py",
}
_F, _A, _O = list(SRC_MODULES)
SRC_ENTRIES = [  # (module, function, {parameter: "vec" | "real" | "bool" | literal}); the Gallina name is src_<function>
    (_F, "norm", {"matrix": "vec"}),
    (_F, "unit_vector", {"vect": "vec"}),
    (_F, "divide_arc", {"axis": "vec", "center": "vec", "point_1": "vec", "point_2": "vec", "count": 1}),
    (_F, "arc_mid", {"axis": "vec", "center": "vec", "point_1": "vec", "point_2": "vec"}),
    (_F, "arc_length_3point", {"p_start": "vec", "p_btw": "vec", "p_end": "vec"}),
    (_A, "arc_from_theta", {"edge_point_1": "vec", "edge_point_2": "vec", "angle": "real", "axis": "vec"}),
    (_O, "arc_from_origin", {"edge_point_1": "vec", "edge_point_2": "vec", "center": "vec", "adjust_center": "bool",
                             "r_multiplier": "real"}),
]


def translate_source():
    """-> (text of Gen/C08/Source.v, the translator)"""
    root = os.path.join(core.REPO, "src", "classy_blocks")
    tr = translate_np.Translator({m: os.path.join(root, rel) for m, rel in SRC_MODULES.items()})
    for (m, f, sig) in SRC_ENTRIES:
        tr.entry(m, f, sig)
    text = tr.source_text("C08: " + ", ".join("%s.%s" % (m.split(".")[-1], f) for (m, f, _s) in SRC_ENTRIES)
                          + " of the working tree of /repo.")
    return text, tr


class C08(Prop):
    pid = "C08"
    title = "Alternative arc specifications equal the analytic circle"
    prebuilt = ["Base/Vec3.v", "Model/C08_Arcs.v", "Proofs/C08_Theta.v", "Proofs/C08_Chord.v", "Proofs/C08_ThreePoint.v", "Proofs/C08_Corr.v",
                "Proofs/C08_Circle.v", "Proofs/C08_Length.v", "Proofs/C08_Reflex.v"]
    gen_dependent_files = ["Gen/C08/Consts.v", "Gen/C08/Source.v", "Proofs/C08_SourceEq.v"]
    property_files = ["Properties/C08.v"]
    trusted = [
        "the numpy-vector AST translator harness/translate_np.py (angle.py, origin.py, functions.py -> Gen/C08/Source.v; "
        "Proofs/C08_SourceEq.v proves translated source = model for all arguments on every run, theorem C08_source_is_model). "
        "Its fragment: " + translate_np.FRAGMENT + ".  Its reading of python / numpy is what is trusted: floats as reals, float "
        "literals as the decimal numbers written, a division by zero / sqrt, arccos, tan outside their domain (numpy: inf / nan "
        "and a RuntimeWarning, python floats: an exception or a complex number) as 'no value' (None) - the equality lemmas "
        "carry the corresponding non-degeneracy hypotheses (origin_dom, cross(dp, axis) <> 0, |denominator| >= 1e-18); "
        "warnings.warn as a no-op; run-time tie: the functions the library calls are the parsed ones (file, first line) and "
        "np / f / constants are the modules assumed",
        "hand-written model Model/C08_Arcs.v: for arc_from_theta / arc_from_origin / arc_mid / arc_length_3point / unit_vector no "
        "longer trusted (proved equal to the translated source); for ArcEdgeBase.length / is_valid and polyline_length (class "
        "properties and array slicing, outside the translator's fragment) still tied by sampled, kernel-decided numeric "
        "agreement only (interval, 64/120 bits)",
        "numpy/scipy floating point arithmetic read as real arithmetic within 1e-9 relative (1e-6 where acos is evaluated "
        "within 1e-6 of its end points): validated on every run by the interval correspondence between the doubles the edge "
        "classes return and the model that is proved equal to the translated source",
        "constants.TOL is read from the working tree into Gen/C08/Consts.v on every run",
    ]
    partial = [
        "C08_three_point_length_partial: radius*angle is proved when the given point lies less than half a turn after the "
        "start point (always true for arcs of at most half a turn and for the points written by the angle and origin "
        "conversions); for later points the full statement C08_three_point_length_stmt is false of the code "
        "(C08_three_point_length_refuted, C08_three_point_late: the complementary arc is measured, as blockMesh does)",
        "C08_chord_bound: arc edges of all kinds and polylines (spline, polyLine); OnCurve edges measure a polyline through "
        "sampled curve points, the bound holds for that polyline between the sampled end points; that those coincide with the "
        "vertices is C16/C17 (checked here by the direct oracle only, including OnCurve edges on a full CircleCurve with a vertex "
        "next to the seam of the parameter range: stratum 'seam' of the chord cases)",
        "C08_origin: stated for origin = centre of the circle through the end points (flatness 1, included angle < pi); "
        "the adjusted-centre and flatness branches are covered by the correspondence and the oracle only",
    ]

    def generate(self, ctx):
        from classy_blocks.util import constants
        tol = constants.TOL
        if not isinstance(tol, float) or not (0 < tol < 1e-3):
            raise GenError("constants.TOL has an unexpected value %r" % (tol,))
        txt = ("(* GENERATED by harness/props/C08.py from the working tree of /repo -- do not edit *)\n"
               "From Coq Require Import Reals.\nFrom CB Require Import Base.Vec3.\nOpen Scope R_scope.\n"
               "(* constants.TOL = %r *)\nDefinition tol_const : R := %s.\n" % (tol, R_(tol)))
        ctx.write_gen("Consts", txt)
        # the source itself: python -> Gallina (fail closed), proved equal to the model by Proofs/C08_SourceEq.v
        text, tr = translate_source()
        tr.tie_to_runtime()
        want = {"src_" + f for (_m, f, _s) in SRC_ENTRIES}
        got = {d["coq"] for d in tr.summary}
        if not want <= got:
            raise GenError("translated definitions %r lack %r" % (sorted(got), sorted(want - got)))
        ctx.write_gen("Source", text)
        ctx.log("S1: arc code translated: %d definitions (%s)" % (len(tr.summary), ", ".join(d["coq"] for d in tr.summary)))

    # -- S3 --------------------------------------------------------------------------------------
    def make_cases(self, ctx):
        rng = ctx.rng
        cases = [dict(c) for c in CORPUS]
        n = ctx.n(56, 1500)
        for s in ("minor", "reflex", "near_pi", "pi", "small", "large"):
            for _ in range(3):
                cases.append(gen_theta(rng, s))
        for _ in range(n):
            cases.append(gen_theta(rng))
        for _ in range(max(6, n // 15)):
            cases.append(gen_helix(rng))
        for s in ("off_centre", "off_centre", "off_centre", "flat", "flat", "flat", "flat"):
            cases.append(gen_origin(rng, s))
        for _ in range(n // 2 - 7):
            cases.append(gen_origin(rng))
        for s in ("minor", "reflex_early", "reflex_mid", "reflex_late", "near_pi"):
            cases.append(gen_arc3(rng, s))
        for _ in range(n // 2 - 5):
            cases.append(gen_arc3(rng))
        for _ in range(max(20, n // 6)):
            cases.append(gen_poly(rng))
        for _ in range(max(40, n // 4)):
            cases.append(gen_chord(rng))
        for _ in range(max(10, n // 20)):
            cases.append(gen_chord(rng, "seam"))
        return cases

    def correspond(self, ctx):
        res = CorrResult()
        res.rule = ("[arc_from_theta, arc_from_origin, arc_mid, arc_length_3point, unit_vector: the model is proved equal to the "
                    "translated source for all arguments (Proofs/C08_SourceEq.v); these samples validate the translator's reading of "
                    "numpy float semantics and tie ArcEdgeBase.length / polyline_length] "
                    "cases generated from analytic circles (centre in [-30,30]^3, radius 10^U(-1,2), random orthonormal frame, "
                    "sector angle in (0.06, 2pi-0.06) of either sign incl. pi, pi+-1e-3..3e-2; origin arcs with equidistant / "
                    "off-centre origin / flatness; three-point arcs with the given point anywhere on the arc; polylines; other edge "
                    "kinds for the chord bound); each run through the edge factory of /repo; (R) Revolve operations (sector angle + axis on the "
                    "four side edges) moved as a whole by 0..3 of translate/rotate/scale/mirror/invert/copy, assembled: direct oracle on the "
                    "written arcs (half-way point of the transformed analytic arc, length = radius x angle); compared in Coq: third point, length "
                    "with the branch taken; non-trivial = no end point coordinate is zero (general position); distinct by input")
        cases = self.make_cases(ctx)
        goals = []  # (gid, case index, what, text)
        obs = []
        for i, case in enumerate(cases):
            ob = run_impl(case)
            obs.append(ob)
            res.evaluations += 1
            res.count("kind=" + case["kind"])
            if "stratum" in case:
                res.count("%s:%s" % (case["kind"], case["stratum"]))
            if "edge" in case:
                res.count("edge=" + case["edge"])
            if nontrivial(case):
                res.distinct.add(canonical(case))
            bad = oracle(case, ob)
            if bad:
                res.oracle_failures.append(dict(kind=case["kind"], case=case, observed=ob, sig=bad[0], why=bad[1]))
            for (gid, what, text) in coq_goals(case, ob, 10 * i, ctx.quick):
                res.count("goal=" + what)
                if what in ("length-boundary", "length-halfcircle"):
                    res.boundary += 1
                if text is not None:
                    goals.append((gid, i, what, text))
        for g in guard_probes():
            res.oracle_failures.append(g)
        res.evaluations += 5
        # (R) sector-angle arcs as operations carry them: Revolve, then moved as a whole (direct oracle only)
        for f in self.revolve_stream(ctx, res, ctx.n(80, 1500)):
            res.oracle_failures.append(f)
        res.samples = [dict(case=cases[i], observed=obs[i]) for i in (0, 2, len(cases) // 2, len(cases) - 1)]
        # shard: at most 16 files in the quick tier, goals dealt round-robin so that the files are balanced
        nshards = min(12, max(1, len(goals) // 12)) if ctx.quick else max(16, len(goals) // 60)
        shards = [("cases_%d" % k, HEADER + "\n".join(g[3] for g in goals[k::nshards])) for k in range(nshards)]
        seen = {}
        for (name, rc, so, se) in core.run_cases_parallel(ctx, shards, timeout=600):
            if rc != 0:
                res.error = "case file %s failed to compile: %s" % (name, se[-800:])
                return res
            for m in re.finditer(r"^(OK|MISMATCH) (\d+)\s*$", so, flags=re.M):
                seen[int(m.group(2))] = m.group(1)
        for (gid, i, what, _t) in goals:
            v = seen.get(gid)
            if v is None:
                res.error = "goal %d (%s) produced no verdict" % (gid, what)
                return res
            if v == "MISMATCH":
                res.mismatches.append(dict(goal=gid, what=what, case=cases[i], impl=obs[i]))
        res.traces = len(goals)
        self._cases = (cases, obs)
        return res

    def revolve_stream(self, ctx, res, n):
        from props import C07_ctor
        out, seen = [], set()
        for _ in range(n):
            c = C07_ctor.gen_ctor_case(ctx.rng, ctor="revolve")
            res.evaluations += 1
            res.count("revolve:%d transforms" % len(c["transforms"]))
            res.distinct.add("revolve:" + json.dumps(c, sort_keys=True))
            for f in C07_ctor.check_ctor(c, exact_mid=True, pid="C08"):
                if f["sig"] not in seen:
                    seen.add(f["sig"])
                    out.append(f)
        return out

    # -- S4 --------------------------------------------------------------------------------------
    def search(self, ctx, broken, corr):
        """seeded random search with the direct oracle (no Coq involved)"""
        fails = []
        for m in corr.mismatches[:20]:
            bad = oracle(m["case"], m["impl"])
            if bad:
                fails.append(dict(kind=m["case"]["kind"], case=m["case"], observed=m["impl"], sig=bad[0], why=bad[1]))
        rng = ctx.rng
        gens = [gen_theta, gen_origin, gen_arc3, gen_poly, gen_chord, lambda r: gen_chord(r, "seam")]
        seen = {f["sig"] for f in fails}
        for i in range(ctx.n(3000, 20000)):
            case = gens[i % len(gens)](rng)
            ob = run_impl(case)
            bad = oracle(case, ob)
            if bad and bad[0] not in seen:
                seen.add(bad[0])
                fails.append(dict(kind=case["kind"], case=case, observed=ob, sig=bad[0], why=bad[1]))
        fails += guard_probes()
        if not fails:
            fails += self.revolve_stream(ctx, CorrResult(), ctx.n(300, 3000))
        return fails

    def signature(self, rp):
        return rp.get("sig") or "C08:%s" % rp.get("kind")

    def replay(self, ctx, obj):
        if obj.get("kind") == "guard":
            print("oracle:", guard_probes() or "ok")
            return 0
        if obj.get("kind") == "ctor":
            from props import C07_ctor
            print("input:", json.dumps(obj["case"]))
            try:
                ob = C07_ctor.run_ctor_case(obj["case"])
                print("implementation: entries", json.dumps(ob["entries"]), "wires", json.dumps(ob["wires"]))
                print("described side edges:", json.dumps(C07_ctor.described(obj["case"])))
            except Exception as e:  # noqa: BLE001
                print("implementation raised", type(e).__name__, e)
            print("oracle:", [(f["why"], f["sig"]) for f in C07_ctor.check_ctor(obj["case"], exact_mid=True, pid="C08")] or "ok")
            return 0
        case = obj.get("case")
        if not case:
            print("nothing to replay (no failing input was found):", json.dumps(obj.get("broken_obligations"), default=str)[:1500])
            return 0
        ob = run_impl(case)
        print("input:", json.dumps(case))
        print("implementation:", json.dumps(ob))
        bad = oracle(case, ob)
        print("oracle:", ("FAIL %s: %s" % bad) if bad else "ok")
        return 0


PROP = C08()
